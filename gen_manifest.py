#!/usr/bin/env python3
"""Regenerates MANIFEST.json from the table below (kept in one place so the
manifest stays valid while properties are added)."""
import json, subprocess
ENV = "PATH=/opt/veriftools/go1.26.8/bin:$PATH GOTOOLCHAIN=local GOFLAGS=-mod=mod GOPROXY=off GOSUMDB=off"
claimed = json.load(open("/verif/claims.json"))
ids = ["C%02d" % i for i in range(1, 21)]
checks, na = [], []
for pid in ids:
    c = claimed.get(pid)
    if not c or c.get("not_applicable"):
        na.append({"property_id": pid, "reason": (c or {}).get("reason", "no static rule implemented yet for this property (work in progress); nothing is claimed")})
        continue
    checks.append({
        "property_id": pid,
        "quick_cmd": "./bin/check %s quick" % pid,
        "thorough_cmd": "./bin/check %s thorough" % pid,
        "evidence_file": "/verif/evidence/%s.json" % pid,
        "replay_cmd_template": "./bin/check %s quick  # static: re-analyses /repo's working tree; {path} is the evidence file listing the violated obligations" % pid,
        "engine": "grogcheck",
        "level_claimed": {"category": "other", "text": c["text"], "design_ref": "DESIGN.md §5 " + pid},
        "level_note": c["note"],
        "technique": c["technique"],
    })
m = {
    "version": 1,
    "setup_cmd": "cd /verif/checker && env " + ENV + " go build -o /verif/bin/grogcheck ./cmd/grogcheck && (cd /repo && env " + ENV + " go build ./... )",
    "hooks": {
        "guard": "verif",
        "enable": "n/a - static analysis of unmodified sources; no hooks or instrumentation are compiled into grog",
        "baseline_off_cmd": json.load(open("/root/.vp/BASELINE.json"))["cmd"],
        "source_commits": [],
        "add_only": True,
    },
    "engines": [{"name": "grogcheck", "path": "/verif/checker", "serves_properties": [c["property_id"] for c in checks],
                 "kind_free_text": "custom static analyser over go/packages + go/ssa (x/tools v0.50.0): value-flow graph, first-party call graph, CFG must-pass-through queries, lock sets; nothing is executed"}],
    "checks": checks,
    "not_applicable": na,
    "notes": "All claims are at level 'other': each check decides structural necessary conditions of its property for all inputs/schedules by static analysis of /repo's working tree (see DESIGN.md §1). known_findings.json lists genuine defects that are recorded rather than repaired.",
}
json.dump(m, open("/verif/MANIFEST.json", "w"), indent=1)
print("claimed", [c["property_id"] for c in checks])
