// dest: internal/cmd/cmds
// run: TestD21CleanRemovesTheLockOfARunningBuild
// known finding (C10): FAILS on the real code — `grog clean` removes the directory that holds the lock file of
// a running build without taking the lock, so a second build can start next to the first.
package cmds

import (
	"context"
	"os"
	"path/filepath"
	"testing"
	"time"

	"grog/internal/config"
	"grog/internal/locking"
)

func TestD21CleanRemovesTheLockOfARunningBuild(t *testing.T) {
	tmp := t.TempDir()
	old := config.Global
	defer func() { config.Global = old }()
	config.Global = config.WorkspaceConfig{Root: filepath.Join(tmp, "grogroot"), WorkspaceRoot: filepath.Join(tmp, "ws"), LogLevel: "error"}
	if err := os.MkdirAll(config.Global.GetWorkspaceRootDir(), 0755); err != nil {
		t.Fatal(err)
	}
	running := locking.NewWorkspaceLocker()
	if err := running.Lock(context.Background()); err != nil {
		t.Fatal(err)
	}
	defer running.Unlock()

	// what `grog clean` does (cmds/clean.go): no lock is taken
	CleanCmd.Run(CleanCmd, nil)

	ctx, cancel := context.WithTimeout(context.Background(), 2*time.Second)
	defer cancel()
	second := locking.NewWorkspaceLocker()
	if err := second.Lock(ctx); err == nil {
		second.Unlock()
		t.Fatalf("a second build acquired the workspace lock while the first one still holds it: `grog clean` deleted the first build's lock file")
	}
}
