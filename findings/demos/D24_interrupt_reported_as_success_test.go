// dest: internal/dag
// run: TestD24InterruptedWalkReportsTheInterrupt
// fixed: passes on the repaired tree, fails on the tree before the fix (GROG_REPO=<old checkout> tools/demo.sh ...)
package dag

import (
	"context"
	"testing"
	"time"

	"grog/internal/label"
	"grog/internal/model"
)

// An interrupt that is delivered before the walk starts (while BUILD files are loaded, say) makes every node
// routine of a graph without parked nodes return at once without a completion. Walk then finds both `done`
// and `ctx.Done()` ready and picks one at random; when it picks `done` it returns (completions, nil) with no
// failed completion in it, and the build command prints "completed successfully" and exits 0 although nothing
// was built.
func TestD24InterruptedWalkReportsTheInterrupt(t *testing.T) {
	silent := 0
	const rounds = 400
	for i := 0; i < rounds; i++ {
		target := &model.Target{Label: label.TL("pkg", "only"), Command: "sleep 10"}
		target.Select()
		graph := NewDirectedGraphFromMap(model.BuildNodeMapFromNodes(target))
		walker := NewWalker(graph, func(ctx context.Context, node model.BuildNode) (CacheResult, error) {
			<-ctx.Done() // what the worker pool does with a cancelled context
			return CacheMiss, ctx.Err()
		}, false)
		ctx, cancel := context.WithCancel(context.Background())
		cancel() // SIGINT arrived before the walk started
		done := make(chan struct{})
		var completions CompletionMap
		var err error
		go func() {
			completions, err = walker.Walk(ctx)
			close(done)
		}()
		select {
		case <-done:
		case <-time.After(5 * time.Second):
			t.Fatal("walk did not return")
		}
		if err == nil && len(completions.GetErrors()) == 0 {
			silent++
		}
	}
	if silent > 0 {
		t.Fatalf("%d of %d interrupted walks returned no error and no failed completion: the build would be reported as successful (exit 0) although it was interrupted and built nothing", silent, rounds)
	}
}
