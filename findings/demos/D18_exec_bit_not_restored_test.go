// dest: internal/output/handlers
// run: TestD18
// fixed: passes on the repaired tree, fails on the tree before the fix (GROG_REPO=<old checkout> tools/demo.sh ...)
package handlers

import (
	"context"
	"os"
	"path/filepath"
	"testing"

	"grog/internal/caching"
	"grog/internal/caching/backends"
	"grog/internal/config"
	"grog/internal/label"
	"grog/internal/model"
)

// A cached executable whose bytes are still in the workspace but whose executable bit was removed
// must be runnable again after a restore.
func TestD18RestoreBringsBackExecutableBit(t *testing.T) {
	tmp := t.TempDir()
	ws := filepath.Join(tmp, "ws")
	os.MkdirAll(filepath.Join(ws, "pkg"), 0755)
	old := config.Global
	defer func() { config.Global = old }()
	config.Global = config.WorkspaceConfig{Root: filepath.Join(tmp, "root"), WorkspaceRoot: ws, OS: "linux", Arch: "amd64"}
	ctx := context.Background()
	fs, err := backends.NewFileSystemCache(ctx)
	if err != nil {
		t.Fatal(err)
	}
	h := NewFileOutputHandler(caching.NewCas(fs))
	target := model.Target{Label: label.TL("pkg", "tool")}
	out := model.NewOutput("file", "tool.sh")
	path := filepath.Join(ws, "pkg", "tool.sh")
	if err := os.WriteFile(path, []byte("#!/bin/sh\necho hi\n"), 0755); err != nil {
		t.Fatal(err)
	}
	rec, err := h.Write(ctx, target, out, nil)
	if err != nil {
		t.Fatal(err)
	}
	if err := os.Chmod(path, 0644); err != nil {
		t.Fatal(err)
	}
	if err := h.Load(ctx, target, rec, nil); err != nil {
		t.Fatal(err)
	}
	info, _ := os.Stat(path)
	if info.Mode()&0111 == 0 {
		t.Fatalf("restored %s has mode %v: the cached executable bit was not restored", path, info.Mode())
	}
}
