// dest: internal/loading
// run: TestVerifDemoMakefileLoader
//
// D8 (C16): a bare `# @grog` line directly followed by a rule makes
// makefileParser.handleTarget index annotationLineNumbers[len-1] on an empty slice:
// the loader panics instead of reporting an error (the script loader guards this case).
// D9 (C16): the Makefile loader parses fingerprint, environment_variables, timeout
// and platforms from the annotation (embedded scriptAnnotation) and then drops them;
// the same annotation in a script or YAML file keeps them.
package loading

import (
	"bufio"
	"strings"
	"testing"
)

func TestVerifDemoMakefileLoader(t *testing.T) {
	t.Run("D8_bare_annotation_does_not_panic", func(t *testing.T) {
		defer func() {
			if r := recover(); r != nil {
				t.Fatalf("the Makefile loader panicked on a bare annotation: %v", r)
			}
		}()
		src := "# @grog\nbuild:\n\techo hi\n"
		pkg, _, err := newMakefileParser(bufio.NewScanner(strings.NewReader(src))).parse()
		if err != nil {
			t.Fatalf("unexpected error: %v", err)
		}
		if len(pkg.Targets) != 1 || pkg.Targets[0].Name != "build" {
			t.Fatalf("expected one target `build`, got %+v", pkg.Targets)
		}
	})
	t.Run("D9_annotation_fields_are_kept", func(t *testing.T) {
		src := "# @grog\n# name: gen\n# timeout: 90s\n# platforms:\n#   - linux/amd64\n# fingerprint:\n#   tool: v2\n# environment_variables:\n#   FOO: bar\ngen:\n\t./gen.sh\n"
		pkg, _, err := newMakefileParser(bufio.NewScanner(strings.NewReader(src))).parse()
		if err != nil {
			t.Fatal(err)
		}
		if len(pkg.Targets) != 1 {
			t.Fatalf("expected one target, got %d", len(pkg.Targets))
		}
		tg := pkg.Targets[0]
		if tg.Timeout != "90s" || len(tg.Platforms) != 1 || tg.Fingerprint["tool"] != "v2" || tg.EnvironmentVariables["FOO"] != "bar" {
			t.Fatalf("annotation fields dropped by the Makefile loader: timeout=%q platforms=%v fingerprint=%v env=%v", tg.Timeout, tg.Platforms, tg.Fingerprint, tg.EnvironmentVariables)
		}
	})
}
