// dest: internal/loading
// run: TestD28StarlarkExpectedOutputOfWrongTypeIsAnError
// fixed: passes on the repaired tree, fails on the tree before the fix (GROG_REPO=<old checkout> tools/demo.sh ...)
package loading

import (
	"context"
	"os"
	"path/filepath"
	"testing"
)

// `expected_output = 0` (a number where a string is expected) was silently dropped by the Starlark loader:
// the check degenerated to "the command exits 0", so a check that was written to compare the command's
// output passed whatever the command printed. The JSON loader rejects the same declaration.
func TestD28StarlarkExpectedOutputOfWrongTypeIsAnError(t *testing.T) {
	for _, form := range []string{
		`{"command": "echo 1", "expected_output": 0}`,
		`struct(command = "echo 1", expected_output = 0)`,
	} {
		dir := t.TempDir()
		file := filepath.Join(dir, "BUILD.star")
		src := `target(name = "t", command = "true", output_checks = [` + form + `])` + "\n"
		if err := os.WriteFile(file, []byte(src), 0644); err != nil {
			t.Fatal(err)
		}
		pkg, matched, err := StarlarkLoader{}.Load(context.Background(), file)
		if err == nil {
			t.Fatalf("%s: loaded without an error (matched=%v): the expected output is dropped and the check compares nothing: %+v", form, matched, pkg.Targets)
		}
	}
}
