// dest: internal/analysis
// run: TestD26RootDirectoryOutputContainsEveryFile
// fixed: passes on the repaired tree, fails on the tree before the fix (GROG_REPO=<old checkout> tools/demo.sh ...)
package analysis

import (
	"testing"

	"grog/internal/label"
	"grog/internal/model"
	"grog/internal/output"
)

// A directory output of the root package that is spelled `dir::.` cleans to ".". pathWithin tested
// containment with HasPrefix(path, dir+"/") = HasPrefix(path, "./"), which no cleaned path has: a file
// output anywhere in the workspace and a nested directory output were not seen as lying inside it, so two
// unordered writers of the same file were accepted.
func TestD26RootDirectoryOutputContainsEveryFile(t *testing.T) {
	wholeOutputs, err := output.ParseOutputs([]string{"dir::."})
	if err != nil {
		t.Fatal(err)
	}
	fileOutputs, err := output.ParseOutputs([]string{"gen.txt"})
	if err != nil {
		t.Fatal(err)
	}
	whole := &model.Target{Label: label.TL("", "snapshot"), Command: "true", Outputs: wholeOutputs}
	file := &model.Target{Label: label.TL("app", "gen"), Command: "true", Outputs: fileOutputs}
	if _, err := BuildGraph(model.BuildNodeMapFromNodes(whole, file)); err == nil {
		t.Fatalf("two unordered targets, one writing the directory `.` and one writing app/gen.txt inside it, were accepted")
	}
}
