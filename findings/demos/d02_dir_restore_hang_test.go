// dest: internal/output/handlers
// run: TestVerifDemoDirRestoreFailingBlobHangs
//
// D2 (C04): DirectoryOutputHandler.Load sizes its error channel by the number of
// child *directories* but one goroutine per *file* may send on it, and the channel
// is only drained after waitGroup.Wait(). A flat directory (0 children) whose file
// blob cannot be read blocks its goroutine forever: the restore — and the build — hangs.
package handlers_test

import (
	"context"
	"os"
	"path/filepath"
	"testing"
	"time"

	"grog/internal/caching"
	"grog/internal/caching/backends"
	"grog/internal/config"
	"grog/internal/label"
	"grog/internal/model"
	"grog/internal/output/handlers"
)

func TestVerifDemoDirRestoreFailingBlobHangs(t *testing.T) {
	ctx := context.Background()
	rootDir := t.TempDir()
	config.Global = config.WorkspaceConfig{Root: rootDir, WorkspaceRoot: rootDir}
	be, err := backends.NewFileSystemCache(ctx)
	if err != nil {
		t.Fatal(err)
	}
	cas := caching.NewCas(be)
	h := handlers.NewDirectoryOutputHandler(cas)
	target := model.Target{Label: label.TL("pkg", "t"), ChangeHash: "h"}
	out := model.NewOutput("dir", "out")
	dir := filepath.Join(rootDir, "pkg", "out")
	if err := os.MkdirAll(dir, 0755); err != nil {
		t.Fatal(err)
	}
	if err := os.WriteFile(filepath.Join(dir, "a.txt"), []byte("content of a"), 0644); err != nil {
		t.Fatal(err)
	}
	rec, err := h.Write(ctx, target, out, nil)
	if err != nil {
		t.Fatal(err)
	}
	// lose the file blob (keep the tree blob), and change the workspace copy so a restore is needed
	treeDigest := rec.GetDirectory().GetTreeDigest().GetHash()
	casDir := filepath.Join(config.Global.GetWorkspaceCacheDirectory(), "cas")
	entries, _ := os.ReadDir(casDir)
	for _, e := range entries {
		if e.Name() != treeDigest {
			os.Remove(filepath.Join(casDir, e.Name()))
		}
	}
	os.WriteFile(filepath.Join(dir, "a.txt"), []byte("modified"), 0644)

	done := make(chan error, 1)
	go func() { done <- h.Load(ctx, target, rec, nil) }()
	select {
	case err := <-done:
		if err == nil {
			t.Fatal("expected an error for the missing blob")
		}
	case <-time.After(5 * time.Second):
		t.Fatal("Load did not return within 5s: the goroutine reporting the failed blob is blocked on the error channel (capacity = number of sub-directories = 0) and waitGroup.Wait() never returns")
	}
}
