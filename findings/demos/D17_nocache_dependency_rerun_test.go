// dest: internal/execution
// run: TestD17
// fixed: passes on the repaired tree, fails on the tree before the fix (GROG_REPO=<old checkout> tools/demo.sh ...)
package execution

import (
	"context"
	"fmt"
	"os"
	"path/filepath"
	"strings"
	"testing"
	"time"

	"grog/internal/analysis"
	"grog/internal/caching"
	"grog/internal/caching/backends"
	"grog/internal/config"
	"grog/internal/label"
	"grog/internal/model"
	"grog/internal/output"
)

// A no-cache dependency is executed once by the walker and then once more by every dependant that
// misses the cache under load_outputs=minimal.
func TestD17NoCacheDependencyExecutedOncePerBuild(t *testing.T) {
	tmp := t.TempDir()
	workspaceRoot := filepath.Join(tmp, "ws")
	if err := os.MkdirAll(filepath.Join(workspaceRoot, "pkg"), 0755); err != nil {
		t.Fatal(err)
	}
	oldConfig := config.Global
	defer func() { config.Global = oldConfig }()
	config.Global = config.WorkspaceConfig{
		Root: filepath.Join(tmp, "grogroot"), WorkspaceRoot: workspaceRoot, NumWorkers: 2,
		LoadOutputs: "minimal", EnableCache: true, LogLevel: "error", OS: "linux", Arch: "amd64",
		DisableNonDeterministicLogging: true,
	}
	journal := filepath.Join(tmp, "journal.txt")
	command := func(name, out string) string {
		return fmt.Sprintf("echo \"run %s\" >> %s\necho %s > %s\n", name, journal, name, out)
	}
	gen := &model.Target{Label: label.TL("pkg", "gen"), Command: command("gen", "gen.txt"),
		Outputs: []model.Output{model.NewOutput("file", "gen.txt")}, Tags: []string{"no-cache"}}
	a := &model.Target{Label: label.TL("pkg", "a"), Command: command("a", "a.txt"),
		Outputs: []model.Output{model.NewOutput("file", "a.txt")}, Dependencies: []label.TargetLabel{gen.Label}}
	b := &model.Target{Label: label.TL("pkg", "b"), Command: command("b", "b.txt"),
		Outputs: []model.Output{model.NewOutput("file", "b.txt")}, Dependencies: []label.TargetLabel{gen.Label}}
	graph, err := analysis.BuildGraph(model.BuildNodeMapFromNodes(gen, a, b))
	if err != nil {
		t.Fatal(err)
	}
	for _, node := range graph.GetNodes() {
		node.Select()
	}
	ctx, cancel := context.WithTimeout(context.Background(), 60*time.Second)
	defer cancel()
	cache, err := backends.GetCacheBackend(ctx, config.Global.Cache)
	if err != nil {
		t.Fatal(err)
	}
	executor := NewExecutor(caching.NewTargetResultCache(cache), caching.NewTaintCache(cache),
		output.NewRegistry(ctx, caching.NewCas(cache)), graph, false, false, true, config.LoadOutputsMinimal)
	completions, err := executor.Execute(ctx)
	if err != nil {
		t.Fatalf("build failed: %v", err)
	}
	for l, c := range completions {
		if !c.IsSuccess {
			t.Fatalf("target %s failed: %v", l, c.Err)
		}
	}
	jb, _ := os.ReadFile(journal)
	t.Logf("journal:\n%s", jb)
	runs := map[string]int{}
	for _, line := range strings.Split(strings.TrimSpace(string(jb)), "\n") {
		runs[strings.TrimPrefix(line, "run ")]++
	}
	for _, n := range []string{"gen", "a", "b"} {
		if runs[n] != 1 {
			t.Errorf("//pkg:%s executed %d times in one build, want 1", n, runs[n])
		}
	}
}
