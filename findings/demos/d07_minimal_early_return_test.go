// dest: internal/execution
// run: TestVerifDemoMinimalModeLoadsEveryDependency
//
// D7 (C15): LoadDependencyOutputs returns from inside its loop over the direct
// dependencies (`return rerunDependency()`) as soon as one dependency's target
// result cannot be loaded. The remaining dependencies' outputs are never
// materialised, yet the call reports success, so under load_outputs=minimal the
// dependant's command runs without them.
package execution

import (
	"context"
	"os"
	"path/filepath"
	"testing"

	"github.com/spf13/viper"

	"grog/internal/caching"
	"grog/internal/caching/backends"
	"grog/internal/config"
	"grog/internal/dag"
	"grog/internal/label"
	"grog/internal/model"
	"grog/internal/output"
	"grog/internal/worker"
)

func TestVerifDemoMinimalModeLoadsEveryDependency(t *testing.T) {
	root := t.TempDir()
	ws := filepath.Join(root, "ws")
	os.MkdirAll(filepath.Join(ws, "pkg"), 0755)
	original := config.Global
	t.Cleanup(func() { config.Global = original })
	viper.Set("disable_tea", true)
	t.Cleanup(func() { viper.Set("disable_tea", false) })
	config.Global = config.WorkspaceConfig{Root: filepath.Join(root, "grogroot"), WorkspaceRoot: ws, NumWorkers: 2, EnableCache: true, LoadOutputs: "minimal", LogLevel: "error", OS: "linux", Arch: "amd64", HashAlgorithm: config.HashAlgorithmXXH3, DisableProgressTracker: true}
	ctx := context.Background()

	mk := func() (*dag.DirectedTargetGraph, *model.Target, *model.Target, *model.Target) {
		a := &model.Target{Label: label.TL("pkg", "a"), Command: "echo A > a.out", Outputs: []model.Output{model.NewOutput("file", "a.out")}, IsSelected: true}
		b := &model.Target{Label: label.TL("pkg", "b"), Command: "echo B > b.out", Outputs: []model.Output{model.NewOutput("file", "b.out")}, IsSelected: true}
		top := &model.Target{Label: label.TL("pkg", "top"), Command: "cat a.out b.out > top.out", Outputs: []model.Output{model.NewOutput("file", "top.out")}, Dependencies: []label.TargetLabel{a.Label, b.Label}}
		g := dag.NewDirectedGraphFromTargets(a, b, top)
		if err := g.AddEdge(a, top); err != nil {
			t.Fatal(err)
		}
		if err := g.AddEdge(b, top); err != nil {
			t.Fatal(err)
		}
		return g, a, b, top
	}
	newExec := func(g *dag.DirectedTargetGraph, mode config.LoadOutputsMode) *Executor {
		be, err := backends.NewFileSystemCache(ctx)
		if err != nil {
			t.Fatal(err)
		}
		return NewExecutor(caching.NewTargetResultCache(be), caching.NewTaintCache(be), output.NewRegistry(ctx, caching.NewCas(be)), g, false, false, true, mode)
	}
	// build 1: a and b are built and cached
	g, a, _, _ := mk()
	cm, err := newExec(g, config.LoadOutputsAll).Execute(ctx)
	if err != nil || len(cm.GetErrors()) > 0 {
		t.Fatalf("first build failed: %v %v", err, cm.GetErrors())
	}
	lostKey := a.ChangeHash
	// new checkout state: outputs gone; a's target result is lost from the cache
	os.Remove(filepath.Join(ws, "pkg", "a.out"))
	os.Remove(filepath.Join(ws, "pkg", "b.out"))
	if err := os.Remove(filepath.Join(config.Global.GetWorkspaceCacheDirectory(), "target", lostKey)); err != nil {
		t.Fatal(err)
	}
	// build 2 (minimal): top is about to execute; its dependencies' outputs must be loaded first
	g2, a2, b2, top2 := mk()
	ex := newExec(g2, config.LoadOutputsMinimal)
	for _, n := range []*model.Target{a2, b2} {
		if err := ex.targetHasher.SetTargetChangeHash(n); err != nil {
			t.Fatal(err)
		}
		n.OutputHash = "x" // as propagated by a minimal-mode hit
	}
	if err := ex.LoadDependencyOutputs(ctx, top2, func(worker.StatusUpdate) {}); err != nil {
		t.Fatalf("LoadDependencyOutputs: %v", err)
	}
	for _, f := range []string{"a.out", "b.out"} {
		if _, err := os.Stat(filepath.Join(ws, "pkg", f)); err != nil {
			t.Errorf("LoadDependencyOutputs reported success but %s was not materialised: the dependant's command would run without it", f)
		}
	}
}
