// dest: internal/output/handlers
// run: TestD29
// fixed: passes on the repaired tree, fails on the tree before the fix (GROG_REPO=<old checkout> tools/demo.sh ...)
package handlers

import (
	"context"
	"os"
	"path/filepath"
	"testing"

	"grog/internal/caching"
	"grog/internal/caching/backends"
	"grog/internal/config"
	"grog/internal/label"
	"grog/internal/model"
)

// C06: a restore reproduces the output "regardless of what currently sits at the output path". What sits
// there in this history is a symlink to another file of the workspace (a de-duplication step, a developer's
// `ln -sf`): the restore has to put a regular file with the cached bytes at the output path and must not
// write through the link into the file it points to.
func TestD29RestoreOverSymlinkAtOutputPath(t *testing.T) {
	for _, sameContent := range []bool{false, true} {
		tmp := t.TempDir()
		ws := filepath.Join(tmp, "ws")
		os.MkdirAll(filepath.Join(ws, "pkg"), 0755)
		old := config.Global
		config.Global = config.WorkspaceConfig{Root: filepath.Join(tmp, "root"), WorkspaceRoot: ws, OS: "linux", Arch: "amd64"}
		ctx := context.Background()
		fs, err := backends.NewFileSystemCache(ctx)
		if err != nil {
			t.Fatal(err)
		}
		h := NewFileOutputHandler(caching.NewCas(fs))
		target := model.Target{Label: label.TL("pkg", "gen")}
		out := model.NewOutput("file", "out.txt")
		path := filepath.Join(ws, "pkg", "out.txt")
		other := filepath.Join(ws, "pkg", "precious.txt")
		if err := os.WriteFile(path, []byte("cached bytes\n"), 0644); err != nil {
			t.Fatal(err)
		}
		rec, err := h.Write(ctx, target, out, nil)
		if err != nil {
			t.Fatal(err)
		}
		otherContent := "a source file the user cares about\n"
		if sameContent {
			otherContent = "cached bytes\n"
		}
		os.WriteFile(other, []byte(otherContent), 0644)
		os.Remove(path)
		if err := os.Symlink("precious.txt", path); err != nil {
			t.Fatal(err)
		}
		if err := h.Load(ctx, target, rec, nil); err != nil {
			t.Fatal(err)
		}
		config.Global = old
		if got, _ := os.ReadFile(other); string(got) != otherContent {
			t.Errorf("sameContent=%v: the restore wrote through the symlink: precious.txt now holds %q", sameContent, got)
		}
		info, err := os.Lstat(path)
		if err != nil {
			t.Fatal(err)
		}
		if !info.Mode().IsRegular() {
			t.Errorf("sameContent=%v: after the restore the output path is still %v, not the regular file that was cached", sameContent, info.Mode())
		}
		if got, _ := os.ReadFile(path); string(got) != "cached bytes\n" {
			t.Errorf("sameContent=%v: restored content %q", sameContent, got)
		}
	}
}
