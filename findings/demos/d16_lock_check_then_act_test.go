// dest: internal/locking
// run: TestVerifKnownFindingLiveLockDeleted
//
// Known finding D16/F1 (C10): a lock file is created exclusively and the PID is
// written in a separate step. A contender that reads the file in between finds it
// empty ("unparsable") and removes it: it deletes a live lock and both processes
// proceed. The removals after the unreadable / dead-PID tests are check-then-act in
// the same way. Repairing this needs a different primitive (flock, or publishing the
// PID atomically with link + compare-and-remove), not a small patch.
package locking

import (
	"context"
	"os"
	"path/filepath"
	"testing"
	"time"
)

func TestVerifKnownFindingLiveLockDeleted(t *testing.T) {
	dir := t.TempDir()
	lockPath := filepath.Join(dir, "lockfile")
	// process A is between os.OpenFile(O_CREATE|O_EXCL) and file.Write(pid)
	fA, err := os.OpenFile(lockPath, os.O_RDWR|os.O_CREATE|os.O_EXCL, 0644)
	if err != nil {
		t.Fatal(err)
	}
	// process B contends
	b := &WorkspaceLocker{lockFilePath: lockPath}
	ctx, cancel := context.WithTimeout(context.Background(), 3*time.Second)
	defer cancel()
	errB := b.Lock(ctx)
	// A finishes its acquisition
	fA.Write([]byte("1"))
	fA.Close()
	if errB == nil {
		t.Fatalf("B acquired the workspace lock while A (which created the lock file exclusively and is about to write its PID) also holds it: A's live lock file was removed as 'stale'")
	}
}
