// dest: internal/analysis
// run: TestD25DuplicateDependencyIsOneEdge
// fixed: passes on the repaired tree, fails on the tree before the fix (GROG_REPO=<old checkout> tools/demo.sh ...)
package analysis

import (
	"testing"

	"grog/internal/label"
	"grog/internal/model"
)

// A target may name the same dependency twice (`[":lib", "//pkg:lib"]` parse to the same label). BuildGraph
// added one edge per mention, so GetDependencies(app) and GetDependants(lib) — exactly what `grog deps app`
// and `grog rdeps lib` print — listed the label twice, and a completing lib sent app two ready messages.
func TestD25DuplicateDependencyIsOneEdge(t *testing.T) {
	lib := &model.Target{Label: label.TL("pkg", "lib"), Command: "true"}
	app := &model.Target{Label: label.TL("pkg", "app"), Command: "true",
		Dependencies: []label.TargetLabel{label.TL("pkg", "lib"), label.TL("pkg", "lib")}}
	graph, err := BuildGraph(model.BuildNodeMapFromNodes(lib, app))
	if err != nil {
		t.Fatalf("a repeated dependency is not an error: %v", err)
	}
	if deps := graph.GetDependencies(app); len(deps) != 1 {
		t.Fatalf("`grog deps //pkg:app` prints %d lines for one dependency: %v", len(deps), deps)
	}
	if rdeps := graph.GetDependants(lib); len(rdeps) != 1 {
		t.Fatalf("`grog rdeps //pkg:lib` prints %d lines for one dependant: %v", len(rdeps), rdeps)
	}
}
