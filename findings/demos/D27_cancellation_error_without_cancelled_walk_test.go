// dest: internal/dag
// run: TestD27CancellationErrorOfALiveWalkIsAFailure
// fixed: passes on the repaired tree, fails on the tree before the fix (GROG_REPO=<old checkout> tools/demo.sh ...)
package dag

import (
	"context"
	"fmt"
	"testing"
	"time"

	"grog/internal/label"
	"grog/internal/model"
)

// A callback may fail with an error that wraps context.Canceled although the walk's own context is alive: a
// cache client that cancels a request context of its own, a command killed by a signal that is reported as
// a cancellation. The node routine took every such error for "the walk is being torn down" and returned
// without a completion: the failed target is never recorded, its dependants are neither started nor
// cancelled, and Walk waits for them forever — the build hangs instead of failing and naming the target.
func TestD27CancellationErrorOfALiveWalkIsAFailure(t *testing.T) {
	lib := &model.Target{Label: label.TL("pkg", "lib"), Command: "true"}
	app := &model.Target{Label: label.TL("pkg", "app"), Command: "true",
		Dependencies: []label.TargetLabel{label.TL("pkg", "lib")}}
	lib.Select()
	app.Select()
	graph := NewDirectedGraphFromMap(model.BuildNodeMapFromNodes(lib, app))
	if err := graph.AddEdge(lib, app); err != nil {
		t.Fatal(err)
	}
	walker := NewWalker(graph, func(ctx context.Context, node model.BuildNode) (CacheResult, error) {
		if node.GetLabel() == lib.Label {
			return CacheMiss, fmt.Errorf("fetching blob: %w", context.Canceled)
		}
		return CacheMiss, nil
	}, false)
	type result struct {
		completions CompletionMap
		err         error
	}
	done := make(chan result, 1)
	go func() {
		completions, err := walker.Walk(context.Background())
		done <- result{completions, err}
	}()
	select {
	case r := <-done:
		if r.err != nil {
			t.Fatalf("walk failed: %v", r.err)
		}
		c, ok := r.completions[lib.Label]
		if !ok || c.IsSuccess {
			t.Fatalf("the failed target has no failed completion: %+v", r.completions)
		}
	case <-time.After(5 * time.Second):
		t.Fatal("the walk hangs: the target failed with an error wrapping context.Canceled while the walk was not cancelled, no completion was recorded and its dependant waits forever")
	}
}
