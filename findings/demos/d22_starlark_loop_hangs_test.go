// dest: internal/loading
// run: TestD22LoopingStarlarkBuildFileDoesNotHang
// known finding (C16, also C18): FAILS on the real code — a BUILD.star that loops is evaluated without a step
// budget and without being cancelled with the load context, so the loader never returns.
package loading

import (
	"context"
	"os"
	"path/filepath"
	"testing"
	"time"
)

func TestD22LoopingStarlarkBuildFileDoesNotHang(t *testing.T) {
	dir := t.TempDir()
	file := filepath.Join(dir, "BUILD.star")
	src := "def spin():\n    for i in range(1 << 40):\n        pass\n\nspin()\n"
	if err := os.WriteFile(file, []byte(src), 0644); err != nil {
		t.Fatal(err)
	}
	ctx, cancel := context.WithTimeout(context.Background(), 1*time.Second)
	defer cancel()
	done := make(chan error, 1)
	go func() {
		_, _, err := StarlarkLoader{}.Load(ctx, file)
		done <- err
	}()
	select {
	case err := <-done:
		if err == nil {
			t.Fatalf("a BUILD.star that loops 2^40 times was 'loaded' without an error")
		}
		t.Logf("loader returned: %v", err)
	case <-time.After(6 * time.Second):
		t.Fatalf("the loader is still evaluating the BUILD file 5 s after its context expired: grog would hang (no error, no exit)")
	}
}
