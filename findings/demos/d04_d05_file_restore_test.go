// dest: internal/output/handlers
// run: TestVerifDemoFileRestore
//
// D4 (C02): FileOutputHandler.Load creates the file without creating its parent
// directory: on a fresh checkout (output in a directory that does not exist yet)
// the restore fails and the target is silently re-executed.
// D5 (C06): the executable permission of a file output is neither recorded nor
// restored (gen.FileOutput.is_executable is never written or read).
package handlers_test

import (
	"context"
	"os"
	"path/filepath"
	"testing"

	"grog/internal/caching"
	"grog/internal/caching/backends"
	"grog/internal/config"
	"grog/internal/label"
	"grog/internal/model"
	"grog/internal/output/handlers"
)

func TestVerifDemoFileRestore(t *testing.T) {
	ctx := context.Background()
	rootDir := t.TempDir()
	config.Global = config.WorkspaceConfig{Root: rootDir, WorkspaceRoot: rootDir}
	be, err := backends.NewFileSystemCache(ctx)
	if err != nil {
		t.Fatal(err)
	}
	h := handlers.NewFileOutputHandler(caching.NewCas(be))
	target := model.Target{Label: label.TL("pkg", "t"), ChangeHash: "h"}
	out := model.NewOutput("file", "dist/bin/tool")
	p := filepath.Join(rootDir, "pkg", "dist", "bin", "tool")
	os.MkdirAll(filepath.Dir(p), 0755)
	if err := os.WriteFile(p, []byte("#!/bin/sh\necho hi\n"), 0755); err != nil {
		t.Fatal(err)
	}
	rec, err := h.Write(ctx, target, out, nil)
	if err != nil {
		t.Fatal(err)
	}
	// fresh checkout: the output's parent directory does not exist
	os.RemoveAll(filepath.Join(rootDir, "pkg", "dist"))
	t.Run("D4_parent_directory_missing", func(t *testing.T) {
		if err := h.Load(ctx, target, rec, nil); err != nil {
			t.Fatalf("restore into a missing parent directory failed (the target would be re-executed): %v", err)
		}
	})
	t.Run("D5_executable_bit", func(t *testing.T) {
		os.MkdirAll(filepath.Dir(p), 0755)
		os.Remove(p)
		if err := h.Load(ctx, target, rec, nil); err != nil {
			t.Fatalf("restore failed: %v", err)
		}
		st, err := os.Stat(p)
		if err != nil {
			t.Fatal(err)
		}
		if st.Mode()&0111 == 0 {
			t.Fatalf("restored file mode is %v: the executable permission it had when cached was lost", st.Mode())
		}
	})
}
