// dest: internal/execution
// run: TestVerifDemoFailingOutputCheckForcesExecution
//
// D6 (C14): the pre-execution output check is evaluated before the cache decision
// but its result is only logged. A target with a valid cache entry whose output
// check now fails is restored from the cache instead of being executed, although
// the documented life-cycle is "always run the output checks; if the condition is
// not satisfied, execute the target".
package execution

import (
	"context"
	"os"
	"path/filepath"
	"testing"

	"github.com/spf13/viper"

	"grog/internal/caching"
	"grog/internal/caching/backends"
	"grog/internal/config"
	"grog/internal/dag"
	"grog/internal/label"
	"grog/internal/model"
	"grog/internal/output"
)

func TestVerifDemoFailingOutputCheckForcesExecution(t *testing.T) {
	root := t.TempDir()
	ws := filepath.Join(root, "ws")
	os.MkdirAll(filepath.Join(ws, "pkg"), 0755)
	original := config.Global
	t.Cleanup(func() { config.Global = original })
	viper.Set("disable_tea", true)
	t.Cleanup(func() { viper.Set("disable_tea", false) })
	config.Global = config.WorkspaceConfig{Root: filepath.Join(root, "grogroot"), WorkspaceRoot: ws, NumWorkers: 2, EnableCache: true, LoadOutputs: "all", LogLevel: "error", OS: "linux", Arch: "amd64", HashAlgorithm: config.HashAlgorithmXXH3, DisableProgressTracker: true}
	marker := filepath.Join(root, "tool-installed")
	runs := filepath.Join(root, "runs")
	build := func() int {
		ctx := context.Background()
		target := &model.Target{
			Label:        label.TL("pkg", "install_tool"),
			Command:      "echo x >> " + runs + "; touch " + marker,
			OutputChecks: []model.OutputCheck{{Command: "test -f " + marker}},
			IsSelected:   true,
		}
		g := dag.NewDirectedGraphFromTargets(target)
		be, err := backends.NewFileSystemCache(ctx)
		if err != nil {
			t.Fatal(err)
		}
		cas := caching.NewCas(be)
		ex := NewExecutor(caching.NewTargetResultCache(be), caching.NewTaintCache(be), output.NewRegistry(ctx, cas), g, false, false, true, config.LoadOutputsAll)
		cm, err := ex.Execute(ctx)
		if err != nil || len(cm.GetErrors()) > 0 {
			t.Fatalf("build failed: %v %v", err, cm.GetErrors())
		}
		data, _ := os.ReadFile(runs)
		return len(data) / 2
	}
	if n := build(); n != 1 {
		t.Fatalf("first build executed the command %d times, want 1", n)
	}
	if n := build(); n != 1 {
		t.Fatalf("no-op rebuild executed the command again (%d executions)", n)
	}
	// the checked external condition is destroyed: the check fails now
	os.Remove(marker)
	if n := build(); n != 2 {
		t.Fatalf("the output check fails, but the target was served from the cache (%d executions, want 2): the tool is not (re)installed", n)
	}
	if _, err := os.Stat(marker); err != nil {
		t.Fatalf("after a successful build the checked condition must hold again: %v", err)
	}
}
