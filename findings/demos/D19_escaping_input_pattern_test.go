// dest: internal/analysis
// run: TestD19
// fixed: passes on the repaired tree, fails on the tree before the fix (GROG_REPO=<old checkout> tools/demo.sh ...)
package analysis

import (
	"strings"
	"testing"

	"go.uber.org/zap"
	"go.uber.org/zap/zapcore"

	"grog/internal/config"
	"grog/internal/console"
	"grog/internal/label"
	"grog/internal/model"
)

// An input pattern that escapes its package must be rejected like a literal input that does; the glob
// resolves to nothing (io/fs does not allow ".."), so the resolved input list never shows it.
func TestD19EscapingInputPatternIsRejected(t *testing.T) {
	target := &model.Target{
		Label:            label.TL("app", "bundle"),
		Command:          "cat ../lib/*.txt > out.txt",
		UnresolvedInputs: []string{"../lib/*.txt", "src/**/*.go"},
		Inputs:           []string{"src/main.go"}, // what the loader resolves: the escaping glob matched nothing
		Outputs:          []model.Output{model.NewOutput("file", "out.txt")},
	}
	old := config.Global
	defer func() { config.Global = old }()
	config.Global = config.WorkspaceConfig{WorkspaceRoot: t.TempDir()}
	errs := CheckTargetConstraints(console.NewFromSugared(zap.NewNop().Sugar(), zapcore.InfoLevel), model.BuildNodeMapFromNodes(target))
	found := false
	for _, err := range errs {
		if strings.Contains(err.Error(), "../lib/*.txt") {
			found = true
		}
	}
	if !found {
		t.Fatalf("a target whose input pattern ../lib/*.txt escapes its package was accepted (errors: %v)", errs)
	}
	t.Logf("rejected: %v", errs)
}
