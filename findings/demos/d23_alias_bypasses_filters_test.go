// dest: internal/selection
// run: TestD23AliasBypassesSelectionFilters
// known finding (C12): FAILS on the real code — an alias matched by the pattern is selected without looking at
// the tag / exclude-tag / test filters, and the dependency closure then selects (and the build executes) the
// target behind it although that target does not pass the filter.
package selection

import (
	"testing"

	"grog/internal/analysis"
	"grog/internal/label"
	"grog/internal/model"
)

func TestD23AliasBypassesSelectionFilters(t *testing.T) {
	build := func() (*model.Target, *model.Target, []model.BuildNode) {
		slow := &model.Target{Label: label.TL("pkg", "integration"), Command: "true", Tags: []string{"slow"}}
		fast := &model.Target{Label: label.TL("pkg", "unit"), Command: "true", Tags: []string{"fast"}}
		alias := &model.Alias{Label: label.TL("pkg", "all_checks"), Actual: slow.Label}
		return slow, fast, []model.BuildNode{slow, fast, alias}
	}
	pattern, err := label.ParseTargetPattern("", "//...")
	if err != nil {
		t.Fatal(err)
	}
	for _, tc := range []struct {
		name     string
		selector *Selector
	}{
		{"--tag=fast //...", New([]label.TargetPattern{pattern}, []string{"fast"}, nil, AllTargets)},
		{"--exclude-tag=slow //...", New([]label.TargetPattern{pattern}, nil, []string{"slow"}, AllTargets)},
	} {
		slow, fast, nodes := build()
		graph, err := analysis.BuildGraph(model.BuildNodeMapFromNodes(nodes...))
		if err != nil {
			t.Fatal(err)
		}
		if _, _, err := tc.selector.SelectTargetsForBuild(graph); err != nil {
			t.Fatal(err)
		}
		if !fast.GetIsSelected() {
			t.Errorf("%s: //pkg:unit (tag fast) is not selected", tc.name)
		}
		if slow.GetIsSelected() {
			t.Errorf("%s: //pkg:integration (tag slow) is selected and would be executed: the alias //pkg:all_checks matched the pattern and pulled it in, although the target itself does not pass the tag filter", tc.name)
		}
	}
}
