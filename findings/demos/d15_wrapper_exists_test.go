// dest: internal/caching/backends
// run: TestVerifKnownFindingLocalOnlyExists
//
// Known finding D15 (C08): RemoteWrapper.Exists answers true on a local hit without
// asking the remote. Cas.Write skips the upload when Exists is true, so a blob that
// is only in the local tier is never written to the remote, while the target result
// referencing it is: another machine finds a dangling reference.
// TestRemoteWrapper_Exists/exists_locally pins this behaviour, so it cannot be
// repaired with the existing suite unedited.
package backends

import (
	"bytes"
	"context"
	"io"
	"sync"
	"testing"

	"grog/internal/config"
)

type memBackend struct {
	mu   sync.Mutex
	data map[string][]byte
}

func (m *memBackend) TypeName() string { return "mem" }
func (m *memBackend) Get(ctx context.Context, p, k string) (io.ReadCloser, error) {
	m.mu.Lock()
	defer m.mu.Unlock()
	if b, ok := m.data[p+"/"+k]; ok {
		return io.NopCloser(bytes.NewReader(b)), nil
	}
	return nil, io.ErrUnexpectedEOF
}
func (m *memBackend) Set(ctx context.Context, p, k string, c io.Reader) error {
	b, _ := io.ReadAll(c)
	m.mu.Lock()
	defer m.mu.Unlock()
	m.data[p+"/"+k] = b
	return nil
}
func (m *memBackend) Delete(ctx context.Context, p, k string) error { return nil }
func (m *memBackend) Exists(ctx context.Context, p, k string) (bool, error) {
	m.mu.Lock()
	defer m.mu.Unlock()
	_, ok := m.data[p+"/"+k]
	return ok, nil
}

func TestVerifKnownFindingLocalOnlyExists(t *testing.T) {
	ctx := context.Background()
	root := t.TempDir()
	config.Global = config.WorkspaceConfig{Root: root, WorkspaceRoot: root}
	fs, err := NewFileSystemCache(ctx)
	if err != nil {
		t.Fatal(err)
	}
	remote := &memBackend{data: map[string][]byte{}}
	// the blob is in the local cache from an earlier build without a remote
	if err := fs.Set(ctx, "cas", "digest1", bytes.NewReader([]byte("blob"))); err != nil {
		t.Fatal(err)
	}
	w := NewRemoteWrapper(fs, remote)
	exists, err := w.Exists(ctx, "cas", "digest1")
	if err != nil {
		t.Fatal(err)
	}
	// what Cas.Write does: skip the write when the digest "exists"
	if !exists {
		if err := w.Set(ctx, "cas", "digest1", bytes.NewReader([]byte("blob"))); err != nil {
			t.Fatal(err)
		}
	}
	if ok, _ := remote.Exists(ctx, "cas", "digest1"); !ok {
		t.Fatalf("the wrapper reports the blob as existing (%v) so its upload is skipped, but the remote does not have it: a result referencing it dangles for every other machine", exists)
	}
}
