// dest: internal/dag
// run: TestVerifDemoTransitiveQueriesVisitEachNodeOnce
//
// D11 (C19/C20): GetDescendants and GetAncestors recurse without a visited set:
// on diamond-shaped graphs they walk every path (exponential) and return a node
// once per path, so `deps -t` / `rdeps -t` print duplicate labels and failure
// propagation in the walker takes time proportional to the number of paths.
package dag

import (
	"fmt"
	"testing"
	"time"

	"grog/internal/label"
	"grog/internal/model"
)

func ladder(t *testing.T, layers int) (*DirectedTargetGraph, model.BuildNode, model.BuildNode) {
	g := NewDirectedGraph()
	var prev []model.BuildNode
	var first, last model.BuildNode
	for l := 0; l < layers; l++ {
		var cur []model.BuildNode
		for i := 0; i < 2; i++ {
			n := &model.Target{Label: label.TL("p", fmt.Sprintf("l%02d_%d", l, i))}
			g.AddNode(n)
			cur = append(cur, n)
			for _, p := range prev {
				if err := g.AddEdge(p, n); err != nil {
					t.Fatal(err)
				}
			}
		}
		if l == 0 {
			first = cur[0]
		}
		last = cur[0]
		prev = cur
	}
	return g, first, last
}

func TestVerifDemoTransitiveQueriesVisitEachNodeOnce(t *testing.T) {
	// small diamond: each label once
	g, first, last := ladder(t, 4)
	desc := g.GetDescendants(first)
	seen := map[string]int{}
	for _, n := range desc {
		seen[n.GetLabel().String()]++
	}
	for l, c := range seen {
		if c > 1 {
			t.Errorf("GetDescendants lists %s %d times (once per path)", l, c)
		}
	}
	if len(seen) != 6 {
		t.Errorf("expected 6 distinct descendants, got %d", len(seen))
	}
	anc := g.GetAncestors(last)
	seenA := map[string]int{}
	for _, n := range anc {
		seenA[n.GetLabel().String()]++
	}
	for l, c := range seenA {
		if c > 1 {
			t.Errorf("GetAncestors lists %s %d times (once per path)", l, c)
		}
	}
	// deep ladder: must finish quickly
	g2, first2, _ := ladder(t, 26)
	done := make(chan int, 1)
	go func() { done <- len(g2.GetDescendants(first2)) }()
	select {
	case n := <-done:
		if n != 50 {
			t.Errorf("expected 50 descendants in a 26x2 ladder, got %d", n)
		}
	case <-time.After(10 * time.Second):
		t.Fatal("GetDescendants on a 26-layer ladder (52 nodes) did not finish within 10s: it enumerates all 2^25 paths")
	}
}
