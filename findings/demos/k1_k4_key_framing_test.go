// dest: internal/hashing
// run: TestVerifKnownFindingKeyFraming
//
// Known findings K1-K4 (C09, C01): the cache key is the hash of a byte stream
// whose components are written back-to-back or joined with separators the
// components may contain, so different target states produce the same stream.
// Each sub-test FAILS on the current code (that is the finding). K4 cannot be
// repaired with the test-suite unedited: TestHashFiles pins digests of exactly
// this encoding; K1-K3 would change every existing cache key.
package hashing

import (
	"os"
	"path/filepath"
	"testing"

	"grog/internal/label"
	"grog/internal/model"
)

func TestVerifKnownFindingKeyFraming(t *testing.T) {
	h := func(tg model.Target) string {
		s, err := hashTargetDefinition(tg, nil)
		if err != nil {
			t.Fatal(err)
		}
		return s
	}
	t.Run("K1_label_command_boundary", func(t *testing.T) {
		a := model.Target{Label: label.TL("a", "b"), Command: "cX"}
		b := model.Target{Label: label.TL("a", "bc"), Command: "X"}
		if h(a) == h(b) {
			t.Fatalf("%s running %q and %s running %q have the same definition hash", a.Label, a.Command, b.Label, b.Command)
		}
	})
	t.Run("K2_list_separator", func(t *testing.T) {
		a := model.Target{Label: label.TL("a", "b"), Inputs: []string{"x,y"}}
		b := model.Target{Label: label.TL("a", "b"), Inputs: []string{"x", "y"}}
		if h(a) == h(b) {
			t.Fatalf("inputs %q and %q have the same definition hash", a.Inputs, b.Inputs)
		}
	})
	t.Run("K3_fingerprint_key_value_boundary", func(t *testing.T) {
		a := model.Target{Label: label.TL("a", "b"), Fingerprint: map[string]string{"k": "v=w"}}
		b := model.Target{Label: label.TL("a", "b"), Fingerprint: map[string]string{"k=v": "w"}}
		if h(a) == h(b) {
			t.Fatalf("fingerprints %v and %v have the same definition hash", a.Fingerprint, b.Fingerprint)
		}
	})
	t.Run("K4_bytes_moving_between_adjacent_files", func(t *testing.T) {
		dir := t.TempDir()
		write := func(n, c string) { os.WriteFile(filepath.Join(dir, n), []byte(c), 0644) }
		write("a.txt", "hello ")
		write("b.txt", "world")
		h1, _ := HashFiles(dir, []string{"a.txt", "b.txt"})
		write("a.txt", "hello wor")
		write("b.txt", "ld")
		h2, _ := HashFiles(dir, []string{"a.txt", "b.txt"})
		if h1 == h2 {
			t.Fatalf("moving bytes from the start of b.txt to the end of a.txt does not change the input hash (%s)", h1)
		}
	})
}
