// dest: internal/dag
// run: TestVerifDemoWalkerRegistrationRace
//
// D1 (C04): Walker.Walk registers nodes in the same loop that already spawns and
// starts node routines. With a zero-latency callback a root completes while later
// nodes are still being registered: either the unsynchronised map is read and
// written concurrently (fatal error: concurrent map read and map write) or the
// dependant is not registered yet, its ready signal is dropped and Walk never returns.
package dag

import (
	"context"
	"fmt"
	"testing"
	"time"

	"grog/internal/label"
	"grog/internal/model"
)

func TestVerifDemoWalkerRegistrationRace(t *testing.T) {
	for round := 0; round < 200; round++ {
		g := NewDirectedGraph()
		var nodes []*model.Target
		for i := 0; i < 200; i++ {
			n := &model.Target{Label: label.TL("p", fmt.Sprintf("t%03d", i)), IsSelected: true}
			nodes = append(nodes, n)
			g.AddNode(n)
		}
		// every odd node depends on the preceding even node
		for i := 1; i < len(nodes); i += 2 {
			if err := g.AddEdge(nodes[i-1], nodes[i]); err != nil {
				t.Fatal(err)
			}
		}
		w := NewWalker(g, func(ctx context.Context, node model.BuildNode) (CacheResult, error) { return CacheHit, nil }, false)
		done := make(chan struct{})
		var cm CompletionMap
		go func() { cm, _ = w.Walk(context.Background()); close(done) }()
		select {
		case <-done:
			if len(cm) != len(nodes) {
				t.Fatalf("round %d: %d of %d nodes completed", round, len(cm), len(nodes))
			}
		case <-time.After(5 * time.Second):
			t.Fatalf("round %d: Walk did not return within 5s: a ready signal was lost (dependant not registered when its dependency completed)", round)
		}
	}
}
