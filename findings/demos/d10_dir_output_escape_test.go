// dest: internal/analysis
// run: TestVerifDemoDirOutputEscapingWorkspaceIsRejected
//
// D10 (C11): checkOutputsAreWithinRepository only looks at outputs of kind `file`.
// A directory output such as `dir::../../outside` is accepted, although restoring
// it would os.RemoveAll and recreate a directory outside the workspace.
package analysis

import (
	"strings"
	"testing"

	"grog/internal/config"
	"grog/internal/console"
	"grog/internal/label"
	"grog/internal/model"
)

func TestVerifDemoDirOutputEscapingWorkspaceIsRejected(t *testing.T) {
	config.Global.WorkspaceRoot = "/workspace"
	target := &model.Target{
		Label:   label.TL("pkg", "gen"),
		Command: "true",
		Inputs:  []string{"a.txt"},
		Outputs: []model.Output{model.NewOutput("dir", "../../outside")},
	}
	nodes := model.BuildNodeMapFromNodes(target)
	errs := CheckTargetConstraints(console.GetLogger(t.Context()), nodes)
	found := false
	for _, e := range errs {
		if strings.Contains(e.Error(), "outside the repository") {
			found = true
		}
	}
	if !found {
		t.Fatalf("a directory output escaping the workspace was accepted (errors: %v)", errs)
	}
	// control: a directory output inside the workspace is fine
	target.Outputs = []model.Output{model.NewOutput("dir", "../other/dist")}
	if errs := CheckTargetConstraints(console.GetLogger(t.Context()), nodes); len(errs) != 0 {
		t.Fatalf("a directory output inside the workspace was rejected: %v", errs)
	}
}
