// dest: internal/execution
// run: TestD20
// fixed: passes on the repaired tree, fails on the tree before the fix (GROG_REPO=<old checkout> tools/demo.sh ...)
package execution

import (
	"context"
	"fmt"
	"os"
	"path/filepath"
	"strings"
	"testing"
	"time"

	"grog/internal/analysis"
	"grog/internal/caching"
	"grog/internal/caching/backends"
	"grog/internal/config"
	"grog/internal/label"
	"grog/internal/model"
	"grog/internal/output"
)

// History: build (cache on), build with --enable-cache=false, build (cache on, nothing changed).
// The third build must execute nothing: the cache still holds the successful results of the first.
func TestD20DisabledCacheBuildLeavesTheCacheAlone(t *testing.T) {
	tmp := t.TempDir()
	ws := filepath.Join(tmp, "ws")
	if err := os.MkdirAll(filepath.Join(ws, "pkg"), 0755); err != nil {
		t.Fatal(err)
	}
	if err := os.WriteFile(filepath.Join(ws, "pkg", "in.txt"), []byte("v1\n"), 0644); err != nil {
		t.Fatal(err)
	}
	oldConfig := config.Global
	defer func() { config.Global = oldConfig }()
	journal := filepath.Join(tmp, "journal.txt")
	build := func(enableCache bool, mode config.LoadOutputsMode) []string {
		config.Global = config.WorkspaceConfig{
			Root: filepath.Join(tmp, "grogroot"), WorkspaceRoot: ws, NumWorkers: 2,
			LoadOutputs: string(mode), EnableCache: enableCache, LogLevel: "error", OS: "linux", Arch: "amd64",
			DisableNonDeterministicLogging: true,
		}
		os.Remove(journal)
		command := func(name, in, out string) string {
			return fmt.Sprintf("echo \"run %s\" >> %s\ncat %s > %s\n", name, journal, in, out)
		}
		lib := &model.Target{Label: label.TL("pkg", "lib"), Command: command("lib", "in.txt", "lib.txt"),
			Inputs: []string{"in.txt"}, Outputs: []model.Output{model.NewOutput("file", "lib.txt")}}
		app := &model.Target{Label: label.TL("pkg", "app"), Command: command("app", "lib.txt", "app.txt"),
			Outputs: []model.Output{model.NewOutput("file", "app.txt")}, Dependencies: []label.TargetLabel{lib.Label}}
		graph, err := analysis.BuildGraph(model.BuildNodeMapFromNodes(lib, app))
		if err != nil {
			t.Fatal(err)
		}
		for _, node := range graph.GetNodes() {
			node.Select()
		}
		ctx, cancel := context.WithTimeout(context.Background(), 60*time.Second)
		defer cancel()
		cache, err := backends.GetCacheBackend(ctx, config.Global.Cache)
		if err != nil {
			t.Fatal(err)
		}
		executor := NewExecutor(caching.NewTargetResultCache(cache), caching.NewTaintCache(cache),
			output.NewRegistry(ctx, caching.NewCas(cache)), graph, false, false, enableCache, mode)
		completions, err := executor.Execute(ctx)
		if err != nil {
			t.Fatalf("build failed: %v", err)
		}
		for l, c := range completions {
			if !c.IsSuccess {
				t.Fatalf("target %s failed: %v", l, c.Err)
			}
		}
		jb, _ := os.ReadFile(journal)
		var runs []string
		for _, line := range strings.Split(strings.TrimSpace(string(jb)), "\n") {
			if line != "" {
				runs = append(runs, strings.TrimPrefix(line, "run "))
			}
		}
		return runs
	}
	for _, mode := range []config.LoadOutputsMode{config.LoadOutputsAll, config.LoadOutputsMinimal} {
		os.RemoveAll(filepath.Join(tmp, "grogroot"))
		if runs := build(true, mode); len(runs) != 2 {
			t.Fatalf("%s: first build executed %v, want lib and app", mode, runs)
		}
		if runs := build(false, mode); len(runs) != 2 {
			t.Fatalf("%s: build with the cache disabled executed %v, want lib and app exactly once each", mode, runs)
		}
		if runs := build(true, mode); len(runs) != 0 {
			t.Errorf("%s: no-op rebuild after a build with the cache disabled executed %v, want nothing", mode, runs)
		}
	}
}
