// dest: internal/execution
// run: TestVerifDemoTaintIsConsumedWhenTheBuildReturns
//
// D18 (C13): executeTarget removes the taint of a successfully re-executed target in a detached
// goroutine (`go func() { e.taintCache.Clear(...) }()`). Nothing waits for it: when the build returns
// (and the process exits) the removal may not have happened, so "the taint is consumed by that
// successful execution" depends on the scheduler and on the latency of the cache backend. Here the
// backend's Delete takes 3 s (a remote store): right after Execute returned the target is still tainted.
package execution

import (
	"context"
	"io"
	"os"
	"path/filepath"
	"testing"
	"time"

	"github.com/spf13/viper"

	"grog/internal/caching"
	"grog/internal/caching/backends"
	"grog/internal/config"
	"grog/internal/dag"
	"grog/internal/label"
	"grog/internal/model"
	"grog/internal/output"
)

type slowDeleteBackend struct{ backends.CacheBackend }

func (s slowDeleteBackend) Delete(ctx context.Context, path, key string) error {
	time.Sleep(3 * time.Second)
	return s.CacheBackend.Delete(ctx, path, key)
}
func (s slowDeleteBackend) Get(ctx context.Context, path, key string) (io.ReadCloser, error) {
	return s.CacheBackend.Get(ctx, path, key)
}

func TestVerifDemoTaintIsConsumedWhenTheBuildReturns(t *testing.T) {
	root := t.TempDir()
	ws := filepath.Join(root, "ws")
	os.MkdirAll(filepath.Join(ws, "pkg"), 0755)
	original := config.Global
	t.Cleanup(func() { config.Global = original })
	viper.Set("disable_tea", true)
	t.Cleanup(func() { viper.Set("disable_tea", false) })
	config.Global = config.WorkspaceConfig{Root: filepath.Join(root, "grogroot"), WorkspaceRoot: ws, NumWorkers: 2, EnableCache: true, LoadOutputs: "all", LogLevel: "error", OS: "linux", Arch: "amd64", HashAlgorithm: config.HashAlgorithmXXH3, DisableProgressTracker: true}
	ctx := context.Background()
	fs, err := backends.NewFileSystemCache(ctx)
	if err != nil {
		t.Fatal(err)
	}
	be := slowDeleteBackend{fs}
	taints := caching.NewTaintCache(be)
	build := func() {
		a := &model.Target{Label: label.TL("pkg", "a"), Command: "echo A > a.out", Outputs: []model.Output{model.NewOutput("file", "a.out")}, IsSelected: true}
		g := dag.NewDirectedGraphFromTargets(a)
		ex := NewExecutor(caching.NewTargetResultCache(be), taints, output.NewRegistry(ctx, caching.NewCas(be)), g, false, false, true, config.LoadOutputsAll)
		cm, err := ex.Execute(ctx)
		if err != nil || len(cm.GetErrors()) > 0 {
			t.Fatalf("build failed: %v %v", err, cm.GetErrors())
		}
	}
	build()
	if err := taints.Taint(ctx, label.TL("pkg", "a")); err != nil {
		t.Fatal(err)
	}
	build() // executes the tainted target successfully
	// the build has returned: `grog build` would now print its summary and exit
	tainted, err := taints.IsTainted(ctx, label.TL("pkg", "a"))
	if err != nil {
		t.Fatal(err)
	}
	if tainted {
		t.Fatalf("the build that successfully re-executed the tainted target has returned, but the taint is still there: the removal runs in a goroutine nobody waits for, so a process that exits now re-executes the target again next time")
	}
}
