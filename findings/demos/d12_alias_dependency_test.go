// dest: internal/execution
// run: TestVerifDemoChangeReachingTargetThroughAlias
//
// D12 (C01/C15): a dependency that goes through an alias contributes nothing to the
// dependant's change hash (SetTargetChangeHash skips non-target nodes) and is not
// returned by GetTargetDependencies. A change in the aliased target's output is
// therefore not seen by the dependant: it is served a stale cached result.
package execution

import (
	"context"
	"os"
	"path/filepath"
	"strings"
	"testing"

	"github.com/spf13/viper"

	"grog/internal/caching"
	"grog/internal/caching/backends"
	"grog/internal/config"
	"grog/internal/dag"
	"grog/internal/label"
	"grog/internal/model"
	"grog/internal/output"
)

func TestVerifDemoChangeReachingTargetThroughAlias(t *testing.T) {
	root := t.TempDir()
	ws := filepath.Join(root, "ws")
	os.MkdirAll(filepath.Join(ws, "pkg"), 0755)
	original := config.Global
	t.Cleanup(func() { config.Global = original })
	viper.Set("disable_tea", true)
	t.Cleanup(func() { viper.Set("disable_tea", false) })
	config.Global = config.WorkspaceConfig{Root: filepath.Join(root, "grogroot"), WorkspaceRoot: ws, NumWorkers: 2, EnableCache: true, LoadOutputs: "all", LogLevel: "error", OS: "linux", Arch: "amd64", HashAlgorithm: config.HashAlgorithmXXH3, DisableProgressTracker: true}
	ctx := context.Background()
	write := func(name, content string) {
		if err := os.WriteFile(filepath.Join(ws, "pkg", name), []byte(content), 0644); err != nil {
			t.Fatal(err)
		}
	}
	build := func() {
		lib := &model.Target{Label: label.TL("pkg", "lib"), Command: "cat lib.in > lib.out", Inputs: []string{"lib.in"}, Outputs: []model.Output{model.NewOutput("file", "lib.out")}, IsSelected: true}
		alias := &model.Alias{Label: label.TL("pkg", "lib_alias"), Actual: lib.Label, IsSelected: true}
		app := &model.Target{Label: label.TL("pkg", "app"), Command: "cat lib.out > app.out", Outputs: []model.Output{model.NewOutput("file", "app.out")}, Dependencies: []label.TargetLabel{alias.Label}, IsSelected: true}
		g := dag.NewDirectedGraphFromTargets(lib, alias, app)
		if err := g.AddEdge(lib, alias); err != nil {
			t.Fatal(err)
		}
		if err := g.AddEdge(alias, app); err != nil {
			t.Fatal(err)
		}
		be, err := backends.NewFileSystemCache(ctx)
		if err != nil {
			t.Fatal(err)
		}
		ex := NewExecutor(caching.NewTargetResultCache(be), caching.NewTaintCache(be), output.NewRegistry(ctx, caching.NewCas(be)), g, false, false, true, config.LoadOutputsAll)
		cm, err := ex.Execute(ctx)
		if err != nil || len(cm.GetErrors()) > 0 {
			t.Fatalf("build failed: %v %v", err, cm.GetErrors())
		}
	}
	write("lib.in", "version 1\n")
	build()
	write("lib.in", "version 2\n")
	build()
	got, _ := os.ReadFile(filepath.Join(ws, "pkg", "app.out"))
	if strings.TrimSpace(string(got)) != "version 2" {
		t.Fatalf("app.out = %q after the aliased dependency changed to version 2: the dependant was served a stale cached result (a from-scratch build produces \"version 2\")", strings.TrimSpace(string(got)))
	}
}
