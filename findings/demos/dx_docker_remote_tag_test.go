// dest: internal/output/handlers
// run: TestVerifKnownFindingDockerRemoteTagDependsOnCheckoutPath
//
// Known finding (C02/C09, found by the purity rule): in docker registry mode the
// output record contains RemoteTag = <registry>/<sha256(absolute workspace path)[:16]>-<dir name>-<image digest>,
// and the target's output hash is computed over the marshalled record. The output
// hash of a docker (registry) output therefore depends on where the workspace is
// checked out, and so do the change hashes of all its dependants.
package handlers

import (
	"testing"

	"grog/internal/config"
)

func TestVerifKnownFindingDockerRemoteTagDependsOnCheckoutPath(t *testing.T) {
	h := &DockerRegistryOutputHandler{config: config.DockerConfig{Registry: "registry.example.com/cache"}}
	config.Global.WorkspaceRoot = "/home/alice/src/repo"
	a := h.cacheImageName("sha256:0123456789abcdef")
	config.Global.WorkspaceRoot = "/builds/ci/repo"
	b := h.cacheImageName("sha256:0123456789abcdef")
	if a != b {
		t.Fatalf("the remote tag that is stored in the hashed output record depends on the checkout location:\n  %s\n  %s", a, b)
	}
}
