// dest: internal/loading
// run: TestVerifDemoNullTargetEntryIsAnErrorNotAPanic
//
// D17 (C16): a BUILD.json / BUILD.yaml whose `targets` (or `aliases`) list contains a null entry
// decodes to a nil *TargetDTO; getEnrichedPackage dereferences it. "Any malformed or adversarial
// BUILD file yields an error message and a non-zero exit, never a panic."
package loading

import (
	"context"
	"os"
	"path/filepath"
	"testing"

	"grog/internal/console"
)

func TestVerifDemoNullTargetEntryIsAnErrorNotAPanic(t *testing.T) {
	for name, content := range map[string]string{
		"BUILD.json": `{"targets":[null]}`,
		"BUILD.yaml": "targets:\n  - null\n",
	} {
		t.Run(name, func(t *testing.T) {
			dir := t.TempDir()
			file := filepath.Join(dir, name)
			if err := os.WriteFile(file, []byte(content), 0644); err != nil {
				t.Fatal(err)
			}
			defer func() {
				if r := recover(); r != nil {
					t.Fatalf("loading %s panicked instead of returning an error: %v", name, r)
				}
			}()
			logger := console.GetLogger(context.Background())
			loader := NewPackageLoader(logger)
			dto, matched, err := loader.LoadIfMatched(context.Background(), file, name)
			if err != nil || !matched {
				return // rejected by the decoder: fine
			}
			if _, err := getEnrichedPackage(logger, "pkg", dto); err == nil {
				t.Fatalf("a null target entry was accepted without an error")
			}
		})
	}
}
