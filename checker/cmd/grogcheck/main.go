// grogcheck decides structural clauses of grog's semantic properties by static
// analysis of /repo's current working tree. See /verif/DESIGN.md.
package main

import (
	"encoding/json"
	"flag"
	"fmt"
	"os"
	"path/filepath"
	"runtime/debug"
	"sort"
	"strconv"
	"strings"
	"time"

	"golang.org/x/tools/go/ssa"

	"grogverif/engine"
	"grogverif/rules"
)

func usage() {
	fmt.Fprintln(os.Stderr, `usage:
  grogcheck check <ID> [-tier quick|thorough] [-repo /repo] [-verif /verif]
  grogcheck list
  grogcheck debug <what> [args]   (callees <func> | callers <func> | fwd <Type.Field> | bwd <func> <callee-name> | funcs | entry)`)
	os.Exit(2)
}

func main() {
	if len(os.Args) < 2 {
		usage()
	}
	switch os.Args[1] {
	case "list":
		for _, id := range rules.IDs() {
			fmt.Println(id)
		}
	case "check":
		os.Exit(runCheck(os.Args[2:]))
	case "variant":
		os.Exit(runVariant(os.Args[2:]))
	case "debug":
		runDebug(os.Args[2:])
	case "pin-funcs":
		// writes the identities of the declared functions of the given tree (the names the rules refer to)
		repo := "/repo"
		if len(os.Args) > 2 {
			repo = os.Args[2]
		}
		p, err := engine.Load(repo, nil)
		if err != nil {
			fmt.Fprintln(os.Stderr, err)
			os.Exit(2)
		}
		if len(os.Args) > 3 && os.Args[3] == "types" {
			b, _ := json.MarshalIndent(p.TopLevelTypes(), "", " ")
			fmt.Println(string(b))
			break
		}
		b, _ := json.MarshalIndent(p.TopLevelFuncs(), "", " ")
		fmt.Println(string(b))
	default:
		usage()
	}
}

func runCheck(args []string) (code int) {
	if len(args) < 1 {
		usage()
	}
	id := args[0]
	fs := flag.NewFlagSet("check", flag.ExitOnError)
	tier := fs.String("tier", envOr("VERIF_TIER", "quick"), "quick|thorough")
	repo := fs.String("repo", "/repo", "repository working tree")
	verif := fs.String("verif", "/verif", "verif directory")
	fs.Parse(args[1:])
	if *tier != "quick" && *tier != "thorough" {
		*tier = "quick"
	}
	seed, _ := strconv.ParseInt(os.Getenv("VERIF_SEED"), 10, 64)
	evidence := filepath.Join(*verif, "evidence", id+".json")
	_ = os.MkdirAll(filepath.Dir(evidence), 0755)
	_ = os.Remove(evidence)

	rule := rules.Get(id)
	if rule == nil {
		fmt.Fprintf(os.Stderr, "unknown property %s\n", id)
		return 2
	}
	defer func() {
		if r := recover(); r != nil {
			code = engine.FailIncomplete(id, *tier, seed, evidence, fmt.Errorf("panic in analysis: %v\n%s", r, debug.Stack()))
		}
	}()
	start := time.Now()
	p, err := engine.Load(*repo, nil)
	if err != nil {
		return engine.FailIncomplete(id, *tier, seed, evidence, err)
	}
	g := engine.BuildVFG(p)
	p.LoadWall = time.Since(start).Seconds()
	ff, err := engine.LoadFindings(filepath.Join(*verif, "known_findings.json"))
	if err != nil {
		return engine.FailIncomplete(id, *tier, seed, evidence, err)
	}
	c := engine.NewCheck(id, p, g)
	rule.Run(c, *tier)
	extra := map[string]any{}
	if *tier == "thorough" {
		os.Setenv("GROGCHECK_VERIF", *verif)
		rules.Thorough(c, id, extra)
	}
	return c.Finish(*tier, seed, evidence, ff, extra)
}

// runVariant analyses one in-memory variant of the repository (thorough tier child process).
func runVariant(args []string) int {
	if len(args) < 1 {
		usage()
	}
	id := args[0]
	fs := flag.NewFlagSet("variant", flag.ExitOnError)
	repo := fs.String("repo", "/repo", "repository working tree")
	mutFile := fs.String("mutant", "", "mutants.json")
	index := fs.Int("index", -1, "index into mutants.json")
	seed := fs.String("seed", "", "seed directory with patch.diff")
	fs.Parse(args[1:])
	overlay := map[string][]byte{}
	switch {
	case *seed != "":
		diff, err := os.ReadFile(filepath.Join(*seed, "patch.diff"))
		if err != nil {
			fmt.Println(`{"error":"no patch"}`)
			return 0
		}
		ov, err := rules.ApplyUnifiedDiff(*repo, diff)
		if err != nil {
			fmt.Printf("{\"error\":%q}\n", err.Error())
			return 0
		}
		overlay = ov
	case *mutFile != "":
		data, err := os.ReadFile(*mutFile)
		if err != nil {
			return 2
		}
		var muts []rules.Mutant
		if err := json.Unmarshal(data, &muts); err != nil || *index < 0 || *index >= len(muts) {
			return 2
		}
		m := muts[*index]
		src, err := os.ReadFile(filepath.Join(*repo, m.File))
		if err != nil || !strings.Contains(string(src), m.Old) {
			fmt.Println(`{"error":"anchor text not present"}`)
			return 0
		}
		overlay[filepath.Join(*repo, m.File)] = []byte(strings.Replace(string(src), m.Old, m.New, 1))
	}
	if rules.Get(id) == nil {
		return 2
	}
	return rules.RunVariant(*repo, id, overlay)
}

func envOr(k, d string) string {
	if v := os.Getenv(k); v != "" {
		return v
	}
	return d
}

func runDebug(args []string) {
	if len(args) < 1 {
		usage()
	}
	repo := envOr("GROG_REPO", "/repo")
	start := time.Now()
	p, err := engine.Load(repo, nil)
	if err != nil {
		fmt.Println(err)
		os.Exit(1)
	}
	t1 := time.Since(start)
	g := engine.BuildVFG(p)
	fmt.Fprintf(os.Stderr, "load %.1fs, vfg %.1fs, %d pkgs %d funcs %d sites %d edges\n", t1.Seconds(), (time.Since(start) - t1).Seconds(), len(p.Pkgs), len(p.Funcs), len(g.Sites), g.NumEdges)
	find := func(name string) []*ssa.Function {
		var out []*ssa.Function
		for _, fn := range p.Funcs {
			if p.FuncName(fn) == name || strings.HasSuffix(p.FuncName(fn), name) {
				out = append(out, fn)
			}
		}
		return out
	}
	switch args[0] {
	case "funcs":
		for _, fn := range p.Funcs {
			fmt.Println(p.FuncName(fn))
		}
	case "entry":
		for name := range g.CobraRunFuncs() {
			fmt.Println(name)
		}
	case "callees":
		for _, fn := range find(args[1]) {
			fmt.Println("==", p.FuncName(fn))
			for _, c := range engine.SitesIn(fn) {
				var names []string
				for _, f := range g.Callees[c] {
					names = append(names, p.FuncName(f))
				}
				for _, f := range g.ViaExternal[c] {
					names = append(names, "via-ext:"+p.FuncName(f))
				}
				fmt.Printf("  %s  %s -> %v\n", p.InstrPos(c), engine.CalleeName(c), names)
			}
		}
	case "callers":
		for _, fn := range find(args[1]) {
			fmt.Println("==", p.FuncName(fn))
			for _, c := range g.CallersOf(fn) {
				fmt.Printf("  %s in %s\n", p.InstrPos(c), p.FuncName(c.Parent()))
			}
		}
	case "fwd":
		parts := strings.SplitN(args[1], ":", 2)
		fk := engine.FieldKey{T: parts[0], F: parts[1]}
		r := g.Forward([]engine.Node{fk}, nil)
		var lines []string
		for n := range r.Parent {
			if c, ok := n.(*ssa.Call); ok {
				lines = append(lines, fmt.Sprintf("%s %s in %s", p.InstrPos(c), engine.CalleeName(c), p.FuncName(c.Parent())))
			}
			if f, ok := n.(engine.FieldKey); ok {
				lines = append(lines, "FIELD "+f.String())
			}
		}
		sort.Strings(lines)
		for _, l := range lines {
			fmt.Println(l)
		}
	case "ssa":
		for _, fn := range find(args[1]) {
			fn.WriteTo(os.Stdout)
		}
	}
}
