// Package rules holds one file per property; each registers the rules that
// decide structural necessary conditions of that property.
package rules

import (
	"sort"

	"grogverif/engine"
)

type Property struct {
	ID  string
	Run func(c *engine.Check, tier string)
}

var registry = map[string]*Property{}

func register(id string, run func(c *engine.Check, tier string)) {
	registry[id] = &Property{ID: id, Run: func(c *engine.Check, tier string) {
		resolveFieldAnchors(c)
		for _, n := range engine.CanonicalNotes {
			c.Note("renamed since the pinned tree — %s", n)
		}
		run(c, tier)
	}}
}

func Get(id string) *Property { return registry[id] }

func IDs() []string {
	var out []string
	for id := range registry {
		out = append(out, id)
	}
	sort.Strings(out)
	return out
}

// Thorough runs the extra work of the thorough tier (filled in by thorough.go).
var Thorough = func(c *engine.Check, id string, extra map[string]any) {}
