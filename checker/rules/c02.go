package rules

import (
	"fmt"
	"go/types"
	"sort"
	"strings"

	"golang.org/x/tools/go/ssa"

	"grogverif/engine"
)

func init() { register("C02", runC02) }

func runC02(c *Check, tier string) {
	c.Decides = "nothing location-, time-, host- or environment-dependent flows into any hasher; commands are reachable only through the executing method and the output-check runner, whose callers are the gate and the dependency re-run; after a successful restore the gate cannot fall through to execution; dependants key on their dependencies' output digests (not change hashes) and every target dependency contributes; a restore creates the parent directory of everything it creates; the result writer always stores (no shortcut on an existing entry); the identifier recorded for an output is the declared identifier verbatim (what the restore validation compares)."
	c.NotDec = "which keys actually change for a given edit, counts of executed commands per build, the reference model of the caching rules."
	ruleKeyPurity(c, "R02a")
	ruleR02b(c)
	ruleR02c(c, "R02c")
	ruleR02d(c, "R02d")
	ruleRecordCacheIndependent(c, "R02e")
	ruleResolverTotal(c, "R02f")
	ruleR02g(c, "R02g")
	ruleR02h(c, "R02h")
	// "the target's current state": everything the statement lists is key material on every path
	ruleR01a(c, "R02i")
	// "... or the target is tainted": a taint is removed only by a successful forced execution
	ruleR13b(c, analyseGate(c, "R02j"), "R02j")
	// "executes only if ...": the gate's conjuncts; "irretrievable outputs": the restore path
	ruleR02m(c)
	// an unchanged target keeps its key and its result stays usable
	ruleRecordListsFilledSequentially(c, "R02n")
	ruleRecordedOutputsComparedAsSets(c, "R02o")
	useFamily(c, "R02k", famGate, 8)
	useFamily(c, "R02l", famRestore, 20)
	// round 7: input contents are read for the key after the dependencies completed, and every time
	ruleKeyContentReadInsideCallback(c, "R02q")
	ruleNoContentMemo(c, "R02r", "hashing", "execution", "output")
	// the key of an unchanged target is the same in every process: no map-ordered write into the hasher
	shareRule(c, "R02p", "every unordered collection is sorted before it is written to a hasher (same obligations as R09a)", 7, "R09a", func(sub *Check) { ruleR09a(sub) }, nil)
}

// R02g: the result writer always stores (a no-op rebuild can only hit on what the last successful
// execution recorded; an existing entry under the key must be replaced, it may describe nothing).
func ruleR02g(c *Check, rule string) {
	c.Rule(rule, "TargetResultCache.Write returns nil only after the backend Set of the marshalled result (no shortcut on an existing entry: a record written with the cache disabled or for a no-cache target has no outputs and must be replaced)", 1)
	w := anchor(c, rule, "caching", "TargetResultCache", "Write")
	if w == nil {
		return
	}
	isSet := func(in ssa.Instruction) bool {
		cs, ok := in.(ssa.CallInstruction)
		if !ok {
			return false
		}
		cc := cs.Common()
		return cc.IsInvoke() && cc.Method.Name() == "Set" && engine.TypeKey(cc.Value.Type()) == "caching/backends.CacheBackend"
	}
	reach, at := engine.PathExists(w, nil, successReturn, engine.PathQuery{CutInstr: isSet})
	pos := c.P.Pos(w.Pos())
	if at != nil {
		pos = c.P.InstrPos(at)
	}
	c.Require(!reach, rule, "result-always-stored/"+c.P.FuncName(w), "every `return nil` of the result writer is preceded by the backend Set", "the result writer can report success without storing the result (e.g. because an entry already exists): a stale record — such as the output-less one written while the cache was disabled — is never replaced, so every later build misses on it and re-executes", pos)
}

// R02h: the identifier recorded for an output is the declared identifier, verbatim — the restore
// validation compares exactly these strings, so a canonicalised spelling never validates.
func ruleR02h(c *Check, rule string) {
	c.Rule(rule, "each record field that the cached-outputs validation reads back as the output's identifier (file path, directory path, docker local tag) is stored from model.Output.Identifier unchanged", 3)
	// the record fields read back: getters called by the function that rebuilds output definitions from a record
	var reader *ssa.Function
	for _, fn := range c.P.Funcs {
		if !engine.InPackage(fn, "output") || fn.Signature.Params().Len() != 1 || engine.TypeKey(fn.Signature.Params().At(0).Type()) != "proto/gen.Output" {
			continue
		}
		if fn.Signature.Results().Len() == 2 && fn.Signature.Results().At(0).Type().String() == "string" {
			reader = fn
		}
	}
	if reader == nil {
		c.Unknown(rule, "anchor/record-reader", "anchor-unresolved: no function in internal/output maps a *gen.Output record back to its output definition", "-")
		return
	}
	fields := map[engine.FieldKey]bool{}
	for _, s := range engine.SitesIn(reader) {
		cal := s.Common().StaticCallee()
		if cal == nil || !engine.InPackage(cal, "proto/gen") || !strings.HasPrefix(cal.Name(), "Get") || cal.Signature.Recv() == nil {
			continue
		}
		if cal.Signature.Results().Len() != 1 || cal.Signature.Results().At(0).Type().String() != "string" {
			continue
		}
		fields[engine.FieldKey{T: engine.TypeKey(cal.Signature.Recv().Type()), F: strings.TrimPrefix(cal.Name(), "Get")}] = true
	}
	if len(fields) == 0 {
		c.Unknown(rule, "anchor/record-identifier-fields", "anchor-unresolved: the record reader uses no string getters", "-")
		return
	}
	var keys []engine.FieldKey
	for k := range fields {
		keys = append(keys, k)
	}
	sort.Slice(keys, func(i, j int) bool { return keys[i].String() < keys[j].String() })
	for _, k := range keys {
		stores := storesToField(c, k)
		n := 0
		for _, st := range stores {
			if !engine.InPackage(st.Parent(), "output") {
				continue
			}
			n++
			ok := true
			orig := engine.Origins(st.Val)
			if len(orig) == 0 {
				ok = false
			}
			for _, o := range orig {
				base, isId := fieldReadOn(o, "Identifier")
				if o == nil || !isId || engine.TypeKey(base.Type()) != "model.Output" {
					ok = false
				}
			}
			c.Require(ok, rule, "record-identifier-verbatim/"+k.String()+"/"+c.P.FuncName(st.Parent()), "stored from model.Output.Identifier unchanged", "the identifier recorded in the cache entry is not the declared identifier itself (it is transformed or comes from elsewhere): the restore validation compares the strings and would reject every hit for spellings the transformation changes, re-executing the target on every build", c.P.InstrPos(st))
		}
		if n == 0 {
			c.Unknown(rule, "record-identifier-verbatim/"+k.String(), "no store into this record field found in the output handlers", "-")
		}
	}
}

// impureSources: values that depend on where/when/who runs the build.
func impureSources(c *Check) (nodes []Node, desc map[Node]string) {
	desc = map[Node]string{}
	add := func(n Node, d string) { nodes = append(nodes, n); desc[n] = d }
	add(fk("config.WorkspaceConfig", "WorkspaceRoot"), "absolute workspace root")
	add(fk("config.WorkspaceConfig", "Root"), "grog root directory")
	add(fk("model.Target", "SourceFilePath"), "absolute BUILD file path")
	add(fk("model.Alias", "SourceFilePath"), "absolute BUILD file path")
	add(fk("model.Target", "ExecutionTime"), "measured execution time")
	add(fk("model.Target", "CacheTime"), "measured cache time")
	if f := c.P.Func("config", "", "GetPathAbsoluteToWorkspaceRoot"); f != nil {
		add(engine.RetKey{Fn: f, I: 0}, "absolute path (GetPathAbsoluteToWorkspaceRoot)")
	}
	if f := c.P.Func("config", "WorkspaceConfig", "GetWorkspaceCacheDirectory"); f != nil {
		add(engine.RetKey{Fn: f, I: 0}, "absolute cache directory")
	}
	ext := map[string]string{
		"path/filepath.Abs": "absolute path (filepath.Abs)", "os.Getwd": "working directory", "os.Hostname": "host name",
		"os.Getpid": "process id", "os.Environ": "process environment", "os.Getenv": "environment variable", "os.LookupEnv": "environment variable",
		"time.Now": "current time", "time.Since": "elapsed time", "os.UserHomeDir": "home directory", "os.TempDir": "temp directory",
		"os.Executable": "executable path", "math/rand.Int": "random number", "(time.Time).Unix": "current time", "(time.Time).UnixNano": "current time",
	}
	for _, s := range c.G.Sites {
		if d, ok := ext[engine.CalleeName(s)]; ok {
			if v := s.Value(); v != nil {
				add(v, d)
			}
		}
	}
	return
}

// ruleKeyPurity: no impure source reaches a hasher (shared by C02 and C09).
func ruleKeyPurity(c *Check, rule string) {
	c.Rule(rule, "no absolute path, time, host, process or environment datum flows (value-flow graph; os.Open/ReadDir/Stat/Readlink of a path yield content, not the path) into any value written to a hashing.Hasher", 8)
	sinks := hasherSinks(c)
	if len(sinks) == 0 {
		c.Unknown(rule, "anchor/hasher-sinks", "anchor-unresolved: no writes into a hashing.Hasher found", "-")
		return
	}
	srcs, desc := impureSources(c)
	// the hash-composing functions: everything reachable from the functions that assign
	// Target.ChangeHash, from the registry's output writers/hashers and from handler Hash/Write.
	// Flows are followed inside this set only (values entering it from outside are the
	// target definition and are covered by the loaders' own rules).
	h := c.P.Type("output/handlers", "Handler")
	roots := append([]*ssa.Function{}, writersOfField(c, changeHashKey)...)
	roots = append(roots, methodImpls(c, h, "Hash")...)
	roots = append(roots, methodImpls(c, h, "Write")...)
	for _, n := range []string{"WriteOutputs", "GetNoCacheOutputHash"} {
		if f := c.P.Func("output", "Registry", n); f != nil {
			roots = append(roots, f)
		}
	}
	composing := c.G.ReachableFuncs(roots, nil)
	c.Note("%s: %d hash-composing functions, %d hasher inputs, %d impure source nodes", rule, len(composing), len(sinks), len(srcs))
	filter := func(e *engine.Edge) bool {
		if e.Via == nil || !composing[e.Via.Parent()] {
			return false
		}
		if isContentEdge(e) {
			return false
		}
		if call, ok := e.Via.(ssa.CallInstruction); ok && (e.Kind == engine.EExtArg) {
			switch engine.CalleeName(call) {
			case "path/filepath.Base", "path/filepath.Rel", "path/filepath.Ext", "path.Base":
				return false // the location-independent part of a path
			}
		}
		// contexts carry cancellation, not key material
		if isContextNode(e.From) || isContextNode(e.To) {
			return false
		}
		// alias back-edges only matter for containers a callee fills (slices, maps, channels)
		if e.Kind == engine.EAlias {
			if v, ok := e.To.(ssa.Value); ok {
				switch v.Type().Underlying().(type) {
				case *types.Slice, *types.Map, *types.Chan:
				default:
					return false
				}
			}
		}
		if call, ok := e.Via.(ssa.CallInstruction); ok && (e.Kind == engine.EExtArg || e.Kind == engine.EExtWrite) {
			if isLogOrErrCall(engine.CalleeName(call)) {
				return false
			}
		}
		// errors are never key material
		if rk, ok := e.To.(engine.RetKey); ok {
			if engine.ErrResultIndex(rk.Fn.Signature) == rk.I {
				return false
			}
			// a digest is reported where its input entered the hasher, not again downstream
			if engine.InPackage(rk.Fn, "hashing") {
				return false
			}
		}
		// do not mix unrelated hashers through the shared implementation methods
		if engine.InPackage(e.Via.Parent(), "hashing") && e.Via.Parent().Signature.Recv() != nil {
			return false
		}
		if call, ok := e.Via.(ssa.CallInstruction); ok && call.Common().IsInvoke() && call.Common().Method.Name() == "SumString" {
			return false
		}
		if e.Kind == engine.EAlias {
			return false
		}
		return true
	}
	reach := c.G.Forward(srcs, filter)
	sinks = expandWrapperSinks(c, sinks)
	for _, s := range sinks {
		key := "hasher-input-pure/" + siteKey(c, s.Call)
		if reach.Has(s.Val) {
			path := c.G.Path(reach, s.Val, 10)
			first := ""
			// find the source at the root of the path
			n := Node(s.Val)
			for i := 0; i < 500; i++ {
				e := reach.Parent[n]
				if e == nil {
					break
				}
				n = e.From
			}
			first = desc[n]
			c.Bad(rule, key, fmt.Sprintf("%s flows into the hash: the key would depend on where/when the build runs. Path: %s", first, strings.Join(path, " ; ")), c.P.InstrPos(s.Call))
		} else {
			c.OK(rule, key, "no location/time/host/environment datum reaches this hasher input ("+s.How+")", c.P.InstrPos(s.Call))
		}
	}
}

func ruleR02b(c *Check) {
	c.Rule("R02b", "exec.Command* sites in internal/execution are only in the command runner; the executing method is called only from the gate and from the dependency re-run closure; in the gate execution is unreachable after a successful restore and a hit is returned after a restore only if it succeeded", 4)
	g := analyseGate(c, "R02b")
	if g == nil {
		return
	}
	ex := g.Ex
	var bad []string
	for _, s := range c.G.CallsTo("os/exec.CommandContext", "os/exec.Command") {
		// the runner or a private helper of it (the construction of the exec.Cmd extracted)
		if top := engine.TopFunc(s.Parent()); engine.InPackage(s.Parent(), "execution") && top != ex.RunCommand {
			runnerRegion := regionOf(c, ex.RunCommand)
			private := runnerRegion[top]
			for _, cf := range c.G.CallerFuncs(top) {
				if !runnerRegion[engine.TopFunc(cf)] {
					private = false // somebody else can start commands through the helper
				}
			}
			if !private {
				bad = append(bad, c.P.FuncName(s.Parent()))
			}
		}
	}
	c.Require(len(bad) == 0, "R02b", "single-command-runner", "the only exec.Command* in internal/execution is in "+c.P.FuncName(ex.RunCommand), "commands are also started from "+strings.Join(bad, ", "), "-")
	callers := c.G.CallerFuncs(ex.RunCommand)
	okC := true
	for _, f := range callers {
		if f != ex.ExecCommand && f != ex.OutputChecks {
			// an extracted loop body / wrapper: private to the executor or to the check runner
			up := c.G.CallerFuncs(f)
			okUp := len(up) > 0
			for _, g := range up {
				if t := engine.TopFunc(g); t != ex.ExecCommand && t != ex.OutputChecks {
					okUp = false
				}
			}
			if !okUp {
				okC = false
			}
		}
	}
	c.Require(okC, "R02b", "command-runner-callers", "the command runner is called only by the command executor and the output-check runner", "the command runner is called from "+names(c, callers), "-")
	// callers of the executing method
	ldo := c.P.Func("execution", "Executor", "LoadDependencyOutputs")
	var unexpected []string
	ldoRegion := map[*ssa.Function]bool{}
	if ldo != nil {
		ldoRegion = regionOf(c, ldo)
		delete(ldoRegion, ex.ExecMethod)
		for f := range regionOf(c, ex.ExecMethod) {
			if f != ldo {
				delete(ldoRegion, f)
			}
		}
		// only helpers on the way to the executing method matter
		for f := range ldoRegion {
			if f != ldo && !c.G.ReachableFuncs([]*ssa.Function{f}, nil)[ex.ExecMethod] {
				delete(ldoRegion, f)
			}
		}
		for _, f := range regionEntrants(c, ldoRegion, ldo) {
			if f != g.Fn && engine.TopFunc(f) != ex.ExecMethod {
				unexpected = append(unexpected, c.P.FuncName(f)+" (calls a helper of the dependency loader)")
			}
		}
	}
	for _, f := range c.G.CallerFuncs(ex.ExecMethod) {
		if f == g.Fn {
			continue
		}
		if ldo != nil && (engine.TopFunc(f) == ldo || ldoRegion[engine.TopFunc(f)]) {
			continue
		}
		unexpected = append(unexpected, c.P.FuncName(f))
	}
	sort.Strings(unexpected)
	c.Require(len(unexpected) == 0, "R02b", "execute-callers", "targets are executed only from the gate's fall-through and the dependency re-run of LoadDependencyOutputs", "targets can also be executed from "+strings.Join(unexpected, ", ")+" — bypassing the cache-hit gate", "-")
	// in the gate: after a successful restore, no execution
	lo := c.P.Func("output", "Registry", "LoadOutputs")
	restores := callsToFn(c, g.Fn, lo)
	execs := callsToFn(c, g.Fn, ex.ExecMethod)
	gname := c.P.FuncName(g.Fn)
	if len(restores) == 0 && len(execs) > 0 {
		// the restore inside a bool helper ("the hit was handled"): a failed restore makes the helper answer
		// false, and after a true answer the gate cannot reach the executing method
		done := false
		for _, hs := range gateHelpersCalling(c, g.Fn, lo) {
			res := hs.Helper.Signature.Results()
			if res.Len() != 1 || res.At(0).Type().String() != "bool" {
				continue
			}
			done = true
			bad := ""
			for _, r := range callsToFn(c, hs.Helper, lo) {
				if reach, _ := engine.PathExists(hs.Helper, r, mayBeTrueReturn, engine.PathQuery{CutEdge: engine.NilErrEdgesOf(r)}); reach {
					bad = "the helper " + c.P.FuncName(hs.Helper) + " can answer 'handled' although the restore returned an error"
				}
			}
			v := ssa.Value(hs.Call)
			for _, e := range execs {
				if reach, _ := engine.PathExists(g.Fn, hs.Call, engine.IsInstr(e), engine.PathQuery{CutEdge: engine.CutEdgesWhere(func(a engine.Atom) bool { return a.Op == "false" && a.V == v })}); reach {
					bad = "a target whose outputs were restored successfully can still be executed"
				}
			}
			c.Require(bad == "", "R02b", "no-execution-after-restore/"+gname, "after the hit helper answered true (restore returned nil) the gate cannot reach the executing method", bad, c.P.InstrPos(hs.Call))
		}
		if done {
			return
		}
	}
	if len(restores) == 0 || len(execs) == 0 {
		c.Unknown("R02b", "no-execution-after-restore/"+gname, "restore or execute call not found in the gate", "-")
		return
	}
	for _, r := range restores {
		bad := false
		for _, e := range execs {
			// cut the failure edges (err != nil): only success paths remain
			if reach, _ := engine.PathExists(g.Fn, r, engine.IsInstr(e), engine.PathQuery{CutEdge: engine.CutEdgesWhere(func(a engine.Atom) bool {
				return a.Op == "nonnil" && engine.OriginsAllFromCall(a.V, map[ssa.CallInstruction]int{r: 0}, false)
			})}); reach {
				bad = true
			}
		}
		c.Require(!bad, "R02b", "no-execution-after-restore/"+gname, "after the restore returned nil the gate cannot reach the executing method", "a target whose outputs were restored successfully can still be executed", c.P.InstrPos(r))
		badHit := false
		for _, h := range g.Hits {
			if reach, _ := engine.PathExists(g.Fn, r, engine.IsInstr(h), engine.PathQuery{CutEdge: engine.NilErrEdgesOf(r)}); reach {
				badHit = true
			}
		}
		c.Require(!badHit, "R02b", "hit-only-after-restore-ok/"+gname, "a cache hit is reported after a restore only on its err == nil branch", "a cache hit can be reported although restoring the outputs failed (the target would be left without outputs instead of being re-executed)", c.P.InstrPos(r))
	}
}

// R02c: dependants key on output digests; every target dependency contributes.
func ruleR02c(c *Check, rule string) {
	c.Rule(rule, "in the function that assigns Target.ChangeHash, ChangeHash is only read from the target being hashed (dependency digests come from OutputHash), and in the dependency loop the digest store is skipped only for non-target nodes or by an error return; a restore assigns Target.OutputHash before returning success", 3)
	for _, fn := range writersOfField(c, changeHashKey) {
		fname := c.P.FuncName(fn)
		var ownBase ssa.Value
		for _, st := range storesToField(c, changeHashKey) {
			if st.Parent() == fn {
				ownBase = st.Addr.(*ssa.FieldAddr).X
			}
		}
		okOwn := true
		var pos string
		region := regionOf(c, fn)
		var regionFns []*ssa.Function
		for f := range region {
			regionFns = append(regionFns, f)
		}
		sort.Slice(regionFns, func(i, j int) bool { return c.P.FuncName(regionFns[i]) < c.P.FuncName(regionFns[j]) })
		for _, rf := range regionFns {
			for _, b := range rf.Blocks {
				for _, in := range b.Instrs {
					fa, ok := in.(*ssa.FieldAddr)
					if !ok || engine.FieldKeyOf(fa.X.Type(), fa.Field) != changeHashKey {
						continue
					}
					if rf == fn && sameVar(fa.X, ownBase) {
						continue
					}
					// in a helper: only through a parameter that receives the target being hashed
					okHelper := false
					if prm, isP := fa.X.(*ssa.Parameter); isP && rf != fn {
						okHelper = true
						for _, cs := range c.G.CallersOf(rf) {
							idx := -1
							for k, fp := range rf.Params {
								if fp == prm {
									idx = k
								}
							}
							if cs.Parent() != fn || idx < 0 || idx >= len(cs.Common().Args) || !sameVar(cs.Common().Args[idx], ownBase) {
								okHelper = false
							}
						}
					}
					if !okHelper {
						okOwn = false
						pos = c.P.InstrPos(fa)
					}
				}
			}
		}
		c.Require(okOwn, rule, "deps-key-on-output-hash/"+fname, "ChangeHash is read only from the target being hashed; dependency digests are OutputHash values", "a dependency's ChangeHash is read while composing the key: dependants would be invalidated by any upstream change even when the rebuilt dependency reproduces identical outputs (no early cut-off)", pos)
		// each target dependency contributes (in the composer itself or in a helper it is split into)
		ohKey := fk("model.Target", "OutputHash")
		handled := false
		for _, rf := range regionFns {
			var store *ssa.Store
			for _, b := range rf.Blocks {
				for _, in := range b.Instrs {
					st, ok := in.(*ssa.Store)
					if !ok {
						continue
					}
					if _, isIdx := st.Addr.(*ssa.IndexAddr); !isIdx {
						continue
					}
					if _, ok := fieldReadOn(st.Val, "OutputHash"); ok && engine.InLoop(st) {
						store = st
					}
				}
			}
			if store != nil {
				checkContribution(c, rule, "every-dependency-contributes/"+fname, rf, store)
				handled = true
				break
			}
			// append form
			for _, s := range engine.SitesIn(rf) {
				if call, ok := s.(*ssa.Call); ok && !handled {
					if b, ok := call.Call.Value.(*ssa.Builtin); ok && b.Name() == "append" {
						for _, a := range call.Call.Args[1:] {
							back := c.G.Backward([]Node{a}, localTo(rf))
							if back.Has(ohKey) && !handled {
								checkContribution(c, rule, "every-dependency-contributes/"+fname, rf, call)
								handled = true
							}
						}
					}
				}
			}
			if handled {
				break
			}
		}
		if !handled {
			c.Bad(rule, "every-dependency-contributes/"+fname, "no dependency OutputHash is collected while composing the key", c.P.Pos(fn.Pos()))
		}
	}
	// restore sets OutputHash
	if lo := c.P.Func("output", "Registry", "LoadOutputs"); lo != nil {
		isStore := func(in ssa.Instruction) bool {
			st, ok := in.(*ssa.Store)
			if !ok {
				return false
			}
			fa, ok := st.Addr.(*ssa.FieldAddr)
			return ok && engine.FieldKeyOf(fa.X.Type(), fa.Field) == fk("model.Target", "OutputHash")
		}
		// success returns after at least one load was attempted (skip the already-loaded early return)
		h := c.P.Type("output/handlers", "Handler")
		sites := sitesReaching(c, lo, fnSet(methodImpls(c, h, "Load")...))
		bad := false
		for _, s := range sites {
			if reach, _ := engine.PathExists(lo, s, successReturn, engine.PathQuery{CutInstr: isStore}); reach {
				bad = true
			}
		}
		c.Require(len(sites) > 0 && !bad, rule, "restore-sets-output-hash/"+c.P.FuncName(lo), "a successful restore assigns Target.OutputHash (from the result) before returning", "a restore can succeed without assigning Target.OutputHash: dependants would fail or key on an empty digest", c.P.Pos(lo.Pos()))
	}
}

// checkContribution: inside the loop containing `at`, a new iteration can start
// without passing `at` only through a failed type assertion on model.BuildNode.
func checkContribution(c *Check, rule, key string, fn *ssa.Function, at ssa.Instruction) {
	lp := engine.LoopOf(at)
	if lp == nil || !lp.IsFullRange() {
		c.Bad(rule, key, "dependency digests are not collected in a full range over the dependencies", c.P.InstrPos(at))
		return
	}
	reach := lp.IterationCanSkip(engine.IsInstr(at), engine.CutEdgesWhere(func(a engine.Atom) bool {
		if a.Op != "false" {
			return false
		}
		ex, ok := a.V.(*ssa.Extract)
		if !ok || ex.Index != 1 {
			return false
		}
		ta, ok := ex.Tuple.(*ssa.TypeAssert)
		return ok && engine.TypeKey(ta.X.Type()) == "model.BuildNode"
	}))
	c.Require(!reach, rule, key, "within the dependency loop the digest is recorded on every iteration except for non-target nodes", "some target dependencies are skipped when the dependency digests are collected (conditional `continue`): a change in such a dependency would not invalidate the dependant", c.P.InstrPos(at))
}

// firstInstrBefore returns a pseudo start: PathExists starts *after* the given
// instruction, so we hand it nil-like behaviour by using the block's predecessor jump.
func firstInstrBefore(b *ssa.BasicBlock) ssa.Instruction {
	// the terminator of the (unique) in-loop predecessor, i.e. the header's If
	for _, p := range b.Preds {
		if len(p.Instrs) > 0 {
			return p.Instrs[len(p.Instrs)-1]
		}
	}
	return nil
}

// ---------------------------------------------------------------------------
// R02d: a restore creates the parent of what it creates.

var createCalls = map[string]int{ // callee -> index of the created path argument
	"os.Create": 0, "os.OpenFile": 0, "os.WriteFile": 0, "os.Symlink": 1, "os.Mkdir": 0, "os.Link": 1, "os.Rename": 1,
}

func ruleR02d(c *Check, rule string) {
	c.Rule(rule, "every file/symlink creation reachable from a handler Load whose path lies in the workspace is preceded (same function, or inductively at every call site for a path parameter) by a successful os.MkdirAll of its parent directory", 3)
	h := c.P.Type("output/handlers", "Handler")
	loads := methodImpls(c, h, "Load")
	if len(loads) == 0 {
		c.Unknown(rule, "anchor/handler-load", "anchor-unresolved: no Handler.Load implementations", "-")
		return
	}
	reach := c.G.ReachableFuncs(loads, func(f *ssa.Function) bool { return !engine.InPackage(f, "output/handlers") })
	for _, fn := range c.P.Funcs {
		if !reach[fn] || !engine.InPackage(fn, "output/handlers") {
			continue
		}
		for _, s := range engine.SitesIn(fn) {
			idx, ok := createCalls[engine.CalleeName(s)]
			if !ok {
				continue
			}
			if engine.CalleeName(s) == "os.OpenFile" && !openFileCreates(s) {
				continue
			}
			p := s.Common().Args[idx]
			// temp files and cache-internal paths are not workspace restores
			if derivesFromCall(p, "os.CreateTemp", "os.MkdirTemp", "os.TempDir") {
				continue
			}
			key := "parent-exists/" + siteKey(c, s)
			ok2, why := dirEnsured(c, fn, parentOf(p), s, 0)
			if ok2 {
				c.OK(rule, key, "the parent directory of the created path is ensured by os.MkdirAll on every path ("+why+")", c.P.InstrPos(s))
			} else {
				c.Bad(rule, key, "the parent directory of the path created here is not guaranteed to exist ("+why+"): on a fresh checkout the restore fails and the target is silently re-executed", c.P.InstrPos(s))
			}
		}
	}
}

func openFileCreates(s ssa.CallInstruction) bool {
	if len(s.Common().Args) < 2 {
		return false
	}
	k, ok := s.Common().Args[1].(*ssa.Const)
	if !ok || k.Value == nil {
		return true
	}
	return k.Int64()&0x40 != 0 // O_CREATE on linux
}

func derivesFromCall(v ssa.Value, names ...string) bool {
	set := map[string]bool{}
	for _, n := range names {
		set[n] = true
	}
	seen := map[ssa.Value]bool{}
	var walk func(v ssa.Value, d int) bool
	walk = func(v ssa.Value, d int) bool {
		if v == nil || seen[v] || d > 10 {
			return false
		}
		seen[v] = true
		for _, o := range engine.Origins(v) {
			if o == nil {
				continue
			}
			if call, _ := engine.CallOf(o); call != nil {
				if set[engine.CalleeName(call)] {
					return true
				}
				for _, a := range call.Common().Args {
					if walk(a, d+1) {
						return true
					}
				}
			}
		}
		return false
	}
	return walk(v, 0)
}

// dirExpr describes "the parent directory of a path value".
type dirExpr struct {
	Dir   ssa.Value // a value that *is* the directory (first element of a Join), or nil
	DirOf ssa.Value // the directory is filepath.Dir(DirOf)
}

func joinFirst(v ssa.Value) (ssa.Value, bool) {
	for _, o := range engine.Origins(v) {
		call, _ := engine.CallOf(o)
		if call == nil || engine.CalleeName(call) != "path/filepath.Join" || len(call.Common().Args) != 1 {
			return nil, false
		}
		// varargs slice: find the store to element 0
		sl, ok := call.Common().Args[0].(*ssa.Slice)
		if !ok {
			return nil, false
		}
		al, ok := sl.X.(*ssa.Alloc)
		if !ok {
			return nil, false
		}
		n := 0
		var first ssa.Value
		for _, r := range *al.Referrers() {
			ia, ok := r.(*ssa.IndexAddr)
			if !ok {
				continue
			}
			n++
			if k, ok := ia.Index.(*ssa.Const); ok && k.Int64() == 0 {
				for _, rr := range *ia.Referrers() {
					if st, ok := rr.(*ssa.Store); ok {
						first = st.Val
					}
				}
			}
		}
		if first != nil && n == 2 {
			return first, true
		}
		return nil, false
	}
	return nil, false
}

func parentOf(p ssa.Value) dirExpr {
	if d, ok := joinFirst(p); ok {
		return dirExpr{Dir: d}
	}
	return dirExpr{DirOf: p}
}

// dirEnsured: the directory described by d exists whenever `at` executes in fn.
func dirEnsured(c *Check, fn *ssa.Function, d dirExpr, at ssa.Instruction, depth int) (bool, string) {
	if depth > 4 {
		return false, "call chain too deep"
	}
	// same function: MkdirAll(X) that must have succeeded before `at`
	for _, m := range callsNamed(fn, "os.MkdirAll") {
		x := m.Common().Args[0]
		match := false
		if d.Dir != nil && (sameVar(x, d.Dir) || engine.ExprKey(x) == engine.ExprKey(d.Dir)) {
			match = true
		}
		if d.DirOf != nil {
			for _, o := range engine.Origins(x) {
				if call, _ := engine.CallOf(o); call != nil && engine.CalleeName(call) == "path/filepath.Dir" {
					a := call.Common().Args[0]
					if sameVar(a, d.DirOf) || engine.ExprKey(a) == engine.ExprKey(d.DirOf) {
						match = true
					}
				}
			}
		}
		if match {
			if ci, ok := at.(ssa.CallInstruction); ok {
				if w := onlyAfterSuccess(fn, m, ci); w == "" {
					return true, "MkdirAll in " + c.P.FuncName(fn)
				}
			}
		}
	}
	// same function: a helper that (re)creates the directory it is given — it calls MkdirAll on that parameter
	// and cannot return nil without that call having succeeded — must have succeeded before `at`
	if d.Dir != nil {
		for _, hs := range engine.SitesIn(fn) {
			call, isCall := hs.(*ssa.Call)
			if !isCall || engine.ErrResultIndex(call.Call.Signature()) < 0 {
				continue
			}
			h := call.Call.StaticCallee()
			if h == nil || len(h.Blocks) == 0 || h.Pkg == nil || !engine.IsFirstParty(h.Pkg.Pkg.Path()) {
				continue
			}
			for i, a := range call.Call.Args {
				if i >= len(h.Params) || !(sameVar(a, d.Dir) || engine.ExprKey(a) == engine.ExprKey(d.Dir)) {
					continue
				}
				if !helperEnsuresDir(h, h.Params[i]) {
					continue
				}
				if ci, ok := at.(ssa.CallInstruction); ok {
					if w := onlyAfterSuccess(fn, hs, ci); w == "" {
						return true, "MkdirAll in " + c.P.FuncName(h) + ", called from " + c.P.FuncName(fn)
					}
				}
			}
		}
	}
	// the directory is read from a field of a work-list frame: every value stored into that field is ensured
	if d.Dir != nil {
		if ok, why, handled := dirFieldEnsured(c, fn, d.Dir, depth); handled {
			return ok, why
		}
	}
	// the directory is (derived 1:1 from) a parameter: induct over call sites
	var dirVal ssa.Value = d.Dir
	if dirVal == nil {
		// parent of a parameter path: every call site must ensure parentOf(arg)
		dirVal = d.DirOf
	}
	for _, o := range engine.Origins(dirVal) {
		prm, ok := o.(*ssa.Parameter)
		if !ok {
			return false, "no dominating MkdirAll of the parent directory in " + c.P.FuncName(fn)
		}
		idx := -1
		for i, p := range fn.Params {
			if p == prm {
				idx = i
			}
		}
		callers := c.G.CallersOf(fn)
		if len(callers) == 0 || idx < 0 {
			return false, "no call sites found for " + c.P.FuncName(fn)
		}
		for _, cs := range callers {
			args := cs.Common().Args
			if cs.Common().IsInvoke() {
				args = append([]ssa.Value{cs.Common().Value}, args...)
			}
			if len(args) != len(fn.Params) {
				return false, "call site arity mismatch"
			}
			arg := args[idx]
			var nd dirExpr
			if d.Dir != nil {
				// the argument itself must be an existing directory
				nd = dirExpr{Dir: arg}
				if ok, why := dirIsEnsuredValue(c, cs.Parent(), arg, cs, depth+1); !ok {
					return false, why
				}
				continue
			}
			nd = parentOf(arg)
			if ok, why := dirEnsured(c, cs.Parent(), nd, cs, depth+1); !ok {
				return false, why
			}
		}
		return true, "ensured at every call site of " + c.P.FuncName(fn)
	}
	return false, "no dominating MkdirAll of the parent directory in " + c.P.FuncName(fn)
}

// dirFieldEnsured: v is read from field F of a first-party struct (a frame of an explicit work list, say).
// The field holds an existing directory if every store into T.F anywhere stores a value that is an ensured
// directory at the point of the store (created by MkdirAll before, or a parameter ensured at the call
// sites). handled is false when v is not such a field read.
func dirFieldEnsured(c *Check, fn *ssa.Function, v ssa.Value, depth int) (ok bool, why string, handled bool) {
	var key engine.FieldKey
	found := false
	for _, o := range engine.Origins(v) {
		switch x := o.(type) {
		case *ssa.UnOp:
			if fa, isFA := x.X.(*ssa.FieldAddr); isFA {
				key, found = engine.FieldKeyOf(fa.X.Type(), fa.Field), true
			}
		case *ssa.Field:
			key, found = engine.FieldKeyOf(x.X.Type(), x.Field), true
		}
	}
	if !found || !strings.HasPrefix(key.T, "output/handlers.") {
		return false, "", false
	}
	stores := storesToField(c, key)
	if len(stores) == 0 || depth > 4 {
		return false, "no store into " + key.String() + " found", true
	}
	for _, st := range stores {
		sfn := st.Parent()
		// a pseudo call position: the store itself
		okStore := false
		for _, m := range callsNamed(sfn, "os.MkdirAll") {
			x := m.Common().Args[0]
			if sameVar(x, st.Val) || engine.ExprKey(x) == engine.ExprKey(st.Val) {
				if r, _ := engine.PathExists(sfn, nil, engine.IsInstr(st), engine.PathQuery{CutInstr: engine.IsInstr(m)}); !r {
					if r2, _ := engine.PathExists(sfn, m, engine.IsInstr(st), engine.PathQuery{CutEdge: engine.NilErrEdgesOf(m)}); !r2 {
						okStore = true
					}
				}
			}
		}
		if !okStore {
			// a parameter of the storing function: ensured at its call sites
			for _, o := range engine.Origins(st.Val) {
				if prm, isP := o.(*ssa.Parameter); isP {
					idx := -1
					for i, p := range sfn.Params {
						if p == prm {
							idx = i
						}
					}
					callers := c.G.CallersOf(sfn)
					all := idx >= 0 && len(callers) > 0
					for _, cs := range callers {
						args := cs.Common().Args
						if len(args) != len(sfn.Params) {
							all = false
							continue
						}
						if okc, _ := dirIsEnsuredValue(c, cs.Parent(), args[idx], cs, depth+1); !okc {
							all = false
						}
					}
					if all {
						okStore = true
					}
				}
			}
		}
		if !okStore {
			return false, "a value stored into " + key.String() + " at " + c.P.InstrPos(st) + " is not a directory known to exist", true
		}
	}
	return true, "every path stored into " + key.String() + " was created (MkdirAll) or handed in as an existing directory", true
}

// dirIsEnsuredValue: value v (a directory path) exists at `at`: MkdirAll(v)
// succeeded before, or v is a parameter ensured at every call site.
func dirIsEnsuredValue(c *Check, fn *ssa.Function, v ssa.Value, at ssa.CallInstruction, depth int) (bool, string) {
	if depth > 4 {
		return false, "call chain too deep"
	}
	for _, m := range callsNamed(fn, "os.MkdirAll") {
		x := m.Common().Args[0]
		if sameVar(x, v) || engine.ExprKey(x) == engine.ExprKey(v) {
			if w := onlyAfterSuccess(fn, m, at); w == "" {
				return true, ""
			}
		}
	}
	// ... or a helper that (re)creates the directory it is given, which returned nil before `at`
	for _, hs := range engine.SitesIn(fn) {
		call, isCall := hs.(*ssa.Call)
		if !isCall || engine.ErrResultIndex(call.Call.Signature()) < 0 {
			continue
		}
		h := call.Call.StaticCallee()
		if h == nil || len(h.Blocks) == 0 || h.Pkg == nil || !engine.IsFirstParty(h.Pkg.Pkg.Path()) {
			continue
		}
		for i, a := range call.Call.Args {
			if i < len(h.Params) && (sameVar(a, v) || engine.ExprKey(a) == engine.ExprKey(v)) && helperEnsuresDir(h, h.Params[i]) {
				if w := onlyAfterSuccess(fn, hs, at); w == "" {
					return true, ""
				}
			}
		}
	}
	if ok, why, handled := dirFieldEnsured(c, fn, v, depth); handled {
		return ok, why
	}
	for _, o := range engine.Origins(v) {
		prm, ok := o.(*ssa.Parameter)
		if !ok {
			return false, "directory " + engine.ExprKey(v) + " is not created before use in " + c.P.FuncName(fn)
		}
		idx := -1
		for i, p := range fn.Params {
			if p == prm {
				idx = i
			}
		}
		callers := c.G.CallersOf(fn)
		if len(callers) == 0 || idx < 0 {
			return false, "no call sites for " + c.P.FuncName(fn)
		}
		for _, cs := range callers {
			args := cs.Common().Args
			if len(args) != len(fn.Params) {
				return false, "call site arity mismatch"
			}
			if cs.Parent() == fn {
				// recursive call: the argument must be created before the recursive call
				if ok, why := dirIsEnsuredValue(c, fn, args[idx], cs, depth+1); !ok {
					return false, why
				}
				continue
			}
			if ok, why := dirIsEnsuredValue(c, cs.Parent(), args[idx], cs, depth+1); !ok {
				return false, why
			}
		}
		return true, ""
	}
	return false, "directory value has no recognisable origin"
}

func isContextNode(n Node) bool {
	v, ok := n.(ssa.Value)
	if !ok || v == nil || v.Type() == nil {
		return false
	}
	t := v.Type()
	if p, ok := t.Underlying().(*types.Pointer); ok {
		t = p.Elem()
	}
	return t.String() == "context.Context"
}

// expandWrapperSinks: a hasher write inside a hashing-package helper whose hashed
// value is just a parameter (HashBytes, HashString, HashStrings) is reported at
// the helper's call sites instead, so one finding has one position-free key.
func expandWrapperSinks(c *Check, sinks []HasherSink) []HasherSink {
	var out []HasherSink
	seen := map[ssa.CallInstruction]bool{}
	var expand func(s HasherSink, depth int)
	expand = func(s HasherSink, depth int) {
		fn := s.Call.Parent()
		if depth < 3 && engine.InPackage(fn, "hashing") && fn.Signature.Recv() == nil {
			var prm *ssa.Parameter
			allParam := true
			back := c.G.Backward([]Node{s.Val}, localTo(fn))
			for _, p := range fn.Params {
				if back.Has(p) {
					prm = p
				}
			}
			for n := range back.Parent {
				switch x := n.(type) {
				case *ssa.Call:
					if len(c.G.Callees[x]) == 0 {
						if name := engine.CalleeName(x); name != "sort.Strings" && name != "strings.Join" && name != "slices.Sort" && !strings.HasPrefix(name, "builtin.") {
							allParam = false
						}
					}
				case engine.FieldKey:
					allParam = false
				}
			}
			if prm != nil && allParam && len(fn.Params) == 1 {
				callers := c.G.CallersOf(fn)
				if len(callers) > 0 {
					for _, cs := range callers {
						expand(HasherSink{Call: cs, Val: cs.Common().Args[0], Hasher: s.Hasher, How: "via " + c.P.FuncName(fn)}, depth+1)
					}
					return
				}
			}
		}
		if !seen[s.Call] || true {
			seen[s.Call] = true
			out = append(out, s)
		}
	}
	for _, s := range sinks {
		expand(s, 0)
	}
	return out
}

// R02m: a build with the cache disabled leaves the cache alone. Its completion computes an output-less record
// (outputs are hashed locally, not stored); written under the target's change hash it replaces the complete
// record of an earlier build, and the next cache-enabled build finds a result it cannot restore and executes
// the target again although nothing changed.
func ruleR02m(c *Check) {
	c.Rule("R02m", "in the completion function the target-result write is reachable only on paths on which the executor's enable-cache flag was tested true (or through the branch that stored the outputs)", 1)
	ex := findExec(c, "R02m")
	if ex == nil {
		return
	}
	tw := c.P.Func("caching", "TargetResultCache", "Write")
	if tw == nil {
		c.Unknown("R02m", "anchor/caching.TargetResultCache.Write", "anchor-unresolved", "-")
		return
	}
	enable := fk("execution.Executor", "enableCache")
	isFlag := func(v ssa.Value) bool {
		for _, o := range engine.Origins(v) {
			if ld, ok := o.(*ssa.UnOp); ok {
				if fa, ok := ld.X.(*ssa.FieldAddr); ok && engine.FieldKeyOf(fa.X.Type(), fa.Field) == enable {
					return true
				}
			}
		}
		if ld, ok := v.(*ssa.UnOp); ok {
			if fa, ok := ld.X.(*ssa.FieldAddr); ok && engine.FieldKeyOf(fa.X.Type(), fa.Field) == enable {
				return true
			}
		}
		return false
	}
	disabled := engine.CutEdgesWhere(func(a engine.Atom) bool { return a.Op == "false" && isFlag(a.V) })
	writes, _ := liftedSites(c, ex.Complete, func(s ssa.CallInstruction) bool {
		for _, cal := range c.G.CalleesOf(s) {
			if cal == tw {
				return true
			}
		}
		return false
	}, 0)
	if len(writes) == 0 {
		c.Unknown("R02m", "no-result-write-when-disabled/"+c.P.FuncName(ex.Complete), "no target-result write in the completion function", "-")
		return
	}
	for _, w := range writes {
		// is there a path to the write that takes a 'flag is false' edge? equivalently: cutting the
		// 'flag is true' edges must not leave the write reachable when the flag is tested at all
		enabled := engine.CutEdgesWhere(func(a engine.Atom) bool { return a.Op == "true" && isFlag(a.V) })
		_ = disabled
		reach, _ := engine.PathExists(ex.Complete, nil, engine.IsInstr(w), engine.PathQuery{CutEdge: enabled, Shallow: true})
		c.Require(!reach, "R02m", "no-result-write-when-disabled/"+c.P.FuncName(ex.Complete), "the result is written only past the branch on which caching is enabled", "the target result is also written when caching is disabled: the record of such a build lists no outputs and replaces the complete one stored earlier under the same change hash, so the next ordinary build executes the target again although nothing changed (and, with a shared remote cache, so does everybody else)", c.P.InstrPos(w))
	}
}

// helperEnsuresDir: h calls os.MkdirAll on its parameter p and every nil-error return of h lies behind the
// err == nil branch of such a call.
func helperEnsuresDir(h *ssa.Function, p *ssa.Parameter) bool {
	var mks []ssa.CallInstruction
	for _, m := range callsNamed(h, "os.MkdirAll") {
		for _, o := range engine.Origins(m.Common().Args[0]) {
			if o == ssa.Value(p) {
				mks = append(mks, m)
			}
		}
	}
	if len(mks) == 0 {
		return false
	}
	isMk := func(in ssa.Instruction) bool {
		for _, m := range mks {
			if in == ssa.Instruction(m) {
				return true
			}
		}
		return false
	}
	if ok, _ := engine.PathExists(h, nil, successReturn, engine.PathQuery{CutInstr: isMk, Shallow: true}); ok {
		return false
	}
	for _, m := range mks {
		if ok, _ := engine.PathExists(h, m, successReturn, engine.PathQuery{CutEdge: engine.NilErrEdgesOf(m), CutInstr: isMk, Shallow: true}); ok {
			return false
		}
	}
	return true
}
