package rules

import (
	"bufio"
	"encoding/json"
	"fmt"
	"os"
	"os/exec"
	"path/filepath"
	"sort"
	"strconv"
	"strings"
	"sync"

	"grogverif/engine"
)

// The thorough tier re-runs a property's rules on *variants* of the current
// tree: small breaking changes (the mutant table in /verif/mutants.json and the
// confirmed seeded changes under /verif/seeded) applied in memory through the
// package loader's overlay — nothing is written under /repo and nothing is
// executed. A rule set is "armed" for a variant when it reports an obligation
// that is not reported on the unchanged tree. Variants whose anchor text no
// longer exists in the current tree are reported as inapplicable.

type Mutant struct {
	ID         string   `json:"id"`
	Properties []string `json:"properties"`
	File       string   `json:"file"`
	Old        string   `json:"old"`
	New        string   `json:"new"`
	Breaks     string   `json:"breaks"`
}

type variantResult struct {
	ID         string   `json:"id"`
	Kind       string   `json:"kind"` // mutant | seed
	Applicable bool     `json:"applicable"`
	Armed      bool     `json:"armed"`
	NewKeys    []string `json:"new_obligations,omitempty"`
	Note       string   `json:"note,omitempty"`
}

func badKeys(c *engine.Check) map[string]bool {
	out := map[string]bool{}
	for _, o := range c.Obls {
		if o.Status != engine.Discharged {
			out[o.Key] = true
		}
	}
	return out
}

// RunVariant is the child-process entry point: analyse one variant and print its non-discharged keys.
func RunVariant(repo, prop string, overlay map[string][]byte) int {
	p, err := engine.Load(repo, overlay)
	if err != nil {
		// a variant that does not type-check is not a valid variant
		fmt.Println(`{"error":` + strconv.Quote(err.Error()) + `}`)
		return 0
	}
	g := engine.BuildVFG(p)
	c := engine.NewCheck(prop, p, g)
	func() {
		defer func() {
			if r := recover(); r != nil {
				c.Rule("panic", "", 0)
				c.Unknown("panic", "analysis-panic", fmt.Sprint(r), "-")
			}
		}()
		Get(prop).Run(c, "quick")
	}()
	for _, r := range c.Rules {
		if r.Count < r.Min {
			c.Obls = append(c.Obls, &engine.Obligation{Rule: r.ID, Key: r.ID + "/instance-count", Status: engine.Undecided})
		}
	}
	var keys []string
	for k := range badKeys(c) {
		keys = append(keys, k)
	}
	sort.Strings(keys)
	out, _ := json.Marshal(map[string]any{"keys": keys})
	fmt.Println(string(out))
	return 0
}

// ApplyUnifiedDiff applies a `git diff` style patch to in-memory copies of the files it names.
func ApplyUnifiedDiff(repo string, diff []byte) (map[string][]byte, error) {
	out := map[string][]byte{}
	sc := bufio.NewScanner(strings.NewReader(string(diff)))
	sc.Buffer(make([]byte, 1<<20), 1<<24)
	var cur string
	var lines []string // current file content
	type hunk struct {
		start int
		body  []string
	}
	var hunks []hunk
	flush := func() error {
		if cur == "" {
			return nil
		}
		res := append([]string{}, lines...)
		offset := 0
		for _, h := range hunks {
			var oldL, newL []string
			for _, l := range h.body {
				switch {
				case strings.HasPrefix(l, "-"):
					oldL = append(oldL, l[1:])
				case strings.HasPrefix(l, "+"):
					newL = append(newL, l[1:])
				case strings.HasPrefix(l, "\\"):
				default:
					t := strings.TrimPrefix(l, " ")
					oldL = append(oldL, t)
					newL = append(newL, t)
				}
			}
			// find the old block at the stated position, else search the neighbourhood
			pos := -1
			want := h.start - 1 + offset
			match := func(at int) bool {
				if at < 0 || at+len(oldL) > len(res) {
					return false
				}
				for i := range oldL {
					if res[at+i] != oldL[i] {
						return false
					}
				}
				return true
			}
			for d := 0; d < 400 && pos < 0; d++ {
				if match(want + d) {
					pos = want + d
				} else if match(want - d) {
					pos = want - d
				}
			}
			if pos < 0 {
				return fmt.Errorf("hunk at line %d of %s does not apply", h.start, cur)
			}
			res = append(append(append([]string{}, res[:pos]...), newL...), res[pos+len(oldL):]...)
			offset += len(newL) - len(oldL)
		}
		out[filepath.Join(repo, cur)] = []byte(strings.Join(res, "\n"))
		return nil
	}
	for sc.Scan() {
		l := sc.Text()
		switch {
		case strings.HasPrefix(l, "diff --git"):
			if err := flush(); err != nil {
				return nil, err
			}
			cur, hunks, lines = "", nil, nil
		case strings.HasPrefix(l, "+++ "):
			name := strings.TrimPrefix(strings.TrimPrefix(l, "+++ "), "b/")
			if name == "/dev/null" {
				continue
			}
			cur = name
			data, err := os.ReadFile(filepath.Join(repo, cur))
			if err != nil {
				lines = nil // new file
			} else {
				lines = strings.Split(string(data), "\n")
			}
		case strings.HasPrefix(l, "--- "), strings.HasPrefix(l, "index "), strings.HasPrefix(l, "new file"), strings.HasPrefix(l, "deleted file"), strings.HasPrefix(l, "similarity"), strings.HasPrefix(l, "rename "):
		case strings.HasPrefix(l, "@@"):
			// @@ -a,b +c,d @@
			parts := strings.Fields(l)
			st := 1
			if len(parts) > 1 {
				o := strings.TrimPrefix(parts[1], "-")
				st, _ = strconv.Atoi(strings.Split(o, ",")[0])
			}
			hunks = append(hunks, hunk{start: st})
		default:
			if cur != "" && len(hunks) > 0 {
				hunks[len(hunks)-1].body = append(hunks[len(hunks)-1].body, l)
			}
		}
	}
	if err := flush(); err != nil {
		return nil, err
	}
	return out, nil
}

// displacedKnown: the key is a known finding of the unchanged tree reported at a renamed/moved site
// (same rule and construct kind as a key that is non-discharged on the unchanged tree).
func displacedKnown(key string, base map[string]bool) bool {
	kind := func(k string) string {
		var out []string
		for _, sg := range strings.Split(k, "/") {
			if strings.HasPrefix(sg, "(") || strings.Contains(sg, ".") {
				break
			}
			out = append(out, sg)
		}
		return strings.Join(out, "/")
	}
	for b := range base {
		if kind(b) == kind(key) {
			return true
		}
	}
	return false
}

func init() {
	Thorough = func(c *engine.Check, id string, extra map[string]any) {
		verif := os.Getenv("GROGCHECK_VERIF")
		if verif == "" {
			verif = "/verif"
		}
		base := badKeys(c)
		type job struct {
			res  variantResult
			args []string
		}
		var jobs []*job
		// table mutants
		var muts []Mutant
		if data, err := os.ReadFile(filepath.Join(verif, "mutants.json")); err == nil {
			_ = json.Unmarshal(data, &muts)
		}
		for i, m := range muts {
			use := false
			for _, p := range m.Properties {
				if p == id {
					use = true
				}
			}
			if !use {
				continue
			}
			j := &job{res: variantResult{ID: m.ID, Kind: "mutant"}}
			src, err := os.ReadFile(filepath.Join(c.P.RepoDir, m.File))
			if err != nil || !strings.Contains(string(src), m.Old) {
				j.res.Note = "anchor text not present in the current tree"
			} else {
				j.res.Applicable = true
				j.args = []string{"variant", id, "-repo", c.P.RepoDir, "-mutant", filepath.Join(verif, "mutants.json"), "-index", strconv.Itoa(i)}
			}
			jobs = append(jobs, j)
		}
		// seeded changes
		seeds, _ := filepath.Glob(filepath.Join(verif, "seeded", "*", "meta.json"))
		sort.Strings(seeds)
		for _, mf := range seeds {
			var meta struct {
				Property string   `json:"property"`
				CaughtBy []string `json:"caught_by"`
			}
			data, _ := os.ReadFile(mf)
			_ = json.Unmarshal(data, &meta)
			use := false
			for _, p := range meta.CaughtBy {
				if p == id {
					use = true
				}
			}
			if !use {
				continue
			}
			dir := filepath.Dir(mf)
			j := &job{res: variantResult{ID: filepath.Base(dir), Kind: "seed"}}
			diff, err := os.ReadFile(filepath.Join(dir, "patch.diff"))
			if err != nil {
				j.res.Note = "no patch.diff"
			} else if _, err := ApplyUnifiedDiff(c.P.RepoDir, diff); err != nil {
				j.res.Note = "patch does not apply to the current tree: " + err.Error()
			} else {
				j.res.Applicable = true
				j.args = []string{"variant", id, "-repo", c.P.RepoDir, "-seed", dir}
			}
			jobs = append(jobs, j)
		}
		// run children, eight at a time
		sem := make(chan struct{}, 8)
		var wg sync.WaitGroup
		for _, j := range jobs {
			if !j.res.Applicable {
				continue
			}
			wg.Add(1)
			go func(j *job) {
				defer wg.Done()
				sem <- struct{}{}
				defer func() { <-sem }()
				cmd := exec.Command(os.Args[0], j.args...)
				cmd.Env = os.Environ()
				out, err := cmd.Output()
				if err != nil {
					j.res.Note = "variant analysis failed: " + err.Error()
					return
				}
				var r struct {
					Keys  []string `json:"keys"`
					Error string   `json:"error"`
				}
				lines := strings.Split(strings.TrimSpace(string(out)), "\n")
				_ = json.Unmarshal([]byte(lines[len(lines)-1]), &r)
				if r.Error != "" {
					j.res.Applicable = false
					j.res.Note = "variant does not load: " + strings.Split(r.Error, "\n")[0]
					return
				}
				for _, k := range r.Keys {
					if !base[k] {
						j.res.NewKeys = append(j.res.NewKeys, k)
					}
				}
				j.res.Armed = len(j.res.NewKeys) > 0
			}(j)
		}
		wg.Wait()
		var results []variantResult
		applicable, armed := 0, 0
		for _, j := range jobs {
			results = append(results, j.res)
			if j.res.Applicable {
				applicable++
				if j.res.Armed {
					armed++
				} else {
					c.Note("arming: variant %s (%s) is applicable but no rule of %s fired on it", j.res.ID, j.res.Kind, id)
				}
			}
		}
		// behaviour-preserving refactorings (refactors/*/patch.diff): the rules must stay silent on them
		refs, _ := filepath.Glob(filepath.Join(verif, "refactors", "*", "patch.diff"))
		sort.Strings(refs)
		type refRes struct {
			ID      string   `json:"id"`
			Applies bool     `json:"applicable"`
			Silent  bool     `json:"silent"`
			NewKeys []string `json:"new_obligations,omitempty"`
		}
		refResults := make([]refRes, len(refs))
		var wg2 sync.WaitGroup
		for i, pf := range refs {
			dir := filepath.Dir(pf)
			refResults[i].ID = filepath.Base(dir)
			diff, err := os.ReadFile(pf)
			if err != nil {
				continue
			}
			if _, err := ApplyUnifiedDiff(c.P.RepoDir, diff); err != nil {
				continue
			}
			refResults[i].Applies = true
			wg2.Add(1)
			go func(i int, dir string) {
				defer wg2.Done()
				sem <- struct{}{}
				defer func() { <-sem }()
				cmd := exec.Command(os.Args[0], "variant", id, "-repo", c.P.RepoDir, "-seed", dir)
				cmd.Env = os.Environ()
				out, err := cmd.Output()
				if err != nil {
					refResults[i].Applies = false
					return
				}
				var r struct {
					Keys  []string `json:"keys"`
					Error string   `json:"error"`
				}
				lines := strings.Split(strings.TrimSpace(string(out)), "\n")
				_ = json.Unmarshal([]byte(lines[len(lines)-1]), &r)
				if r.Error != "" {
					refResults[i].Applies = false
					return
				}
				for _, k := range r.Keys {
					if !base[k] && !displacedKnown(k, base) {
						refResults[i].NewKeys = append(refResults[i].NewKeys, k)
					}
				}
				refResults[i].Silent = len(refResults[i].NewKeys) == 0
			}(i, dir)
		}
		wg2.Wait()
		refApplicable, refSilent := 0, 0
		for _, r := range refResults {
			if r.Applies {
				refApplicable++
				if r.Silent {
					refSilent++
				} else {
					c.Note("false alarm on behaviour-preserving refactoring %s: %v", r.ID, r.NewKeys)
				}
			}
		}
		if len(refs) > 0 {
			extra["refactoring_variants"] = refResults
			extra["refactorings_silent"] = fmt.Sprintf("%d/%d applicable behaviour-preserving refactorings raise no new obligation (%d listed)", refSilent, refApplicable, len(refs))
			fmt.Printf("  thorough: silent on %d/%d applicable behaviour-preserving refactorings (%d listed)\n", refSilent, refApplicable, len(refs))
			for _, r := range refResults {
				if r.Applies && !r.Silent {
					fmt.Printf("    refactoring %-8s NOT silent -> %s\n", r.ID, r.NewKeys[0])
				}
			}
		}
		extra["arming_variants"] = results
		extra["armed"] = fmt.Sprintf("%d/%d applicable variants detected (%d variants listed)", armed, applicable, len(jobs))
		fmt.Printf("  thorough: %d/%d applicable breaking variants detected by %s's rules (%d listed)\n", armed, applicable, id, len(jobs))
		for _, r := range results {
			st := "inapplicable"
			if r.Applicable {
				st = map[bool]string{true: "detected", false: "NOT detected"}[r.Armed]
			}
			first := ""
			if len(r.NewKeys) > 0 {
				first = " -> " + r.NewKeys[0]
			}
			fmt.Printf("    %-6s %-28s %s%s %s\n", r.Kind, r.ID, st, first, r.Note)
		}
	}
}
