package rules

import (
	"strings"
)

// Rule families: groups of rules that state one mechanism (the cache-hit gate, the restore path, the store
// path). A property whose statement depends on a mechanism files the family's obligations under one rule id
// of its own (shareRule), so that a change which breaks the mechanism is reported by every property that
// relies on it — not only by the property the rules were first written for.

type family struct {
	doc string
	ids []string // rule ids the family's rules emit
	run func(sub *Check)
}

var famGate = family{
	doc: "the cache-hit gate (same obligations as R13a, R14b, R01c): a hit needs the looked-up result of this very target, no taint, no no-cache tag, the cache enabled and passing output checks; the lookup key is the target's own ChangeHash and the restored result is the looked-up one",
	ids: []string{"R13a", "R14b", "R01c"},
	run: func(sub *Check) {
		ruleR13a(sub, analyseGate(sub, "R13a"))
		ruleR14b(sub)
		ruleR01c(sub)
	},
}

var famRestore = family{
	doc: "the restore path (same obligations as R06a, R06b, R06c, R06f, R06g, R02d, R01e): every persisted field is written and consumed; a restore is skipped only when the local content hashes to the recorded digest; the old tree is cleared first; modes come from the record; restore errors are not dropped; parents are created; the stored outputs are validated against the declared ones before any load",
	ids: []string{"R06a", "R06b", "R06c", "R06f", "R06g", "R02d", "R01e"},
	run: func(sub *Check) {
		ruleR06a(sub)
		ruleR06b(sub)
		ruleR06c(sub, "R06c")
		ruleR06f(sub)
		ruleLoadPathErrors(sub, "R06g")
		ruleR02d(sub, "R02d")
		ruleR01e(sub)
	},
}

var famStore = family{
	doc: "the store path (same obligations as R01d, R07a, R07d, R07e, R07h, R07i, R08a, R08b, R14e): result after outputs, tree after blobs; entries published only by rename of a whole temp file; digest and bytes from one source; the exists-memo set only after success; pipe errors propagated; one-shot readers consumed once; both tiers written and both errors reported; read-through fills are whole; no error dropped on the write path",
	ids: []string{"R01d", "R07a", "R07d", "R07e", "R07h", "R07i", "R08a", "R08b", "R14e"},
	run: func(sub *Check) {
		ruleR01d(sub, "R01d")
		ruleR07a(sub)
		ruleR07d(sub)
		ruleR07e(sub, "R07e")
		rulePipeErrorPropagated(sub, "R07h")
		ruleReaderConsumedOnce(sub, "R07i", "caching", "output")
		if w := findWrapper(sub, "R08a"); w != nil {
			ruleR08a(sub, w)
			ruleR08b(sub, w, "R08b")
		}
		ruleWritePathErrors(sub, "R14e")
	},
}

var famExec = family{
	doc: "success of an execution (same obligations as R05a, R05d, R14c, R14d, R14f): completion only after the command, the post-execution checks and the chmod succeeded; a non-nil execution error ends in a non-zero exit; the command runs under the target's timeout; every output check runs; outputs are verified before success",
	ids: []string{"R05a", "R05d", "R14c", "R14d", "R14f"},
	run: func(sub *Check) {
		ruleR05a(sub, "R05a")
		ruleR05d(sub, "R05d")
		ruleR14c(sub, "R14c")
		ruleR14d(sub, "R14d")
		ruleR14f(sub, "R14f")
	},
}

// useFamily files every obligation of the family under newID.
func useFamily(c *Check, newID string, f family, min int) {
	c.Rule(newID, f.doc, min)
	sub := newSubCheck(c)
	f.run(sub)
	for _, o := range sub.Obls {
		i := strings.Index(o.Key, "/")
		if i < 0 {
			continue
		}
		ok := false
		for _, id := range f.ids {
			if o.Key[:i] == id {
				ok = true
			}
		}
		if !ok {
			continue
		}
		// keep the origin rule in the key so that two families' obligations never collide
		k := o.Key[:i] + ":" + o.Key[i+1:]
		refile(c, newID, k, o)
	}
}
