package rules

import (
	"fmt"
	"go/constant"
	"go/token"
	"go/types"
	"sort"
	"strconv"
	"strings"

	"golang.org/x/tools/go/ssa"

	"grogverif/engine"
)

func init() { register("C09", runC09) }

func runC09(c *Check, tier string) {
	c.Decides = "canonicity of the key as a property of the hashed byte stream: (order) every collection is sorted before it is joined or written element-wise to a hasher, map-ordered slices are sorted before use, hashed protobuf bytes are marshalled deterministically, adjacent-duplicate removal happens only on sorted data; (purity) no location/time/host datum reaches a hasher; (framing) per hasher instance at most one variable-length component is written unframed and joins of variable-length elements are not used as a single component; every existing input file contributes its bytes (skipped only when missing)."
	c.NotDec = "the 'only if' direction beyond the listed fields, collision resistance of the hash function, equality of keys across BUILD-file formats."
	ruleR09a(c)
	ruleKeyPurity(c, "R09b")
	ruleR09c(c, "R09c")
	// "if": states that differ in a dependency's output digest must get different keys
	ruleR02c(c, "R09d")
	// "only if": every component the statement lists is part of the key
	ruleR01a(c, "R09e")
	ruleR09f(c, "R09f")
	// dependency output digests are part of the key: they must not depend on what the cache already holds
	ruleRecordCacheIndependent(c, "R09g")
	ruleMemoKeyComplete(c, "R09h", "hashing", "output")
	ruleStarlarkDisplayFormNotStored(c, "R09i")
	ruleRecordListsFilledSequentially(c, "R09j")
	ruleRecordedOutputsComparedAsSets(c, "R09k")
	ruleExportedConfigIsKeyed(c, "R09l")
	// the resolved inputs (a key source) do not depend on where the workspace lives
	ruleGlobPatternNotComposed(c, "R09m")
	// round 7: the key is a function of the (path, content) pairs, not of the multiset of contents
	ruleContentDigestsNotSorted(c, "R09n")
	ruleRecordEntriesNotFromCompletionOrder(c, "R09o")
	ruleInputsFilteredByExclusionsOnly(c, "R09p")
	ruleScalarsNotReRendered(c, "R09q")
}

// R09f: every listed input file contributes its content — the loop that streams the input files into the
// hasher skips an entry only when the file does not exist.
func ruleR09f(c *Check, rule string) {
	c.Rule(rule, "in the loop that copies the input files into the key hasher an iteration reaches the next one without copying only on the os.IsNotExist branch (a missing file); any other kind of entry is either hashed or fails the key computation", 1)
	sinks := hasherSinks(c)
	copyIn := map[*ssa.Function][]ssa.Instruction{}
	for _, s := range sinks {
		if strings.HasPrefix(s.How, "io.Copy") && engine.InPackage(s.Call.Parent(), "hashing") {
			copyIn[s.Call.Parent()] = append(copyIn[s.Call.Parent()], s.Call)
		}
	}
	// a copy into a writer parameter that receives the hasher at a call site (a per-file helper)
	for _, cp := range c.G.CallsTo("io.Copy", "io.CopyBuffer") {
		fn := cp.Parent()
		if !engine.InPackage(fn, "hashing") || len(cp.Common().Args) < 2 {
			continue
		}
		for _, o := range engine.Origins(cp.Common().Args[0]) {
			prm, ok := o.(*ssa.Parameter)
			if !ok {
				continue
			}
			for _, cs := range c.G.CallersOf(fn) {
				for k, fp := range fn.Params {
					if fp == prm && k < len(cs.Common().Args) && isHasherValue(c, cs.Common().Args[k]) {
						dup := false
						for _, x := range copyIn[fn] {
							if x == ssa.Instruction(cp) {
								dup = true
							}
						}
						if !dup {
							copyIn[fn] = append(copyIn[fn], cp)
						}
					}
				}
			}
		}
	}
	notExist := engine.CutEdgesWhere(func(a engine.Atom) bool {
		if a.Op != "true" {
			return false
		}
		call, _ := engine.CallOf(a.V)
		if call == nil {
			return false
		}
		n := engine.CalleeName(call)
		if n == "os.IsNotExist" {
			return true
		}
		if n == "errors.Is" && len(call.Common().Args) == 2 {
			return strings.Contains(call.Common().Args[1].String(), "ErrNotExist") || strings.Contains(fmt.Sprint(engine.Origins(call.Common().Args[1])), "ErrNotExist")
		}
		return false
	})
	isIn := func(list []ssa.Instruction) func(ssa.Instruction) bool {
		return func(in ssa.Instruction) bool {
			for _, x := range list {
				if x == in {
					return true
				}
			}
			return false
		}
	}
	// helpers that copy one file: every path to a nil return copies, or took the not-exist branch
	alwaysCopies := map[*ssa.Function]bool{}
	for h, list := range copyIn {
		if skip, _ := engine.PathExists(h, nil, successReturn, engine.PathQuery{CutInstr: isIn(list), CutEdge: notExist, Shallow: true}); !skip {
			alwaysCopies[h] = true
		}
	}
	n := 0
	for _, fn := range c.P.Funcs {
		if !engine.InPackage(fn, "hashing") {
			continue
		}
		var sites []ssa.Instruction
		sites = append(sites, copyIn[fn]...)
		for _, s := range engine.SitesIn(fn) {
			if call, ok := s.(*ssa.Call); ok {
				if h := call.Call.StaticCallee(); h != nil && h != fn && alwaysCopies[h] {
					sites = append(sites, s)
				}
			}
		}
		for _, st := range sites {
			lp := engine.LoopOf(st)
			if lp == nil {
				continue
			}
			n++
			key := "every-input-hashed/" + c.P.FuncName(fn)
			if !lp.IsFullRange() {
				c.Bad(rule, key, "the input files are not visited in a full range", c.P.InstrPos(st))
				continue
			}
			skip := lp.IterationCanSkip(isIn(sites), notExist)
			c.Require(!skip, rule, key, "an input is skipped only when it does not exist", "an iteration over the input files can go on to the next file without hashing this one although it exists (a `continue` other than the not-exist case): editing such an input — e.g. one reached through a symlink — leaves the key unchanged and the stale result is served", c.P.InstrPos(st))
		}
	}
	if n == 0 {
		c.Unknown(rule, "every-input-hashed", "no loop that copies files into a hasher found in internal/hashing", "-")
	}
}

var sortFuncs = map[string]bool{
	"sort.Strings": true, "sort.Sort": true, "sort.Stable": true, "sort.Slice": true, "sort.SliceStable": true, "sort.Ints": true,
	"slices.Sort": true, "slices.SortFunc": true, "slices.SortStableFunc": true,
}

// hashComposing: functions reachable from the key/digest composers.
func hashComposing(c *Check) map[*ssa.Function]bool {
	h := c.P.Type("output/handlers", "Handler")
	roots := append([]*ssa.Function{}, writersOfField(c, changeHashKey)...)
	roots = append(roots, methodImpls(c, h, "Hash")...)
	roots = append(roots, methodImpls(c, h, "Write")...)
	for _, n := range []string{"WriteOutputs", "GetNoCacheOutputHash"} {
		if f := c.P.Func("output", "Registry", n); f != nil {
			roots = append(roots, f)
		}
	}
	return c.G.ReachableFuncs(roots, nil)
}

func sameSlice(a, b ssa.Value) bool {
	if sameVar(a, b) {
		return true
	}
	ra, rb := sliceRoots(a), sliceRoots(b)
	for x := range ra {
		if rb[x] {
			return true
		}
	}
	return false
}

func sliceRoots(v ssa.Value) map[ssa.Value]bool {
	out := map[ssa.Value]bool{}
	var walk func(v ssa.Value, d int)
	walk = func(v ssa.Value, d int) {
		if v == nil || out[v] || d > 10 {
			return
		}
		out[v] = true
		switch x := v.(type) {
		case *ssa.Phi:
			for _, e := range x.Edges {
				walk(e, d+1)
			}
		case *ssa.ChangeType:
			walk(x.X, d+1)
		case *ssa.Convert:
			walk(x.X, d+1)
		case *ssa.MakeInterface:
			walk(x.X, d+1)
		case *ssa.Slice:
			walk(x.X, d+1)
		case *ssa.Call:
			if b, ok := x.Call.Value.(*ssa.Builtin); ok && b.Name() == "append" {
				walk(x.Call.Args[0], d+1)
			}
		case *ssa.UnOp:
			// loads of one cell denote the same variable
			out[x.X] = true
		}
	}
	walk(v, 0)
	return out
}

// sortsParamFirst: fn passes its idx-th parameter to a sort function before any other use.
func sortsParamFirst(c *Check, fn *ssa.Function, idx int) bool {
	if fn == nil || idx >= len(fn.Params) || len(fn.Blocks) == 0 {
		return false
	}
	p := fn.Params[idx]
	for _, s := range engine.SitesIn(fn) {
		if sortFuncs[engine.CalleeName(s)] && len(s.Common().Args) > 0 && sameSlice(s.Common().Args[0], p) {
			// no other use of p reachable before the sort
			other := func(in ssa.Instruction) bool {
				if in == ssa.Instruction(s) {
					return false
				}
				for _, op := range in.Operands(nil) {
					if *op == ssa.Value(p) {
						if call, ok := in.(*ssa.Call); ok {
							if b, ok := call.Call.Value.(*ssa.Builtin); ok && b.Name() == "len" {
								return false
							}
						}
						if _, isMI := in.(*ssa.MakeInterface); isMI {
							return false
						}
						if _, isCT := in.(*ssa.ChangeType); isCT {
							return false
						}
						return true
					}
				}
				return false
			}
			if reach, _ := engine.PathExists(fn, nil, other, engine.PathQuery{CutInstr: engine.IsInstr(s)}); !reach {
				return true
			}
		}
	}
	return false
}

// sortedBefore: slice v was sorted in fn on every path to `at`.
func sortedBefore(c *Check, fn *ssa.Function, v ssa.Value, at ssa.Instruction) bool {
	for _, s := range engine.SitesIn(fn) {
		args := s.Common().Args
		if len(args) == 0 {
			continue
		}
		isSort := sortFuncs[engine.CalleeName(s)] && sameSlice(args[0], v)
		if !isSort {
			for _, cal := range c.G.Callees[s] {
				for i, a := range args {
					if sameSlice(a, v) && sortsParamFirst(c, cal, i) {
						isSort = true
					}
				}
			}
		}
		if !isSort || s == at {
			continue
		}
		if reach, _ := engine.PathExists(fn, nil, engine.IsInstr(at), engine.PathQuery{CutInstr: engine.IsInstr(s)}); !reach {
			return true
		}
	}
	return false
}

// literalOrderSlice: the slice is a composite literal of this function, or appends of such literals —
// the order of its elements does not depend on any input.
func literalOrderSlice(v ssa.Value, depth int) bool {
	if depth > 6 {
		return false
	}
	orig := engine.Origins(v)
	if len(orig) == 0 {
		return false
	}
	for _, o := range orig {
		switch x := o.(type) {
		case *ssa.Slice:
			if _, ok := x.X.(*ssa.Alloc); !ok {
				return false
			}
		case *ssa.Call:
			b, ok := x.Call.Value.(*ssa.Builtin)
			if !ok {
				// the result of a first-party helper all of whose returns are literal-order slices
				h := x.Call.StaticCallee()
				if h == nil || len(h.Blocks) == 0 || h.Signature.Results().Len() != 1 {
					return false
				}
				for _, r := range engine.Returns(h) {
					if r.Block() == h.Recover {
						continue
					}
					if len(r.Results) != 1 || !literalOrderSlice(r.Results[0], depth+1) {
						return false
					}
				}
				continue
			}
			if b.Name() != "append" || len(x.Call.Args) != 2 {
				return false
			}
			if !literalOrderSlice(x.Call.Args[0], depth+1) || !literalOrderSlice(x.Call.Args[1], depth+1) {
				return false
			}
		case *ssa.Parameter:
			// the slice is handed in: every caller has to pass a literal-order slice
			if literalCallers == nil {
				return false
			}
			fn := x.Parent()
			idx := -1
			for i, q := range fn.Params {
				if q == x {
					idx = i
				}
			}
			callers := literalCallers(fn)
			if idx < 0 || len(callers) == 0 {
				return false
			}
			for _, cs := range callers {
				args := cs.Common().Args
				if cs.Common().IsInvoke() || idx >= len(args) || !literalOrderSlice(args[idx], depth+1) {
					return false
				}
			}
		default:
			// the result of a first-party helper all of whose returns are literal-order slices
			call, ri := engine.CallOf(o)
			if call == nil {
				return false
			}
			h := call.Common().StaticCallee()
			if h == nil || len(h.Blocks) == 0 {
				return false
			}
			for _, r := range engine.Returns(h) {
				if r.Block() == h.Recover {
					continue
				}
				if ri >= len(r.Results) || !literalOrderSlice(r.Results[ri], depth+1) {
					return false
				}
			}
		}
	}
	return true
}

// literalCallers gives the call sites of a function (set by the rule that uses literalOrderSlice).
var literalCallers func(fn *ssa.Function) []ssa.CallInstruction

func ruleR09a(c *Check) {
	literalCallers = func(fn *ssa.Function) []ssa.CallInstruction { return c.G.CallersOf(fn) }
	c.Rule("R09a", "in the hash-composing functions: a strings.Join whose result is hashed takes a slice sorted before it on every path; a hasher write inside a loop ranges over a slice sorted before the loop (never directly over a map); a slice filled while ranging over a map is sorted before any other use; protobuf bytes that are hashed come from MarshalOptions{Deterministic:true}; slices.Compact is only applied to sorted data", 7)
	comp := hashComposing(c)
	sinks := hasherSinks(c)
	sinkBack := func(fn *ssa.Function) *engine.Reach {
		var nodes []Node
		for _, s := range sinks {
			if s.Call.Parent() == fn {
				nodes = append(nodes, s.Val)
			}
		}
		// values handed to hashing helpers and returned (the callers hash them)
		for _, s := range engine.SitesIn(fn) {
			for _, cal := range c.G.Callees[s] {
				if engine.InPackage(cal, "hashing") && cal.Signature.Recv() == nil {
					for _, a := range s.Common().Args {
						nodes = append(nodes, a)
					}
				}
			}
		}
		if engine.InPackage(fn, "hashing") {
			for _, r := range engine.Returns(fn) {
				for _, v := range r.Results {
					if v.Type().String() == "string" {
						nodes = append(nodes, v)
					}
				}
			}
		}
		return c.G.Backward(nodes, localTo(fn))
	}
	var fns []*ssa.Function
	for fn := range comp {
		fns = append(fns, fn)
	}
	sort.Slice(fns, func(i, j int) bool { return c.P.FuncName(fns[i]) < c.P.FuncName(fns[j]) })
	for _, fn := range fns {
		if !(engine.InPackage(fn, "hashing") || engine.InPackage(fn, "output")) {
			continue
		}
		fname := c.P.FuncName(fn)
		back := sinkBack(fn)
		// (i) joins that are hashed
		for _, j := range callsNamed(fn, "strings.Join") {
			if !back.Has(j.Value()) {
				continue
			}
			ok := sortedBefore(c, fn, j.Common().Args[0], j)
			c.Require(ok, "R09a", "join-sorted/"+fname, "the joined slice is sorted on every path before strings.Join", "a slice is joined and hashed without being sorted first: the key depends on declaration/completion order", c.P.InstrPos(j))
		}
		// (ii) hasher writes inside loops
		for _, s := range sinks {
			if s.Call.Parent() != fn {
				continue
			}
			lp := engine.LoopOf(s.Call)
			if lp == nil {
				continue
			}
			key := "loop-write-sorted/" + fname
			r := lp.RangedValue()
			if r == nil {
				c.Unknown("R09a", key, "hasher write in a loop that is not a recognised full range", c.P.InstrPos(s.Call))
				continue
			}
			if _, isMap := r.Type().Underlying().(interface{ Key() interface{} }); isMap {
			}
			if strings.HasPrefix(r.Type().Underlying().String(), "map[") {
				c.Bad("R09a", key, "a hasher is written while ranging directly over a map: the key depends on map iteration order", c.P.InstrPos(s.Call))
				continue
			}
			ok := sortedBefore(c, fn, r, lp.Header.Instrs[len(lp.Header.Instrs)-1])
			if !ok && literalOrderSlice(r, 0) {
				c.OK("R09a", key, "the slice ranged over is built from slice literals in this function: its order is fixed by the program text", c.P.InstrPos(s.Call))
				continue
			}
			c.Require(ok, "R09a", key, "the slice ranged over while writing to the hasher is sorted before the loop", "elements are written to the hasher in the slice's incoming order (declaration order, or completion order of concurrent tasks) without sorting: equal states get different keys", c.P.InstrPos(s.Call))
		}
		// (iii) map-ordered slices
		for _, b := range fn.Blocks {
			for _, in := range b.Instrs {
				call, ok := in.(*ssa.Call)
				if !ok {
					continue
				}
				bi, ok := call.Call.Value.(*ssa.Builtin)
				if !ok || bi.Name() != "append" {
					continue
				}
				lp := engine.LoopOf(call)
				if lp == nil || lp.RangedValue() == nil || !strings.HasPrefix(lp.RangedValue().Type().Underlying().String(), "map[") {
					continue
				}
				// element derives from the map iteration?
				fromMap := false
				eb := c.G.Backward([]Node{call.Call.Args[len(call.Call.Args)-1]}, localTo(fn))
				for n := range eb.Parent {
					if _, isNext := n.(*ssa.Next); isNext {
						fromMap = true
					}
				}
				if !fromMap {
					continue
				}
				key := "map-ordered-slice-sorted/" + fname
				// every consuming use after the loop must come after a sort
				bad := ""
				for _, ub := range fn.Blocks {
					if lp.Body[ub] {
						continue
					}
					for _, use := range ub.Instrs {
						if !usesSlice(use, call) {
							continue
						}
						if s, ok := use.(ssa.CallInstruction); ok {
							if sortFuncs[engine.CalleeName(s)] {
								continue
							}
							if b2, ok := s.Common().Value.(*ssa.Builtin); ok && (b2.Name() == "len" || b2.Name() == "cap") {
								continue
							}
							sorter := false
							for _, cal := range c.G.Callees[s] {
								for i, a := range s.Common().Args {
									if sameSlice(a, call) && sortsParamFirst(c, cal, i) {
										sorter = true
									}
								}
							}
							if sorter {
								continue
							}
						}
						switch use.(type) {
						case *ssa.Phi, *ssa.ChangeType, *ssa.MakeInterface, *ssa.Convert:
							continue
						}
						if !sortedBefore(c, fn, call, use) {
							bad = "used at " + c.P.InstrPos(use) + " without a preceding sort"
						}
					}
				}
				c.Require(bad == "", "R09a", key, "the slice filled from a map iteration is sorted before it is consumed", "a slice filled in map-iteration order is "+bad+": the result depends on map iteration order", c.P.InstrPos(call))
			}
		}
	}
	// (iv) deterministic marshalling: every protobuf serialisation (in the output / hashing packages) whose
	// bytes reach a hasher — in the same function or through returns and arguments — uses Deterministic: true
	sinkVals := map[Node]bool{}
	for _, s := range sinks {
		sinkVals[s.Val] = true
	}
	inHashPkgs := func(e *engine.Edge) bool {
		if e.Via == nil {
			return true
		}
		f := e.Via.Parent()
		return engine.InPackage(f, "hashing") || engine.InPackage(f, "output")
	}
	for _, s := range c.G.Sites {
		fn := s.Parent()
		if !(engine.InPackage(fn, "hashing") || engine.InPackage(fn, "output")) {
			continue
		}
		name := engine.CalleeName(s)
		if !strings.HasSuffix(name, "proto.Marshal") && !strings.HasSuffix(name, "proto.MarshalOptions).Marshal") {
			continue
		}
		v := s.Value()
		if v == nil {
			continue
		}
		src := []Node{v}
		for _, r := range *v.Referrers() {
			if ex, ok := r.(*ssa.Extract); ok && ex.Index == 0 {
				src = append(src, ex)
			}
		}
		fwd := c.G.Forward(src, inHashPkgs)
		hashed := false
		for n := range sinkVals {
			if fwd.Has(n) {
				hashed = true
			}
		}
		if !hashed {
			continue
		}
		ok := false
		if strings.HasSuffix(name, "MarshalOptions).Marshal") {
			ok = deterministicOptions(s.Common().Args[0])
		}
		c.Require(ok, "R09a", "deterministic-marshal/"+c.P.FuncName(fn), "the hashed protobuf bytes come from MarshalOptions{Deterministic: true}", "protobuf bytes are hashed without deterministic marshalling (map fields would serialise in random order)", c.P.InstrPos(s))
	}
	// (v) Compact only on sorted data (anywhere in first-party code that feeds targets)
	for _, s := range c.G.CallsTo("slices.Compact", "slices.CompactFunc") {
		fn := s.Parent()
		ok := sortedBefore(c, fn, s.Common().Args[0], s)
		c.Require(ok, "R09a", "compact-after-sort/"+c.P.FuncName(fn), "adjacent-duplicate removal is applied to a sorted slice", "slices.Compact is applied to an unsorted slice: which duplicates survive depends on declaration order, so equal input sets produce different lists (and keys)", c.P.InstrPos(s))
	}
}

func usesSlice(in ssa.Instruction, app *ssa.Call) bool {
	roots := sliceRoots(app)
	for _, op := range in.Operands(nil) {
		if *op == nil {
			continue
		}
		if roots[*op] {
			return true
		}
		// phi webs: the value after the loop is the loop phi
		if phi, ok := (*op).(*ssa.Phi); ok {
			for _, e := range phi.Edges {
				if e == ssa.Value(app) {
					return true
				}
			}
		}
	}
	return false
}

// deterministicOptions: v is a proto.MarshalOptions literal with Deterministic: true.
func deterministicOptions(v ssa.Value) bool {
	for _, o := range []ssa.Value{v} {
		ld, ok := o.(*ssa.UnOp)
		if !ok {
			return false
		}
		al, ok := ld.X.(*ssa.Alloc)
		if !ok {
			return false
		}
		det := false
		for _, r := range *al.Referrers() {
			fa, ok := r.(*ssa.FieldAddr)
			if !ok || engine.FieldKeyOf(fa.X.Type(), fa.Field).F != "Deterministic" {
				continue
			}
			for _, rr := range *fa.Referrers() {
				if st, ok := rr.(*ssa.Store); ok {
					if k, ok := engine.BoolConst(st.Val); ok && k {
						det = true
					}
				}
			}
		}
		if !det {
			return false
		}
	}
	return true
}

// ---------------------------------------------------------------------------
// R09c: injective framing of each hasher's byte stream.

type component struct {
	Sink  HasherSink
	Class string // FIXED, VAR
	Loop  bool
	Why   string
}

// classifyHashed: FIXED when every leaf the value derives from is a constant or a
// digest (result of the hashing package / SumString / a handler's Hash), else VAR.
// Parameters are classified through their call sites (two levels).
func classifyHashed(c *Check, fn *ssa.Function, v ssa.Value) (string, string) {
	why := ""
	seen := map[ssa.Value]bool{}
	var walk func(v ssa.Value, depth int)
	walk = func(v ssa.Value, depth int) {
		if v == nil || seen[v] || why != "" {
			return
		}
		seen[v] = true
		switch x := v.(type) {
		case *ssa.Const:
		case *ssa.Call:
			if isDigestProducer(c, x) {
				return
			}
			if b, ok := x.Call.Value.(*ssa.Builtin); ok {
				if b.Name() == "append" {
					for _, a := range x.Call.Args {
						walk(a, depth)
					}
				}
				return
			}
			name := engine.CalleeName(x)
			if len(c.G.Callees[x]) > 0 || strings.HasPrefix(name, "fmt.Sprint") || strings.HasPrefix(name, "strings.") || strings.HasPrefix(name, "strconv.") {
				for _, a := range x.Call.Args {
					walk(a, depth)
				}
				if x.Call.IsInvoke() {
					walk(x.Call.Value, depth)
				}
				return
			}
			why = "result of " + name
		case *ssa.Extract:
			walk(x.Tuple, depth)
		case *ssa.Phi:
			for _, e := range x.Edges {
				walk(e, depth)
			}
		case *ssa.Convert:
			walk(x.X, depth)
		case *ssa.ChangeType:
			walk(x.X, depth)
		case *ssa.MakeInterface:
			walk(x.X, depth)
		case *ssa.ChangeInterface:
			walk(x.X, depth)
		case *ssa.Slice:
			walk(x.X, depth)
		case *ssa.IndexAddr:
			walk(x.X, depth)
		case *ssa.Index:
			walk(x.X, depth)
		case *ssa.Lookup:
			walk(x.X, depth)
		case *ssa.BinOp:
			walk(x.X, depth)
			walk(x.Y, depth)
		case *ssa.Range:
			walk(x.X, depth)
		case *ssa.Next:
			walk(x.Iter, depth)
		case *ssa.MakeSlice, *ssa.MakeMap:
			// contents arrive through stores; find them
			for _, r := range *v.Referrers() {
				if ia, ok := r.(*ssa.IndexAddr); ok {
					for _, rr := range *ia.Referrers() {
						if st, ok := rr.(*ssa.Store); ok {
							walk(st.Val, depth)
						}
					}
				}
				if mu, ok := r.(*ssa.MapUpdate); ok {
					walk(mu.Key, depth)
					walk(mu.Value, depth)
				}
			}
		case *ssa.Alloc:
			for _, r := range *x.Referrers() {
				switch y := r.(type) {
				case *ssa.Store:
					if y.Addr == ssa.Value(x) {
						walk(y.Val, depth)
					}
				case *ssa.IndexAddr:
					for _, rr := range *y.Referrers() {
						if st, ok := rr.(*ssa.Store); ok {
							walk(st.Val, depth)
						}
					}
				}
			}
		case *ssa.UnOp:
			if x.Op.String() != "*" {
				walk(x.X, depth)
				return
			}
			switch a := x.X.(type) {
			case *ssa.FieldAddr:
				why = "field " + engine.FieldKeyOf(a.X.Type(), a.Field).String()
			case *ssa.Alloc:
				walk(a, depth)
			case *ssa.IndexAddr:
				walk(a.X, depth)
			case *ssa.FreeVar:
				why = "captured variable " + a.Name()
			default:
				walk(x.X, depth)
			}
		case *ssa.Field:
			why = "field " + engine.FieldKeyOf(x.X.Type(), x.Field).String()
		case *ssa.Parameter:
			pf := x.Parent()
			idx := -1
			for i, p := range pf.Params {
				if p == x {
					idx = i
				}
			}
			callers := c.G.CallersOf(pf)
			if depth >= 2 || idx < 0 || len(callers) == 0 {
				why = "parameter " + x.Name() + " of " + c.P.FuncName(pf)
				return
			}
			for _, cs := range callers {
				args := cs.Common().Args
				if cs.Common().IsInvoke() {
					args = append([]ssa.Value{cs.Common().Value}, args...)
				}
				if len(args) != len(pf.Params) {
					why = "parameter " + x.Name()
					return
				}
				walk(args[idx], depth+1)
			}
		case *ssa.FreeVar:
			why = "captured variable " + x.Name()
		case *ssa.Global:
			why = "global " + x.Name()
		default:
			why = "value " + v.Name()
		}
	}
	walk(v, 0)
	if why == "" {
		return "FIXED", ""
	}
	return "VAR", why
}

func isDigestProducer(c *Check, call ssa.CallInstruction) bool {
	if call.Common().IsInvoke() && call.Common().Method.Name() == "SumString" {
		return true
	}
	// handlers.Handler.Hash returns a digest by contract (docker: an image id "sha256:<hex>", which contains no ',')
	if call.Common().IsInvoke() && call.Common().Method.Name() == "Hash" && engine.TypeKey(call.Common().Value.Type()) == "output/handlers.Handler" {
		return true
	}
	for _, cal := range c.G.Callees[call] {
		if engine.InPackage(cal, "hashing") && cal.Signature.Recv() == nil && strings.HasPrefix(cal.Name(), "Hash") {
			return true
		}
	}
	return false
}

func ruleR09c(c *Check, rule string) {
	c.Rule(rule, "per hasher instance: the written components are classified FIXED (constants, digests) or VAR (anything else); the stream is injective iff at most one VAR component is written and not in a loop; a strings.Join / Sprintf that glues several VAR parts into one hashed component loses the element boundaries", 7)
	comp := hashComposing(c)
	sinks := hasherSinks(c)
	// group by hasher instance (the GetHasher() call, or the parameter, in one function)
	type inst struct {
		fn  *ssa.Function
		key string
	}
	groups := map[inst][]HasherSink{}
	for _, s := range sinks {
		fn := s.Call.Parent()
		if !comp[fn] {
			continue
		}
		id := "?"
		for _, o := range engine.Origins(s.Hasher) {
			if o != nil {
				id = o.Name()
			}
		}
		groups[inst{fn, id}] = append(groups[inst{fn, id}], s)
	}
	var keys []inst
	for k := range groups {
		keys = append(keys, k)
	}
	sort.Slice(keys, func(i, j int) bool {
		return c.P.FuncName(keys[i].fn)+keys[i].key < c.P.FuncName(keys[j].fn)+keys[j].key
	})
	for _, k := range keys {
		fn := k.fn
		fname := c.P.FuncName(fn)
		var vars []string
		inLoop := false
		for _, s := range groups[k] {
			cls, why := classifyHashed(c, fn, s.Val)
			if strings.HasPrefix(s.How, "io.Copy") {
				cls, why = "VAR", "stream contents"
			}
			if cls == "VAR" {
				if framedByLength(c, fn, s, groups[k]) {
					continue
				}
				vars = append(vars, why+" ("+c.P.InstrPos(s.Call)+")")
				if engine.InLoop(s.Call) {
					inLoop = true
				}
			}
		}
		key := "stream-framing/" + fname
		switch {
		case len(vars) == 0:
			c.OK(rule, key, fmt.Sprintf("%d components, all fixed-length (constants or digests)", len(groups[k])), c.P.InstrPos(groups[k][0].Call))
		case len(vars) == 1 && !inLoop:
			c.OK(rule, key, "a single variable-length component: "+vars[0], c.P.InstrPos(groups[k][0].Call))
		default:
			loopNote := ""
			if inLoop {
				loopNote = " (one of them once per loop iteration)"
			}
			c.Bad(rule, key, fmt.Sprintf("%d variable-length component(s)%s are written back-to-back without length prefix or separator (%s): bytes can move between adjacent components without changing the stream, so different states share a key", len(vars), loopNote, strings.Join(vars, "; ")), c.P.InstrPos(groups[k][0].Call))
		}
	}
	// joins / formats of several VAR parts whose result is hashed as one component
	for fn := range comp {
		if !engine.InPackage(fn, "hashing") {
			continue
		}
		fname := c.P.FuncName(fn)
		if fn.Signature.Recv() != nil {
			continue // the hasher implementations format fixed-width sums
		}
		var retOrSink []Node
		for _, r := range engine.Returns(fn) {
			for _, v := range r.Results {
				if v.Type().String() == "string" {
					retOrSink = append(retOrSink, v)
				}
			}
		}
		for _, s := range sinks {
			if s.Call.Parent() == fn {
				retOrSink = append(retOrSink, s.Val)
			}
		}
		for _, s := range engine.SitesIn(fn) {
			for _, cal := range c.G.Callees[s] {
				if engine.InPackage(cal, "hashing") {
					for _, a := range s.Common().Args {
						retOrSink = append(retOrSink, a)
					}
				}
			}
		}
		back := c.G.Backward(retOrSink, localTo(fn))
		for _, j := range callsNamed(fn, "strings.Join") {
			if !back.Has(j.Value()) {
				continue
			}
			cls, why := classifyHashed(c, fn, j.Common().Args[0])
			sep := ""
			if k, ok := j.Common().Args[1].(*ssa.Const); ok && k.Value != nil && k.Value.Kind() == constant.String {
				sep = constant.StringVal(k.Value)
			}
			key := "join-framing/" + fname
			if cls == "FIXED" {
				c.OK(rule, key, "joined elements are fixed-length digests", c.P.InstrPos(j))
			} else {
				c.Bad(rule, key, fmt.Sprintf("variable-length elements (%s) are joined with %q, which the elements themselves may contain: [\"a%sb\"] and [\"a\",\"b\"] give the same hashed string", why, sep, sep), c.P.InstrPos(j))
			}
		}
		for _, f := range callsNamed(fn, "fmt.Sprintf") {
			if !back.Has(f.Value()) {
				continue
			}
			// count VAR arguments
			nvar := 0
			var why string
			if len(f.Common().Args) == 2 {
				if sl, ok := f.Common().Args[1].(*ssa.Slice); ok {
					if al, ok := sl.X.(*ssa.Alloc); ok {
						for _, r := range *al.Referrers() {
							if ia, ok := r.(*ssa.IndexAddr); ok {
								for _, rr := range *ia.Referrers() {
									if st, ok := rr.(*ssa.Store); ok {
										if cls, w := classifyHashed(c, fn, st.Val); cls == "VAR" {
											nvar++
											why = w
										}
									}
								}
							}
						}
					}
				}
			}
			key := "format-framing/" + fname
			if nvar >= 2 {
				c.Bad(rule, key, fmt.Sprintf("%d variable-length values (e.g. %s) are formatted into one hashed string with a separator they may contain: key/value boundaries are ambiguous (\"a=b\"=\"c\" vs \"a\"=\"b=c\")", nvar, why), c.P.InstrPos(f))
			} else {
				c.OK(rule, key, "at most one variable-length value in the formatted component", c.P.InstrPos(f))
			}
		}
	}
}

// framedByLength: the write immediately before this one (same block) hashes len(x) of the same value.
func framedByLength(c *Check, fn *ssa.Function, s HasherSink, all []HasherSink) bool {
	for _, p := range all {
		if p.Call.Block() != s.Call.Block() || p.Call.Pos() >= s.Call.Pos() {
			continue
		}
		back := c.G.Backward([]Node{p.Val}, localTo(fn))
		for n := range back.Parent {
			if call, ok := n.(*ssa.Call); ok {
				if b, ok := call.Call.Value.(*ssa.Builtin); ok && b.Name() == "len" {
					if sameVar(call.Call.Args[0], s.Val) || engine.ExprKey(call.Call.Args[0]) == engine.ExprKey(s.Val) {
						return true
					}
				}
			}
		}
	}
	return false
}

// R09i: BUILD-file format independence. A Starlark value reaches the target description through the Go
// conversions (string(v), AsString, Int64, Truth …). Value.String() is the *display* form — a quoted, escaped
// literal for strings — so a description built from it differs from what the JSON/YAML loaders produce for the
// same text, and with it the cache key.
func ruleStarlarkDisplayFormNotStored(c *Check, rule string) {
	c.Rule(rule, "no result of String() called on a go.starlark.net value flows (value-flow graph) into a field of the loader DTOs or of the model: the display form of a Starlark string is a quoted, escaped literal", 1)
	n, bad := 0, 0
	for _, fn := range c.P.Funcs {
		if !engine.InPackage(fn, "loading") {
			continue
		}
		for _, s := range engine.SitesIn(fn) {
			cc := s.Common()
			var recv types.Type
			switch {
			case cc.IsInvoke() && cc.Method.Name() == "String":
				recv = cc.Value.Type()
			case cc.StaticCallee() != nil && cc.StaticCallee().Name() == "String" && cc.StaticCallee().Signature.Recv() != nil:
				recv = cc.StaticCallee().Signature.Recv().Type()
			default:
				continue
			}
			if !strings.Contains(recv.String(), "go.starlark.net/") || s.Value() == nil {
				continue
			}
			n++
			fwd := c.G.Forward([]Node{s.Value()}, nil)
			var hit []string
			for node := range fwd.Parent {
				if k, ok := node.(engine.FieldKey); ok && (strings.HasPrefix(k.T, "loading.") && strings.HasSuffix(k.T, "DTO") || strings.HasPrefix(k.T, "model.")) {
					hit = append(hit, k.String())
				}
			}
			if len(hit) > 0 {
				bad++
				sort.Strings(hit)
				c.Bad(rule, "display-form-not-stored/"+c.P.FuncName(fn), "the display form of a Starlark value ("+engine.CalleeName(s)+") flows into "+strings.Join(hit, ", ")+": a string containing a quote, backslash or newline arrives escaped, so the same target state loaded from BUILD.star and from BUILD.json gets different descriptions and cache keys", c.P.InstrPos(s))
			}
		}
	}
	if bad == 0 {
		c.OK(rule, "display-form-not-stored", strconv.Itoa(n)+" String() calls on Starlark values in internal/loading: none flows into a DTO or model field", "-")
	}
}

// R09j: the order of the lists inside a persisted record (files, sub-directories, symlinks of a directory
// node …) is part of its digest. Entries appended from goroutines arrive in completion order; a later sort only
// repairs that when its key is unique, which the shape of the code cannot show — so records are filled
// sequentially.
func ruleRecordListsFilledSequentially(c *Check, rule string) {
	c.Rule(rule, "no function started as a goroutine (go statement, pool Submit, errgroup Go) stores into a slice field of a persisted record type (proto/gen): list order inside a record, and with it the record's digest, does not depend on the schedule", 1)
	spawned := map[*ssa.Function]bool{}
	sites := 0
	for _, fn := range c.P.Funcs {
		for _, s := range engine.SitesIn(fn) {
			for _, f := range spawnedAt(c, s) {
				spawned[f] = true
				sites++
			}
		}
	}
	bad := 0
	for fn := range spawned {
		if !(engine.InPackage(fn, "output") || engine.InPackage(fn, "caching") || engine.InPackage(fn, "hashing")) {
			continue
		}
		for _, b := range fn.Blocks {
			for _, in := range b.Instrs {
				st, ok := in.(*ssa.Store)
				if !ok {
					continue
				}
				fa, ok := st.Addr.(*ssa.FieldAddr)
				if !ok {
					continue
				}
				k := engine.FieldKeyOf(fa.X.Type(), fa.Field)
				if !strings.HasPrefix(k.T, "proto/gen.") {
					continue
				}
				if _, isSlice := st.Val.Type().Underlying().(*types.Slice); !isSlice {
					continue
				}
				bad++
				c.Bad(rule, "record-lists-sequential/"+c.P.FuncName(fn), k.String()+" is appended to from a goroutine: the entries are recorded in completion order, so the digest of the record (and every cache key derived from it) differs from run to run for the same content", c.P.InstrPos(st))
			}
		}
	}
	// the same for a hasher shared by goroutines: what is written into it in completion order is hashed in
	// completion order (a mutex makes the writes safe, not ordered)
	for _, hs := range hasherSinks(c) {
		fn := hs.Call.Parent()
		if !spawned[fn] {
			continue
		}
		shared := false
		for _, o := range engine.Origins(hs.Hasher) {
			switch x := o.(type) {
			case *ssa.FreeVar:
				shared = true
			case *ssa.UnOp:
				if _, ok := x.X.(*ssa.FreeVar); ok {
					shared = true
				}
			}
		}
		if !shared {
			continue
		}
		bad++
		c.Bad(rule, "shared-hasher-written-sequentially/"+c.P.FuncName(fn), "a hasher captured from the enclosing function is written from a goroutine body: the parts enter the digest in completion order, so the same state hashes differently from build to build (an unchanged target misses the cache, or its dependants do)", c.P.InstrPos(hs.Call))
	}
	if bad == 0 {
		c.OK(rule, "record-lists-sequential", "none of the "+strconv.Itoa(len(spawned))+" goroutine bodies stores into a list field of a persisted record or writes into a hasher it shares with others", "-")
	}
}

// R09k (also R02n): where the outputs recorded in a stored target result are compared with the declared ones the
// comparison does not depend on order: the result writer records outputs in the order their uploads finished.
func ruleRecordedOutputsComparedAsSets(c *Check, rule string) {
	c.Rule(rule, "every element-wise comparison (slices.Equal, or a loop comparing x[i] with y[i]) between a list derived from the stored result's outputs and the declared outputs is made on lists that were sorted before it", 1)
	outsKey := fk("proto/gen.TargetResult", "Outputs")
	// the functions that read the stored outputs, and the helpers of their package they hand the lists to
	cand := map[*ssa.Function]bool{}
	for _, fn := range c.P.Funcs {
		if !(engine.InPackage(fn, "output") || engine.InPackage(fn, "execution") || engine.InPackage(fn, "caching")) {
			continue
		}
		readsStored := readsField(c, fn, outsKey)
		for _, s := range engine.SitesIn(fn) {
			if strings.HasSuffix(engine.CalleeName(s), "gen.TargetResult).GetOutputs") {
				readsStored = true
			}
		}
		if !readsStored {
			continue
		}
		cand[fn] = true
		for _, s := range engine.SitesIn(fn) {
			if h := s.Common().StaticCallee(); h != nil && len(h.Blocks) > 0 && h.Pkg == fn.Pkg {
				for _, a := range s.Common().Args {
					if sl, ok := a.Type().Underlying().(*types.Slice); ok && isStringType(sl.Elem()) {
						cand[h] = true
					}
				}
			}
		}
	}
	n := 0
	for _, fn := range c.P.Funcs {
		if !cand[fn] {
			continue
		}
		type cmp struct {
			at   ssa.Instruction
			a, b ssa.Value
		}
		var cmps []cmp
		for _, s := range engine.SitesIn(fn) {
			if name := engine.CalleeName(s); (name == "slices.Equal" || name == "slices.EqualFunc" || name == "reflect.DeepEqual") && len(s.Common().Args) >= 2 {
				cmps = append(cmps, cmp{s, s.Common().Args[0], s.Common().Args[1]})
			}
		}
		for _, b := range fn.Blocks {
			for _, in := range b.Instrs {
				bo, ok := in.(*ssa.BinOp)
				if !ok || (bo.Op != token.NEQ && bo.Op != token.EQL) {
					continue
				}
				elem := func(v ssa.Value) ssa.Value {
					if ld, ok := v.(*ssa.UnOp); ok && ld.Op == token.MUL {
						if ia, ok := ld.X.(*ssa.IndexAddr); ok {
							if _, isSlice := ia.X.Type().Underlying().(*types.Slice); isSlice {
								return ia.X
							}
						}
					}
					return nil
				}
				if x, y := elem(bo.X), elem(bo.Y); x != nil && y != nil && !sameSlice(x, y) {
					cmps = append(cmps, cmp{bo, x, y})
				}
			}
		}
		for _, cm := range cmps {
			n++
			sortedVal := func(v ssa.Value) bool {
				if sortedBefore(c, fn, v, cm.at) {
					return true
				}
				orig := engine.Origins(v)
				if len(orig) == 0 {
					return false
				}
				for _, o := range orig {
					call, _ := engine.CallOf(o)
					if call == nil || !strings.HasPrefix(engine.CalleeName(call), "slices.Sorted") {
						return false
					}
				}
				return true // slices.Sorted / SortedFunc / SortedStableFunc return a sorted copy
			}
			ok := sortedVal(cm.a) && sortedVal(cm.b)
			c.Require(ok, rule, "recorded-outputs-compared-sorted/"+c.P.FuncName(fn), "both lists are sorted before they are compared element by element", "the outputs recorded in the stored result are compared with the declared outputs position by position without sorting both first: the writer records them in the order their uploads finished, so a multi-output target whose first output is slower to store 'mismatches' its own result and is executed again on every rebuild", c.P.InstrPos(cm.at))
		}
	}
	if n == 0 {
		c.OK(rule, "recorded-outputs-compared-sorted", "the stored result's outputs are not compared element by element anywhere", "-")
	}
}

// R09l: what the command is told about the build configuration is in its key. Fields of the workspace
// configuration that are exported into a target command's environment (GROG_OS, GROG_ARCH, GROG_PLATFORM …) can
// change what the command produces; each one must also flow into the change hash. Tabled: the workspace root (the
// key must not depend on the checkout location, R02a) and the pass-through environment variables (not part of
// the state the property lists).
func ruleExportedConfigIsKeyed(c *Check, rule string) {
	c.Rule(rule, "every field of the workspace configuration that flows into the environment of target commands also flows into the change hash (tabled exceptions: WorkspaceRoot, EnvironmentVariables)", 2)
	ex := findExec(c, rule)
	if ex == nil {
		return
	}
	// the environment of the command: stores into exec.Cmd.Env in the runner's region
	region := regionOf(c, ex.RunCommand)
	var sinks []Node
	for f := range region {
		for _, b := range f.Blocks {
			for _, in := range b.Instrs {
				if st, ok := in.(*ssa.Store); ok {
					if fa, ok := st.Addr.(*ssa.FieldAddr); ok && engine.FieldKeyOf(fa.X.Type(), fa.Field) == fk("os/exec.Cmd", "Env") {
						sinks = append(sinks, st.Val)
					}
				}
			}
		}
	}
	if len(sinks) == 0 {
		c.Unknown(rule, "exported-config-keyed", "no store into exec.Cmd.Env found in the command runner", "-")
		return
	}
	env := c.G.Backward(sinks, func(e *engine.Edge) bool { return e.Kind != engine.EField })
	all, _ := keyBackward(c)
	tabled := map[string]string{
		"WorkspaceRoot":        "the key must not depend on where the workspace is checked out",
		"EnvironmentVariables": "pass-through variables are not part of the state the property lists",
	}
	var exported []string
	for n := range env.Parent {
		if k, ok := n.(engine.FieldKey); ok && k.T == "config.WorkspaceConfig" {
			exported = append(exported, k.F)
		}
	}
	sort.Strings(exported)
	for _, f := range exported {
		key := "exported-config-keyed/" + f
		if why, ok := tabled[f]; ok {
			c.OK(rule, key, "tabled: "+why, "-")
			continue
		}
		c.Require(all.Has(fk("config.WorkspaceConfig", f)), rule, key, "the field also flows into the change hash", "WorkspaceConfig."+f+" is handed to target commands through their environment but is not part of the change hash: two builds that differ only in it (another --platform variant, say) produce different outputs under the same cache key, and the second one is served the first one's result", "-")
	}
}
