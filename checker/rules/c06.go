package rules

import (
	"fmt"
	"go/types"
	"sort"
	"strings"

	"golang.org/x/tools/go/ssa"

	"grogverif/engine"
)

func init() { register("C06", runC06) }

func runC06(c *Check, tier string) {
	c.Decides = "everything the property lists as restorable state has a field in the persisted record that the writer sets and the restorer consumes; a restore is skipped only when a hash of the local content equals the recorded digest; the directory restore removes the old tree before recreating it; files are created truncating; every restored file's mode is set from the recorded executable flag; every output kind has a handler arm; restore errors are not dropped."
	c.NotDec = "byte equality of the restored content, symlink semantics, file-over-directory states, umask."
	ruleR06a(c)
	ruleR06b(c)
	ruleR06c(c, "R06c")
	ruleR06d(c)
	ruleR06e(c)
	ruleR06f(c)
	ruleLoadPathErrors(c, "R06g")
	ruleR06h(c)
	ruleR06i(c)
	ruleR06l(c)
	// what is restored is what was stored: the store path delivers whole blobs under their own digests
	useFamily(c, "R06k", famStore, 20)
	// every restored file gets its own bytes: a stream is not shared between concurrent readers
	ruleNoSharedReaderFromSingleflight(c, "R06m")
	ruleDeferredResultNotClobbered(c, "R06n", "output", "output/handlers", "caching", "caching/backends", "execution", "loading", "locking")
	// a restore that swallows its download errors reports success with files missing
	shareRule(c, "R06j", "an error channel whose sends never block (select/default) has room for at least one error (same obligation as R04d)", 1, "R04d", func(sub *Check) { ruleR04d(sub) }, func(k string) bool { return strings.Contains(k, "output/handlers") })
	// round 7 (D29): a symlink at a file output path is replaced, not followed
	ruleFileRestoreLooksAtThePathItself(c, "R06t")
}

// R06h: the tree that is stored for a directory output has one node per directory entry.
func ruleR06h(c *Check) {
	c.Rule("R06h", "in the function that turns os.ReadDir entries into a gen.Directory every iteration of the (full-range) loop over the entries appends a file, directory or symlink node, or leaves the function with an error", 1)
	n := 0
	for _, fn := range c.P.Funcs {
		if !engine.InPackage(fn, "output/handlers") {
			continue
		}
		for _, lp := range engine.LoopsOf(fn) {
			rv := lp.RangedValue()
			if rv == nil {
				continue
			}
			fromReadDir := false
			for _, o := range engine.Origins(rv) {
				if call, _ := engine.CallOf(o); call != nil && engine.CalleeName(call) == "os.ReadDir" {
					fromReadDir = true
				}
			}
			if !fromReadDir {
				continue
			}
			var nodeAppends []ssa.Instruction
			for b := range lp.Body {
				for _, in := range b.Instrs {
					call, ok := in.(*ssa.Call)
					if !ok {
						continue
					}
					if bi, ok := call.Call.Value.(*ssa.Builtin); ok && bi.Name() == "append" {
						t := call.Type().String()
						if strings.Contains(t, "gen.FileNode") || strings.Contains(t, "gen.DirectoryNode") || strings.Contains(t, "gen.SymlinkNode") {
							nodeAppends = append(nodeAppends, call)
						}
					}
				}
			}
			if len(nodeAppends) == 0 {
				continue
			}
			n++
			key := "every-entry-recorded/" + c.P.FuncName(fn)
			if !lp.IsFullRange() {
				c.Bad("R06h", key, "the directory entries are not visited in a full range", c.P.InstrPos(nodeAppends[0]))
				continue
			}
			isNode := func(in ssa.Instruction) bool {
				for _, a := range nodeAppends {
					if a == in {
						return true
					}
				}
				return false
			}
			skip := lp.IterationCanSkip(isNode, nil)
			c.Require(!skip, "R06h", key, "every entry adds a node to the tree", "an iteration over the directory entries can go on to the next entry without recording this one in the tree (a `continue`, e.g. for a sub-directory whose digest was seen before): the entry is missing from the cached tree and silently absent after a restore", c.P.InstrPos(nodeAppends[0]))
		}
	}
	if n == 0 {
		c.Unknown("R06h", "every-entry-recorded", "no loop over os.ReadDir entries that builds tree nodes found", "-")
	}
}

// R06i: what is stored is what the user gets: the executable bit of a bin output is set before the
// outputs are handed to the cache.
func ruleR06i(c *Check) {
	c.Rule("R06i", "in the executing method (and the completion it calls) the bin output is made executable before any output-producing registry call, on every path", 1)
	ex := findExec(c, "R06i")
	if ex == nil {
		return
	}
	// the chmod helper: a function of internal/execution that chmods a path derived from Target.BinOutput
	var chmodFn *ssa.Function
	for _, s := range c.G.CallsTo("os.Chmod") {
		if engine.InPackage(s.Parent(), "execution") && readsFieldDeep(c, s.Parent(), fk("model.Target", "BinOutput")) {
			chmodFn = engine.TopFunc(s.Parent())
		}
	}
	if chmodFn == nil {
		c.Unknown("R06i", "anchor/bin-output-chmod", "anchor-unresolved: no function in internal/execution chmods the bin output", "-")
		return
	}
	reg := c.P.Type("output", "Registry")
	isProducer := func(in ssa.Instruction) bool {
		s, ok := in.(ssa.CallInstruction)
		if !ok {
			return false
		}
		sig := s.Common().Signature()
		return sig.Results().Len() == 2 && engine.TypeKey(sig.Results().At(0).Type()) == "proto/gen.TargetResult" && sig.Recv() != nil && reg != nil && engine.TypeKey(sig.Recv().Type()) == "output.Registry"
	}
	isChmod := func(in ssa.Instruction) bool {
		s, ok := in.(ssa.CallInstruction)
		if !ok {
			return false
		}
		for _, f := range c.G.CalleesOf(s) {
			if f == chmodFn {
				return true
			}
		}
		return false
	}
	reach, at := engine.PathExists(ex.ExecMethod, nil, isProducer, engine.PathQuery{DeepTo: true, CutInstr: isChmod})
	pos := c.P.Pos(ex.ExecMethod.Pos())
	if at != nil {
		pos = c.P.InstrPos(at)
	}
	c.Require(!reach, "R06i", "chmod-before-outputs-stored/"+c.P.FuncName(ex.ExecMethod), "every path to an output-producing call passes "+c.P.FuncName(chmodFn), "the outputs can be stored before the bin output was made executable: the cache records the file as non-executable and a restore into a fresh workspace yields a tool that cannot be run", pos)
}

func handlerFuncs(c *Check, method string) (impls []*ssa.Function, reach map[*ssa.Function]bool) {
	h := c.P.Type("output/handlers", "Handler")
	impls = methodImpls(c, h, method)
	reach = c.G.ReachableFuncs(impls, nil)
	return
}

// R06a: record coverage
func ruleR06a(c *Check) {
	c.Rule("R06a", "every field of the persisted output records (FileOutput, DirectoryOutput, Tree, Directory, FileNode, DirectoryNode, SymlinkNode, Digest.Hash) is stored by code reachable from a handler Write and read by code reachable from a handler Load", 16)
	_, wreach := handlerFuncs(c, "Write")
	_, lreach := handlerFuncs(c, "Load")
	// the registry reads the paths when validating the stored result: counts as restore-side reader
	if lo := c.P.Func("output", "Registry", "LoadOutputs"); lo != nil {
		for f := range c.G.ReachableFuncs([]*ssa.Function{lo}, nil) {
			lreach[f] = true
		}
	}
	types_ := []string{"FileOutput", "DirectoryOutput", "Tree", "Directory", "FileNode", "DirectoryNode", "SymlinkNode", "Digest"}
	displayOnly := map[string]string{"proto/gen.Digest.SizeBytes": "progress display only; carries no restorable state"}
	for _, tn := range types_ {
		t := c.P.Type("proto/gen", tn)
		if t == nil {
			c.Unknown("R06a", "anchor/gen."+tn, "anchor-unresolved: message type not found", "-")
			continue
		}
		st := t.Underlying().(*types.Struct)
		for i := 0; i < st.NumFields(); i++ {
			f := st.Field(i)
			if !f.Exported() {
				continue
			}
			key := fk("proto/gen."+tn, f.Name())
			if why, ok := displayOnly[key.String()]; ok {
				c.OK("R06a", "record-field/"+key.String(), "tabled: "+why, "-")
				continue
			}
			var w, r string
			for _, e := range c.G.In[key] {
				if e.Kind == engine.EStore && e.Via != nil && wreach[e.Via.Parent()] {
					w = c.P.InstrPos(e.Via)
				}
			}
			for _, e := range c.G.Out[key] {
				if e.Kind == engine.ELoad && e.Via != nil && lreach[e.Via.Parent()] && hasRealUse(e.Via) {
					r = c.P.InstrPos(e.Via)
				}
			}
			switch {
			case w != "" && r != "":
				c.OK("R06a", "record-field/"+key.String(), "written at "+w+", read on restore at "+r, w)
			case w == "" && r == "":
				c.Bad("R06a", "record-field/"+key.String(), "the record has this field but no handler writes it and no restore reads it: the state it stands for (e.g. the executable permission of a file output) is lost across the cache", "-")
			case w == "":
				c.Bad("R06a", "record-field/"+key.String(), "restore reads this field ("+r+") but no handler Write ever sets it", r)
			default:
				c.Bad("R06a", "record-field/"+key.String(), "handlers record this field ("+w+") but no restore path consumes it: that part of the cached state is not reproduced", w)
			}
		}
	}
}

// hasRealUse: a field read whose value is used (not only a generated nil-check).
func hasRealUse(in ssa.Instruction) bool {
	v, ok := in.(ssa.Value)
	if !ok {
		return false
	}
	refs := v.Referrers()
	return refs != nil && len(*refs) > 0
}

// R06b: skip only on digest equality
func ruleR06b(c *Check) {
	c.Rule("R06b", "in each file/directory Load, a success return that is reachable without reading from the CAS is dominated by an equality test between a hash computed from the local path and the digest recorded in the result, and by that hash computation succeeding", 2)
	impls, _ := handlerFuncs(c, "Load")
	casLoad := fnSet(c.P.Func("caching", "Cas", "Load"), c.P.Func("caching", "Cas", "LoadBytes"))
	hashers := hashComposing(c)
	for _, fn := range impls {
		if strings.Contains(c.P.FuncName(fn), "Docker") {
			continue // images are compared by the docker daemon's image id, not by a content hash grog computes
		}
		fname := c.P.FuncName(fn)
		// a read that restores content: the blob stream (Cas.Load), or a byte load inside a call that also
		// creates files. Loading the record of a directory tree (LoadBytes alone) restores nothing: a path
		// that only does that and returns has skipped the restore.
		var reads []ssa.CallInstruction
		creators := map[*ssa.Function]bool{}
		for _, cs := range c.G.CallsTo("os.Create", "os.OpenFile", "os.WriteFile", "os.Symlink") {
			creators[cs.Parent()] = true
		}
		for _, rs := range sitesReaching(c, fn, casLoad) {
			if len(sitesReaching1(c, rs, fnSet(c.P.Func("caching", "Cas", "Load")))) > 0 || len(sitesReaching1(c, rs, creators)) > 0 {
				reads = append(reads, rs)
			}
		}
		isRead := func(in ssa.Instruction) bool {
			for _, r := range reads {
				if in == ssa.Instruction(r) {
					return true
				}
			}
			return false
		}
		var skips []*ssa.Return
		for _, r := range engine.Returns(fn) {
			if r.Block() == fn.Recover {
				continue
			}
			// a return that may report success: a literal nil, or the result of a helper (the restore of the
			// permission on the skip path, say) that is not known to be an error
			if !isNilErrReturn(r) && definitelyNonNilReturn(fn, r) {
				continue
			}
			if reach, _ := engine.PathExists(fn, nil, engine.IsInstr(r), engine.PathQuery{CutInstr: isRead}); reach {
				skips = append(skips, r)
			}
		}
		if len(skips) == 0 {
			c.OK("R06b", "skip-only-on-digest-equality/"+fname, "no restore is skipped: every success path reads from the CAS", c.P.Pos(fn.Pos()))
			continue
		}
		for _, r := range skips {
			eq := func(a engine.Atom) bool {
				if a.Op != "eq" || a.Other == nil {
					return false
				}
				l, rr := localHashOrigin(c, a.V, hashers), recordDigestOrigin(a.Other)
				l2, rr2 := localHashOrigin(c, a.Other, hashers), recordDigestOrigin(a.V)
				return (l && rr) || (l2 && rr2)
			}
			reach, _ := engine.PathExists(fn, nil, engine.IsInstr(r), engine.PathQuery{CutEdge: engine.CutEdgesWhere(eq)})
			// the hash computation must have succeeded
			okErr := true
			for _, s := range engine.SitesIn(fn) {
				if v := s.Value(); v != nil && engine.ErrResultIndex(s.Common().Signature()) >= 0 && calleeInSet(c, s, hashers) {
					if ok2, _ := engine.PathExists(fn, s, engine.IsInstr(r), engine.PathQuery{CutEdge: engine.NilErrEdgesOf(s)}); ok2 {
						okErr = false
					}
				}
			}
			c.Require(!reach && okErr, "R06b", "skip-only-on-digest-equality/"+fname, "the restore is skipped only when the hash of the local content equals the recorded digest (and hashing succeeded)",
				"the restore can be skipped without the local content having been verified against the recorded digest: stale, truncated or modified outputs would be left in place", c.P.InstrPos(r))
		}
	}
}

// sitesReaching1: the site itself when its (transitive) first-party callees include a function of the set.
func sitesReaching1(c *Check, s ssa.CallInstruction, set map[*ssa.Function]bool) []ssa.CallInstruction {
	callees := c.G.CalleesOf(s)
	if len(callees) == 0 {
		return nil
	}
	reach := c.G.ReachableFuncs(callees, nil)
	for f := range set {
		if f != nil && reach[f] {
			return []ssa.CallInstruction{s}
		}
	}
	return nil
}

func calleeInSet(c *Check, s ssa.CallInstruction, set map[*ssa.Function]bool) bool {
	for _, f := range c.G.Callees[s] {
		if set[f] && (engine.InPackage(f, "hashing") || engine.InPackage(f, "output/handlers")) {
			return true
		}
	}
	return false
}

func localHashOrigin(c *Check, v ssa.Value, hashers map[*ssa.Function]bool) bool {
	orig := engine.Origins(v)
	if len(orig) == 0 {
		return false
	}
	for _, o := range orig {
		call, _ := engine.CallOf(o)
		if call == nil || !calleeInSet(c, call, hashers) {
			return false
		}
	}
	return true
}

func recordDigestOrigin(v ssa.Value) bool {
	for _, o := range engine.Origins(v) {
		if o == nil {
			return false
		}
		if _, ok := fieldReadOn(o, "Hash"); ok {
			continue
		}
		if call, _ := engine.CallOf(o); call != nil && strings.HasSuffix(engine.CalleeName(call), "Digest).GetHash") {
			continue
		}
		return false
	}
	return true
}

// R06c: clear then recreate
func ruleR06c(c *Check, rule string) {
	c.Rule(rule, "in the directory Load, os.RemoveAll of the destination succeeds before the destination is created and before anything is created below it", 1)
	impls, _ := handlerFuncs(c, "Load")
	for _, fn := range impls {
		var mk []ssa.CallInstruction
		// the directory restore: the Load implementation that reads the directory record
		isDirLoad := false
		for _, s := range engine.SitesIn(fn) {
			if strings.HasSuffix(engine.CalleeName(s), "gen.Output).GetDirectory") {
				isDirLoad = true
			}
		}
		if isDirLoad {
			for _, m := range callsNamed(fn, "os.MkdirAll") {
				if !derivesFromCall(m.Common().Args[0], "path/filepath.Dir") {
					mk = append(mk, m)
				}
			}
			if len(mk) == 0 {
				// the clear-and-recreate step as a helper of its own: RemoveAll(p) succeeded before MkdirAll(p)
				// inside it, and it hands the RemoveAll error on
				var recreate ssa.CallInstruction
				for _, hs := range engine.SitesIn(fn) {
					call, isCall := hs.(*ssa.Call)
					if !isCall || engine.ErrResultIndex(call.Call.Signature()) < 0 {
						continue
					}
					h := call.Call.StaticCallee()
					if h == nil || len(h.Blocks) == 0 || !engine.InPackage(h, "output/handlers") {
						continue
					}
					rasH, mkH := callsNamed(h, "os.RemoveAll"), callsNamed(h, "os.MkdirAll")
					if len(rasH) == 0 || len(mkH) == 0 {
						continue
					}
					if !(sameVar(rasH[0].Common().Args[0], mkH[0].Common().Args[0]) || engine.ExprKey(rasH[0].Common().Args[0]) == engine.ExprKey(mkH[0].Common().Args[0])) {
						continue
					}
					if onlyAfterSuccess(h, rasH[0], mkH[0]) == "" && forwardsError(h, rasH[0]) && forwardsError(h, mkH[0]) {
						recreate = hs
					}
				}
				if recreate == nil {
					c.Bad(rule, "clear-before-recreate/"+c.P.FuncName(fn), "the directory restore never (re)creates its destination directory", c.P.Pos(fn.Pos()))
					continue
				}
				fname := c.P.FuncName(fn)
				bad := ""
				for _, s := range engine.SitesIn(fn) {
					if s == recreate {
						continue
					}
					callees := c.G.Callees[s]
					creates := false
					if len(callees) > 0 {
						for f := range c.G.ReachableFuncs(callees, nil) {
							if len(callsNamed(f, "os.Create", "os.OpenFile", "os.Symlink", "os.MkdirAll", "os.Mkdir")) > 0 && engine.InPackage(f, "output/handlers") {
								creates = true
							}
						}
					}
					if creates {
						if w := onlyAfterSuccess(fn, recreate, s); w != "" {
							bad = "a creation under the destination (" + c.P.InstrPos(s) + ") is " + w
						}
					}
				}
				c.Require(bad == "", rule, "clear-before-recreate/"+fname, "the clear-and-recreate helper (RemoveAll(dst) succeeded before MkdirAll(dst)) returned nil before any creation below dst", bad, c.P.InstrPos(recreate))
				continue
			}
		}
		if len(mk) == 0 {
			continue
		}
		fname := c.P.FuncName(fn)
		ras := callsNamed(fn, "os.RemoveAll")
		if len(ras) == 0 {
			c.Bad(rule, "clear-before-recreate/"+fname, "the destination directory is recreated without removing the existing tree first: stale extra files from an earlier build survive the restore", c.P.InstrPos(mk[0]))
			continue
		}
		ra := ras[0]
		bad := ""
		if !(sameVar(ra.Common().Args[0], mk[0].Common().Args[0]) || engine.ExprKey(ra.Common().Args[0]) == engine.ExprKey(mk[0].Common().Args[0])) {
			bad = "RemoveAll and MkdirAll are applied to different paths"
		}
		for _, s := range engine.SitesIn(fn) {
			if s == ra {
				continue
			}
			callees := c.G.Callees[s]
			creates := engine.CalleeName(s) == "os.MkdirAll"
			if len(callees) > 0 {
				r := c.G.ReachableFuncs(callees, nil)
				for f := range r {
					if len(callsNamed(f, "os.Create", "os.OpenFile", "os.Symlink", "os.MkdirAll", "os.Mkdir")) > 0 && engine.InPackage(f, "output/handlers") {
						creates = true
					}
				}
			}
			if creates {
				if w := onlyAfterSuccess(fn, ra, s); w != "" {
					bad = "a creation under the destination (" + c.P.InstrPos(s) + ") is " + w
				}
			}
		}
		c.Require(bad == "", rule, "clear-before-recreate/"+fname, "RemoveAll(dst) returned nil before MkdirAll(dst) and before any creation below dst", bad, c.P.InstrPos(ra))
	}
}

// R06d: kind exhaustiveness
func ruleR06d(c *Check) {
	c.Rule("R06d", "every type switch over the stored output kind has an arm for each generated kind; KnownHandlerTypes lists exactly the HandlerType constants", 3)
	kind := c.P.Type("proto/gen", "isOutput_Kind")
	if kind == nil {
		c.Unknown("R06d", "anchor/gen.isOutput_Kind", "anchor-unresolved", "-")
		return
	}
	impls := c.P.Implementers(kind.Underlying().(*types.Interface))
	for _, fn := range c.P.Funcs {
		if !engine.InPackage(fn, "output") {
			continue
		}
		asserted := map[string]bool{}
		var first ssa.Instruction
		for _, b := range fn.Blocks {
			for _, in := range b.Instrs {
				if ta, ok := in.(*ssa.TypeAssert); ok && types.Identical(ta.X.Type(), kind) {
					asserted[ta.AssertedType.String()] = true
					if first == nil {
						first = ta
					}
				}
			}
		}
		if first == nil {
			continue
		}
		var missing []string
		for _, im := range impls {
			if !asserted[im.String()] {
				missing = append(missing, im.String())
			}
		}
		sort.Strings(missing)
		c.Require(len(missing) == 0, "R06d", "kind-switch-exhaustive/"+c.P.FuncName(fn), fmt.Sprintf("all %d output kinds have an arm", len(impls)), "no arm for output kind(s) "+strings.Join(missing, ", "), c.P.InstrPos(first))
	}
	// KnownHandlerTypes
	pkg := c.P.PkgByID[engine.ModulePath+"/internal/output/handlers"]
	ht := c.P.Type("output/handlers", "HandlerType")
	if pkg == nil || ht == nil {
		return
	}
	consts := map[string]bool{}
	for _, n := range pkg.Types.Scope().Names() {
		if k, ok := pkg.Types.Scope().Lookup(n).(*types.Const); ok && types.Identical(k.Type(), ht) {
			consts[k.Val().ExactString()] = true
		}
	}
	known := map[string]bool{}
	if sp := c.P.SSAPkgs[pkg.PkgPath]; sp != nil {
		if g, ok := sp.Members["KnownHandlerTypes"].(*ssa.Global); ok {
			if init := sp.Func("init"); init != nil {
				for _, b := range init.Blocks {
					for _, in := range b.Instrs {
						if st, ok := in.(*ssa.Store); ok {
							if k, ok := st.Val.(*ssa.Const); ok && types.Identical(k.Type(), ht) && k.Value != nil {
								known[k.Value.ExactString()] = true
							}
						}
					}
				}
			}
			_ = g
		}
	}
	same := len(known) == len(consts) && len(known) > 0
	for k := range consts {
		if !known[k] {
			same = false
		}
	}
	c.Require(same, "R06d", "known-handler-types", fmt.Sprintf("KnownHandlerTypes lists all %d HandlerType constants", len(consts)), fmt.Sprintf("KnownHandlerTypes (%d entries) differs from the %d HandlerType constants: an output of the missing kind is rejected at parse time or has no handler", len(known), len(consts)), "-")
}

// R06e: restored files are created truncating
func ruleR06e(c *Check) {
	c.Rule("R06e", "every file a restore writes is opened with os.Create or os.OpenFile(... O_TRUNC ...): content longer than the cached one must not survive", 2)
	_, reach := handlerFuncs(c, "Load")
	for _, fn := range c.P.Funcs {
		if !reach[fn] || !engine.InPackage(fn, "output/handlers") {
			continue
		}
		for _, s := range callsNamed(fn, "os.Create", "os.OpenFile") {
			key := "create-truncates/" + c.P.FuncName(fn)
			if engine.CalleeName(s) == "os.Create" {
				c.OK("R06e", key, "os.Create truncates", c.P.InstrPos(s))
				continue
			}
			k, ok := s.Common().Args[1].(*ssa.Const)
			if !ok || k.Value == nil {
				c.Unknown("R06e", key, "non-constant open flags", c.P.InstrPos(s))
				continue
			}
			flags := k.Int64()
			writes := flags&0x3 != 0
			if !writes {
				continue
			}
			c.Require(flags&0x200 != 0, "R06e", key, "opened with O_TRUNC", "a restored file is opened for writing without O_TRUNC: when the workspace copy is longer than the cached content its tail survives the restore", c.P.InstrPos(s))
		}
	}
}

// R06f: executable bit restored
func ruleR06f(c *Check) {
	c.Rule("R06f", "every workspace file created by a restore has its mode set (Chmod) from the record's executable flag on every path to success", 2)
	_, reach := handlerFuncs(c, "Load")
	goodChmod := func(in ssa.Instruction) bool {
		ch, ok := in.(ssa.CallInstruction)
		if !ok {
			return false
		}
		if n := engine.CalleeName(ch); n != "(*os.File).Chmod" && n != "os.Chmod" {
			return false
		}
		args := ch.Common().Args
		return modeFromExecFlag(c, args[len(args)-1])
	}
	memo := map[*ssa.Function]int{}
	var judge func(fn *ssa.Function, s ssa.CallInstruction, depth int)
	judge = func(fn *ssa.Function, s ssa.CallInstruction, depth int) {
		// a helper that hands the created file on to its caller: the caller is where the mode has to be set
		if v := s.Value(); v != nil && depth < 3 {
			hands := false
			for _, r := range engine.Returns(fn) {
				for _, rv := range r.Results {
					for _, o := range engine.Origins(rv) {
						if o == ssa.Value(v) {
							hands = true
						}
					}
					if ex, ok := rv.(*ssa.Extract); ok && ex.Tuple == ssa.Value(v) {
						hands = true
					}
				}
			}
			if hands {
				callers := 0
				for _, cs := range c.G.CallersOf(fn) {
					if cs.Parent() != nil && reach[cs.Parent()] {
						callers++
						judge(cs.Parent(), cs, depth+1)
					}
				}
				if callers > 0 {
					return
				}
			}
		}
		key := "mode-restored/" + c.P.FuncName(fn)
		marks := mustMarkCalls(c, fn, goodChmod, 2, memo)
		cut := func(in ssa.Instruction) bool { return goodChmod(in) || marks[in] }
		has := false
		for _, b := range fn.Blocks {
			for _, in := range b.Instrs {
				if cut(in) {
					has = true
				}
			}
		}
		if !has {
			c.Bad("R06f", key, "the file created here never gets its mode set from the recorded executable flag: a restored executable output is not runnable", c.P.InstrPos(s))
			return
		}
		var reach3 bool
		if engine.ErrResultIndex(fn.Signature) >= 0 {
			reach3, _ = nilReturnReachableFrom(fn, s, engine.PathQuery{CutInstr: cut, Shallow: true})
		} else {
			reach3, _ = engine.PathExists(fn, s, func(in ssa.Instruction) bool { _, r := in.(*ssa.Return); return r && in.Parent() == fn }, engine.PathQuery{CutInstr: cut, Shallow: true})
		}
		c.Require(!reach3, "R06f", key, "every success path after the creation passes a Chmod whose mode depends on the recorded executable flag", "a success return is reachable after creating the file without setting its mode from the executable flag", c.P.InstrPos(s))
	}
	for _, fn := range c.P.Funcs {
		if !reach[fn] || !engine.InPackage(fn, "output/handlers") {
			continue
		}
		for _, s := range callsNamed(fn, "os.Create", "os.OpenFile") {
			if engine.CalleeName(s) == "os.OpenFile" && !openFileCreates(s) {
				continue
			}
			if derivesFromCall(s.Common().Args[0], "os.CreateTemp", "os.MkdirTemp", "os.TempDir") {
				continue
			}
			judge(fn, s, 0)
		}
	}
}

// modeFromExecFlag: the mode value depends, by data or by control (also through helpers of the handlers
// package), on the recorded executable flag.
func modeFromExecFlag(c *Check, mode ssa.Value) bool {
	filter := func(e *engine.Edge) bool {
		return e.Via != nil && (engine.InPackage(e.Via.Parent(), "output/handlers") || engine.InPackage(e.Via.Parent(), "proto/gen")) && e.Kind != engine.EField
	}
	flagA, flagB := fk("proto/gen.FileNode", "IsExecutable"), fk("proto/gen.FileOutput", "IsExecutable")
	sinks := []Node{mode}
	seen := map[Node]bool{mode: true}
	for round := 0; round < 4; round++ {
		back := c.G.Backward(sinks, filter)
		if back.Has(flagA) || back.Has(flagB) {
			return true
		}
		grew := false
		addConds := func(fn *ssa.Function, dom *ssa.BasicBlock) {
			for _, b := range fn.Blocks {
				ifi, ok := lastIf(b)
				if !ok || (dom != nil && !b.Dominates(dom)) {
					continue
				}
				if !seen[ifi.Cond] {
					seen[ifi.Cond] = true
					sinks = append(sinks, ifi.Cond)
					grew = true
				}
			}
		}
		for n := range back.Parent {
			switch x := n.(type) {
			case *ssa.Phi:
				addConds(x.Parent(), x.Block())
			case *ssa.Call:
				if h := x.Call.StaticCallee(); h != nil && len(h.Blocks) > 0 && engine.InPackage(h, "output/handlers") {
					addConds(h, nil)
				}
			}
		}
		if !grew {
			return false
		}
	}
	return false
}

// ruleLoadPathErrors: no dropped error on the restore path.
func ruleLoadPathErrors(c *Check, rule string) {
	c.Rule(rule, "no function on the restore path (handler Load implementations and the handlers/output/caching helpers they reach, the registry's LoadOutputs) drops an error on the way to a success return", 8)
	impls, _ := handlerFuncs(c, "Load")
	roots := append([]*ssa.Function{}, impls...)
	if lo := c.P.Func("output", "Registry", "LoadOutputs"); lo != nil {
		roots = append(roots, lo)
	}
	reach := c.G.ReachableFuncs(roots, nil)
	var fns []*ssa.Function
	for _, fn := range c.P.Funcs {
		if reach[fn] && (engine.InPackage(fn, "output") || engine.InPackage(fn, "caching")) {
			fns = append(fns, fn)
		}
	}
	requireNoDroppedErrors(c, rule, fns, nil)
}

// R06l: the recorded permission is consulted on every way out of a file restore. A restore that is skipped
// because the bytes at the output path already hash to the recorded digest says nothing about the mode: a
// cached executable whose x bit was dropped (chmod -x, an archive extracted without modes) must be runnable
// again after the restore, like one whose bytes had to be fetched.
func ruleR06l(c *Check) {
	c.Rule("R06l", "in every handler Load that restores a record carrying an executable flag of its own (gen.FileOutput.IsExecutable), each successful return is preceded by a read of that flag: the skip-because-the-content-matches path restores the permission too", 1)
	flag := fk("proto/gen.FileOutput", "IsExecutable")
	h := c.P.Type("output/handlers", "Handler")
	n := 0
	for _, load := range methodImpls(c, h, "Load") {
		readsFlag := func(in ssa.Instruction) bool {
			switch x := in.(type) {
			case *ssa.FieldAddr:
				return engine.FieldKeyOf(x.X.Type(), x.Field) == flag
			case *ssa.Field:
				return engine.FieldKeyOf(x.X.Type(), x.Field) == flag
			case *ssa.Call:
				if hf := x.Call.StaticCallee(); hf != nil && readsField(c, hf, flag) && engine.InPackage(hf, "proto/gen") {
					return true
				}
			}
			return false
		}
		uses := false
		for _, b := range load.Blocks {
			for _, in := range b.Instrs {
				if readsFlag(in) {
					uses = true
				}
			}
		}
		if !uses {
			continue // a kind without a flag of its own (directories carry it per file inside the tree digest)
		}
		n++
		reach, at := nilReturnReachable(load, engine.PathQuery{CutInstr: readsFlag}, 0)
		pos := c.P.Pos(load.Pos())
		if at != nil {
			pos = c.P.InstrPos(at)
		}
		c.Require(!reach, "R06l", "mode-consulted-on-every-success/"+c.P.FuncName(load), "every successful return of the restore has read the recorded executable flag", "the restore can report success without looking at the recorded executable flag (the shortcut taken when the local content already matches): a cached executable whose x bit was removed in the workspace stays non-executable after it was 'restored'", pos)
	}
	if n == 0 {
		c.Unknown("R06l", "mode-consulted-on-every-success", "no handler Load reads gen.FileOutput.IsExecutable", "-")
	}
}
