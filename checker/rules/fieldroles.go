package rules

import (
	"go/types"
	"strings"

	"golang.org/x/tools/go/ssa"

	"grogverif/engine"
)

// Unexported struct fields that rules are stated over are looked up by name first; when the name is gone
// (a rename) they are found again by what they are: the only field of that type in the struct, or — for
// fields that share their type with a sibling — by the role they play in the code. The resolution runs
// once per check; an unresolved field stays under its old name and the rule that needs it reports
// anchor-unresolved.

var resolvedFields = map[[2]string]string{}

// fieldTypeHints: (struct, field) -> suffix of the field's type as printed by go/types.
var fieldTypeHints = map[[2]string]string{
	{"dag.DirectedTargetGraph", "nodes"}:                      "model.BuildNodeMap",
	{"dag.Walker", "nodeInfoMap"}:                             "]*grog/internal/dag.nodeInfo",
	{"dag.Walker", "completions"}:                             "dag.CompletionMap",
	{"worker.job", "task"}:                                    "worker.TaskFunc[T]",
	{"worker.TaskWorkerPool", "jobCh"}:                        "chan grog/internal/worker.job[T]",
	{"worker.TaskWorkerPool", "taskState"}:                    "console.TaskStateMap",
	{"caching/backends.FileSystemCache", "workspaceCacheDir"}: "string",
	{"loading.PklLoader", "evaluator"}:                        "pkl.Evaluator",
	{"execution.Executor", "loadOutputsMode"}:                 "config.LoadOutputsMode",
	{"output.Registry", "handlers"}:                           "]grog/internal/output/handlers.Handler",
}

func structByKey(c *Check, typeKey string) *types.Struct {
	i := strings.LastIndex(typeKey, ".")
	if i < 0 {
		return nil
	}
	n := c.P.Type(typeKey[:i], typeKey[i+1:])
	if n == nil {
		return nil
	}
	st, _ := n.Underlying().(*types.Struct)
	return st
}

func hasField(st *types.Struct, name string) bool {
	for i := 0; i < st.NumFields(); i++ {
		if st.Field(i).Name() == name {
			return true
		}
	}
	return false
}

func fk(t, f string) engine.FieldKey {
	if nf, ok := resolvedFields[[2]string{t, f}]; ok {
		f = nf
	}
	// field keys carry the pinned names (engine.FieldKeyOf maps renamed fields back)
	return engine.FieldKey{T: t, F: engine.CanonFieldName(t, f)}
}

// resolveFieldAnchors fills resolvedFields for the program of this check and refreshes the package-level keys.
func resolveFieldAnchors(c *Check) {
	resolvedFields = map[[2]string]string{}
	calleeResolver = func(s ssa.CallInstruction) []*ssa.Function { return c.G.Callees[s] }
	for k, hint := range fieldTypeHints {
		st := structByKey(c, k[0])
		if st == nil || hasField(st, k[1]) {
			continue
		}
		var cands []string
		for i := 0; i < st.NumFields(); i++ {
			if strings.HasSuffix(st.Field(i).Type().String(), hint) {
				cands = append(cands, st.Field(i).Name())
			}
		}
		if len(cands) == 1 {
			resolvedFields[k] = cands[0]
		}
	}
	resolveEdgeMaps(c)
	resolveNodeInfoChans(c)
	resolveWalkerFlag(c)
	resolveMaxWorkers(c)
	fReady = fk("dag.nodeInfo", "ready")
	fCancel = fk("dag.nodeInfo", "cancel")
	fInEdges = fk("dag.DirectedTargetGraph", "inEdges")
	fOutEdges = fk("dag.DirectedTargetGraph", "outEdges")
}

// in/out edge maps: in AddEdge(from, to) the map updated under from's label holds the out-edges, the one
// updated under to's label the in-edges.
func resolveEdgeMaps(c *Check) {
	st := structByKey(c, "dag.DirectedTargetGraph")
	if st == nil || (hasField(st, "inEdges") && hasField(st, "outEdges")) {
		return
	}
	add := c.P.Func("dag", "DirectedTargetGraph", "AddEdge")
	if add == nil || len(add.Params) < 3 {
		return
	}
	from, to := add.Params[1], add.Params[2]
	for _, b := range add.Blocks {
		for _, in := range b.Instrs {
			mu, ok := in.(*ssa.MapUpdate)
			if !ok {
				continue
			}
			ld, ok := mu.Map.(*ssa.UnOp)
			if !ok {
				continue
			}
			fa, ok := ld.X.(*ssa.FieldAddr)
			if !ok || engine.TypeKey(fa.X.Type()) != "dag.DirectedTargetGraph" {
				continue
			}
			name := engine.FieldKeyOf(fa.X.Type(), fa.Field).F
			if call, _ := engine.CallOf(mu.Key); call != nil && call.Common().IsInvoke() {
				switch call.Common().Value {
				case ssa.Value(from):
					resolvedFields[[2]string{"dag.DirectedTargetGraph", "outEdges"}] = name
				case ssa.Value(to):
					resolvedFields[[2]string{"dag.DirectedTargetGraph", "inEdges"}] = name
				}
			}
		}
	}
}

// nodeInfo channels: the one that is closed is the cancel channel, the one that is sent to (outside the
// routine's completion send) and shares its type with it is the ready channel.
func resolveNodeInfoChans(c *Check) {
	st := structByKey(c, "dag.nodeInfo")
	if st == nil || (hasField(st, "ready") && hasField(st, "cancel")) {
		return
	}
	fieldOf := func(v ssa.Value) (string, types.Type, bool) {
		ld, ok := v.(*ssa.UnOp)
		if !ok {
			return "", nil, false
		}
		fa, ok := ld.X.(*ssa.FieldAddr)
		if !ok || engine.TypeKey(fa.X.Type()) != "dag.nodeInfo" {
			return "", nil, false
		}
		return engine.FieldKeyOf(fa.X.Type(), fa.Field).F, ld.Type(), true
	}
	var cancelT types.Type
	for _, s := range c.G.Sites {
		if b, ok := s.Common().Value.(*ssa.Builtin); ok && b.Name() == "close" && engine.InPackage(s.Parent(), "dag") {
			if name, t, ok := fieldOf(s.Common().Args[0]); ok {
				resolvedFields[[2]string{"dag.nodeInfo", "cancel"}] = name
				cancelT = t
			}
		}
	}
	for _, fn := range c.P.Funcs {
		if !engine.InPackage(fn, "dag") {
			continue
		}
		for _, b := range fn.Blocks {
			for _, in := range b.Instrs {
				if sd, ok := in.(*ssa.Send); ok {
					if name, t, ok := fieldOf(sd.Chan); ok && cancelT != nil && types.Identical(t, cancelT) && name != resolvedFields[[2]string{"dag.nodeInfo", "cancel"}] {
						resolvedFields[[2]string{"dag.nodeInfo", "ready"}] = name
					}
				}
			}
		}
	}
}

// the fail-fast flag: the bool field of the walker that is stored outside its constructor.
func resolveWalkerFlag(c *Check) {
	st := structByKey(c, "dag.Walker")
	if st == nil || hasField(st, "failFastTriggered") {
		return
	}
	for _, fn := range c.P.Funcs {
		if !engine.InPackage(fn, "dag") || isConstructorOf(fn, "dag.Walker") {
			continue
		}
		for _, b := range fn.Blocks {
			for _, in := range b.Instrs {
				stI, ok := in.(*ssa.Store)
				if !ok {
					continue
				}
				fa, ok := stI.Addr.(*ssa.FieldAddr)
				if !ok || engine.TypeKey(fa.X.Type()) != "dag.Walker" {
					continue
				}
				if bt, ok := stI.Val.Type().Underlying().(*types.Basic); ok && bt.Kind() == types.Bool {
					resolvedFields[[2]string{"dag.Walker", "failFastTriggered"}] = engine.FieldKeyOf(fa.X.Type(), fa.Field).F
				}
			}
		}
	}
}

// the worker bound: the int field of the pool stored from the constructor's first int parameter.
func resolveMaxWorkers(c *Check) {
	st := structByKey(c, "worker.TaskWorkerPool")
	if st == nil || hasField(st, "maxWorkers") {
		return
	}
	ctor := c.P.Func("worker", "", "NewTaskWorkerPool")
	if ctor == nil {
		return
	}
	var firstInt *ssa.Parameter
	for _, p := range ctor.Params {
		if bt, ok := p.Type().Underlying().(*types.Basic); ok && bt.Kind() == types.Int {
			firstInt = p
			break
		}
	}
	if firstInt == nil {
		return
	}
	for _, b := range ctor.Blocks {
		for _, in := range b.Instrs {
			stI, ok := in.(*ssa.Store)
			if !ok {
				continue
			}
			fa, ok := stI.Addr.(*ssa.FieldAddr)
			if !ok || engine.TypeKey(fa.X.Type()) != "worker.TaskWorkerPool" {
				continue
			}
			for _, o := range engine.Origins(stI.Val) {
				if o == ssa.Value(firstInt) {
					resolvedFields[[2]string{"worker.TaskWorkerPool", "maxWorkers"}] = engine.FieldKeyOf(fa.X.Type(), fa.Field).F
				}
			}
		}
	}
}
