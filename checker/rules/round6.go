package rules

import (
	"go/constant"
	"go/token"
	"go/types"
	"strings"

	"golang.org/x/tools/go/ssa"

	"grogverif/engine"
)

// Rules that came out of round 6 (remarks of the seeding agents about the unchanged code, each reproduced
// first: findings D25–D28).

// seenSkipIn: the loop skips an iteration whose key (the ExprKey of `key`, or any key when key == nil) is
// already in a set that the same loop fills, and `site` can only be reached on the miss edge.
func seenSkipIn(lp *engine.Loop, site ssa.Instruction, keyOK func(idx ssa.Value) bool) bool {
	fn := site.Parent()
	for b := range lp.Body {
		ifi, isIf := lastIf(b)
		if !isIf {
			continue
		}
		a := engine.CondAtom(ifi.Cond, true)
		var lk *ssa.Lookup
		if ex, isEx := a.V.(*ssa.Extract); isEx && ex.Index == 1 {
			if l, isLk := ex.Tuple.(*ssa.Lookup); isLk && l.CommaOk {
				lk = l
			}
		} else if l, isLk := a.V.(*ssa.Lookup); isLk && !l.CommaOk {
			if m, ok := l.X.Type().Underlying().(*types.Map); ok {
				if bt, ok := m.Elem().Underlying().(*types.Basic); ok && bt.Kind() == types.Bool {
					lk = l
				}
			}
		}
		if lk == nil || (a.Op != "true" && a.Op != "false") {
			continue
		}
		if keyOK != nil && !keyOK(lk.Index) {
			continue
		}
		hitIdx := 0
		if a.Op == "false" {
			hitIdx = 1
		}
		// the set is filled under the same key in the loop
		filled := false
		for bb := range lp.Body {
			for _, in := range bb.Instrs {
				if mu, ok := in.(*ssa.MapUpdate); ok && (sameVar(mu.Map, lk.X) || mu.Map == lk.X) && engine.ExprKey(mu.Key) == engine.ExprKey(lk.Index) {
					filled = true
				}
			}
		}
		if !filled {
			continue
		}
		// on the hit edge the site is not reached within this iteration
		hitCut := func(bb *ssa.BasicBlock, i int) bool { return bb == b && i != hitIdx }
		backEdge := func(bb *ssa.BasicBlock, i int) bool { return i < len(bb.Succs) && bb.Succs[i] == lp.Header && lp.Body[bb] }
		reach, _ := engine.PathExists(fn, nil, engine.IsInstr(site), engine.PathQuery{FromBlock: b.Succs[hitIdx], Shallow: true, CutEdge: func(bb *ssa.BasicBlock, i int) bool { return hitCut(bb, i) || backEdge(bb, i) }})
		if !reach {
			return true
		}
	}
	return false
}

// R20j: each label once, also for the direct queries. `deps`/`rdeps` without -t print the adjacency lists of
// the graph as they are; a target may name one dependency twice (":lib" and "//pkg:lib" are the same label),
// so somewhere between the declared list and the adjacency lists a repeated label has to be dropped.
func ruleRepeatedDependencyIsOneEdge(c *Check, rule string) {
	c.Rule(rule, "between a node's declared dependency list and the adjacency lists that `deps`/`rdeps` print a repeated label is dropped: the edge-building loop skips a label it has already seen for the node, or the edge-adding function refuses an existing edge, or the loader builds the dependency list through a seen-set", 1)
	addEdge := c.P.Func("dag", "DirectedTargetGraph", "AddEdge")
	if addEdge == nil {
		c.Unknown(rule, "anchor/dag.AddEdge", "anchor-unresolved", "-")
		return
	}
	inE, outE := fk("dag.DirectedTargetGraph", "inEdges"), fk("dag.DirectedTargetGraph", "outEdges")
	// (A2) the edge-adding function itself: no append to an adjacency list without a test that looked at the
	// list (or at another edge table of the graph) together with the new node
	guardedAdd := func() bool {
		n := 0
		for _, b := range addEdge.Blocks {
			for _, in := range b.Instrs {
				mu, ok := in.(*ssa.MapUpdate)
				if !ok || !(isLoadOfField(mu.Map, inE) || isLoadOfField(mu.Map, outE)) {
					continue
				}
				n++
				guarded := false
				for _, db := range addEdge.Blocks {
					ifi, isIf := lastIf(db)
					if !isIf || !db.Dominates(b) || db == b {
						continue
					}
					back := c.G.Backward([]Node{ifi.Cond}, func(e *engine.Edge) bool {
						return e.Via != nil && (engine.TopFunc(e.Via.Parent()) == addEdge || e.Via.Parent() == nil)
					})
					if back.Has(inE) || back.Has(outE) {
						guarded = true
					}
				}
				// a membership loop that returns on a hit: the update is outside a loop over the same list
				for _, lp := range engine.LoopsOf(addEdge) {
					rv := lp.RangedValue()
					if rv == nil || lp.Body[b] {
						continue
					}
					if isLoadOfFieldDeep(rv, inE) || isLoadOfFieldDeep(rv, outE) || lookupOfField(rv, inE) || lookupOfField(rv, outE) {
						// the loop has an exit other than exhaustion (return / break on a match)
						for bb := range lp.Body {
							for _, sc := range bb.Succs {
								if !lp.Body[sc] && bb != lp.Header {
									guarded = true
								}
							}
							if len(bb.Instrs) > 0 {
								if _, isRet := bb.Instrs[len(bb.Instrs)-1].(*ssa.Return); isRet {
									guarded = true
								}
							}
						}
					}
				}
				if !guarded {
					return false
				}
			}
		}
		return n > 0
	}()
	n := 0
	for _, s := range c.G.CallersOf(addEdge) {
		fn := s.Parent()
		if fn == nil || isTestFunc(c, fn) || engine.TopFunc(fn).Pkg == nil {
			continue
		}
		lp := engine.LoopOf(s)
		if lp == nil {
			continue
		}
		// the loop ranges over the declared dependencies of a node (directly, or through a helper that lists them)
		helper, isDeps := declaredDependencyList(c, lp.RangedValue())
		if !isDeps {
			continue
		}
		n++
		key := "repeated-dependency-one-edge/" + c.P.FuncName(fn)
		helperDedups := false
		if helper != nil {
			for _, b := range helper.Blocks {
				for _, in := range b.Instrs {
					if ap, ok := in.(*ssa.Call); ok {
						if bi, isB := ap.Call.Value.(*ssa.Builtin); isB && bi.Name() == "append" {
							if hl := engine.LoopOf(ap); hl != nil && seenSkipIn(hl, ap, nil) {
								helperDedups = true
							}
						}
					}
				}
			}
		}
		switch {
		case helperDedups:
			c.OK(rule, key, "the helper that lists a node's dependencies keeps the first occurrence of each label only", c.P.InstrPos(s))
		case guardedAdd:
			c.OK(rule, key, "the edge-adding function refuses an edge that exists", c.P.InstrPos(s))
		case seenSkipIn(lp, s, nil):
			c.OK(rule, key, "the loop skips a dependency label it has already added for this node", c.P.InstrPos(s))
		case loaderDedupsDependencies(c):
			c.OK(rule, key, "the loader builds the dependency list through a seen-set", c.P.InstrPos(s))
		default:
			c.Bad(rule, key, "one edge is added per mention of a dependency: a target that names a dependency twice (`[\":lib\", \"//pkg:lib\"]`) gets two edges, `grog deps` / `grog rdeps` print the label twice, and the walker sends the dependant two ready messages", c.P.InstrPos(s))
		}
	}
	if n == 0 {
		c.Unknown(rule, "repeated-dependency-one-edge", "no loop that adds one edge per declared dependency found", "-")
	}
}

func lookupOfField(v ssa.Value, key engine.FieldKey) bool {
	for _, o := range engine.Origins(v) {
		switch x := o.(type) {
		case *ssa.Lookup:
			if isLoadOfField(x.X, key) {
				return true
			}
		case *ssa.Extract:
			if l, ok := x.Tuple.(*ssa.Lookup); ok && isLoadOfField(l.X, key) {
				return true
			}
		}
	}
	return false
}

func isTestFunc(c *Check, fn *ssa.Function) bool {
	return strings.HasSuffix(c.P.Fset.Position(fn.Pos()).Filename, "_test.go")
}

// loaderDedupsDependencies: every store of Target.Dependencies in the loading package takes a slice that is
// appended to in a loop with a skip-if-seen set.
func loaderDedupsDependencies(c *Check) bool {
	dep := fk("model.Target", "Dependencies")
	n := 0
	for _, st := range storesToField(c, dep) {
		fn := st.Parent()
		if fn == nil || !engine.InPackage(fn, "loading") {
			continue
		}
		n++
		ok := false
		for _, o := range engine.Origins(st.Val) {
			app, isCall := o.(*ssa.Call)
			if !isCall {
				continue
			}
			if b, isB := app.Call.Value.(*ssa.Builtin); !isB || b.Name() != "append" {
				continue
			}
			if lp := engine.LoopOf(app); lp != nil && seenSkipIn(lp, app, nil) {
				ok = true
			}
		}
		if !ok {
			return false
		}
	}
	return n > 0
}

// R11n: containment of cleaned paths and the directory ".". A directory output of the root package spelled
// `dir::.` cleans to "."; `strings.HasPrefix(path, dir+"/")` is then a test for the prefix "./", which no
// cleaned path has. A prefix test on cleaned paths has to treat "." apart (or the containment has to be
// decided some other way, e.g. filepath.Rel).
func rulePrefixContainmentHandlesDot(c *Check, rule string) {
	c.Rule(rule, "in the output-conflict detection a containment test of the form strings.HasPrefix(path, dir+separator) is not reached with dir == \".\": the workspace root as a directory output contains every path", 0)
	root := c.P.Func("analysis", "", "detectOutputConflicts")
	if root == nil {
		c.Unknown(rule, "anchor/analysis.detectOutputConflicts", "anchor-unresolved", "-")
		return
	}
	region := c.G.ReachableFuncs([]*ssa.Function{root}, func(f *ssa.Function) bool { return !engine.InPackage(f, "analysis") })
	n := 0
	for fn := range region {
		if !engine.InPackage(fn, "analysis") {
			continue
		}
		for _, s := range engine.SitesIn(fn) {
			if engine.CalleeName(s) != "strings.HasPrefix" || len(s.Common().Args) != 2 {
				continue
			}
			var dir ssa.Value
			for _, o := range engine.Origins(s.Common().Args[1]) {
				bo, ok := o.(*ssa.BinOp)
				if !ok || bo.Op != token.ADD {
					continue
				}
				if isSeparator(bo.Y) {
					dir = bo.X
				}
			}
			if dir == nil {
				continue
			}
			n++
			isDot := func(v ssa.Value) bool {
				k, ok := v.(*ssa.Const)
				return ok && k.Value != nil && k.Value.Kind() == constant.String && constant.StringVal(k.Value) == "."
			}
			same := func(v ssa.Value) bool { return v == dir || engine.ExprKey(v) == engine.ExprKey(dir) }
			notDot := engine.CutEdgesWhere(func(a engine.Atom) bool {
				return a.Op == "ne" && a.Other != nil && ((same(a.V) && isDot(a.Other)) || (same(a.Other) && isDot(a.V)))
			})
			reach, _ := engine.PathExists(fn, nil, engine.IsInstr(s), engine.PathQuery{CutEdge: notDot, Shallow: true})
			c.Require(!reach, rule, "prefix-containment-handles-dot/"+c.P.FuncName(fn), "the prefix test is only reached when dir is not \".\"", "the containment test HasPrefix(path, dir+separator) is reached with dir == \".\" (a `dir::.` output of the root package): it asks for the prefix \"./\", which no cleaned path has, so a file or directory output anywhere in the workspace is not seen as lying inside that directory output and two unordered writers of the same file are accepted", c.P.InstrPos(s))
		}
	}
	if n == 0 {
		c.OK(rule, "prefix-containment-handles-dot/none", "no prefix-based containment test in the conflict detection", "-")
	}
}

func isSeparator(v ssa.Value) bool {
	for _, o := range engine.Origins(v) {
		switch x := o.(type) {
		case *ssa.Const:
			if x.Value != nil && x.Value.Kind() == constant.String && (constant.StringVal(x.Value) == "/" || constant.StringVal(x.Value) == "\\") {
				return true
			}
			if x.Value != nil && x.Value.Kind() == constant.Int {
				if r, ok := constant.Int64Val(x.Value); ok && (r == '/' || r == '\\') {
					return true
				}
			}
		case *ssa.Convert:
			if isSeparator(x.X) {
				return true
			}
		}
	}
	return false
}

// R14k: a declared field of the wrong type is a load error in the Starlark loader too. The JSON, YAML and Pkl
// loaders decode into typed structs and reject (or convert) a value of the wrong type; the Starlark loader
// converts by hand, and a failed assertion to starlark.String that is skipped silently drops what the user
// declared — an `expected_output` that is not compared turns the check into "the command exits 0".
func ruleStarlarkFieldTypeErrors(c *Check, rule string) {
	c.Rule(rule, "in the Starlark loader's converters a failed assertion of a declared value to starlark.String never continues on the success path: it returns an error (or the value is one of the explicitly accepted other types)", 2)
	n := 0
	for _, fn := range c.P.Funcs {
		if !engine.InPackage(fn, "loading") || engine.ErrResultIndex(fn.Signature) < 0 {
			continue
		}
		if !strings.HasSuffix(c.P.Fset.Position(fn.Pos()).Filename, "starlark_loader.go") {
			// the converters live with the loader; a moved converter is found through its parameter types
			uses := false
			for _, p := range fn.Params {
				if strings.Contains(p.Type().String(), "go.starlark.net/starlark.") {
					uses = true
				}
			}
			if !uses {
				continue
			}
		}
		for _, b := range fn.Blocks {
			for _, in := range b.Instrs {
				ta, ok := in.(*ssa.TypeAssert)
				if !ok || !ta.CommaOk || ta.AssertedType.String() != "go.starlark.net/starlark.String" {
					continue
				}
				n++
				// the value may be dispatched on several types (a type switch): what has to end in an error
				// is the path on which none of the tested types matched
				siblings := map[ssa.Value]bool{ta: true}
				for _, r := range *ta.X.Referrers() {
					if o, isTA := r.(*ssa.TypeAssert); isTA && o.CommaOk {
						siblings[o] = true
					}
				}
				matched := engine.CutEdgesWhere(func(a engine.Atom) bool {
					ex, isEx := a.V.(*ssa.Extract)
					return isEx && siblings[ex.Tuple] && ex.Index == 1 && a.Op == "true"
				})
				reach, at := nilReturnReachableFrom(fn, ta, engine.PathQuery{CutEdge: matched, Shallow: true})
				pos := c.P.InstrPos(ta)
				if at != nil {
					pos = c.P.InstrPos(at)
				}
				key := "starlark-field-type-error/" + c.P.FuncName(fn)
				c.Require(!reach, rule, key, "a value that is not a string ends in an error", "a declared value that is not a string is skipped silently and the conversion still succeeds: what the user declared (an output check's expected_output, say) is dropped, so the check compares nothing and passes whatever the command prints", pos)
			}
		}
	}
}
