package rules

import (
	"fmt"
	"go/token"
	"go/types"
	"sort"
	"strings"

	"golang.org/x/tools/go/ssa"

	"grogverif/engine"
)

func init() { register("C04", runC04) }

func runC04(c *Check, tier string) {
	c.Decides = "absence of the mechanisms by which this code base can hang or crash: shared walker/pool/registry/loader state is only touched under its mutex once goroutines run (guarded-by lock sets); nodes are registered before any routine that can look them up is spawned; every lock acquired is released (or its release deferred) on every path; a node routine always reports a completion unless it was cancelled; an interrupted walk returns without blocking; goroutines that are joined by a WaitGroup never block on an error channel that is only drained after the join; explicit panics are confined to the tabled construction-time checks; every semaphore slot taken is given back on every path; adjacency lists of the graph are not written through aliases; the loader's queue consumers keep draining when the loader waits for the walker."
	c.NotDec = "deadlock freedom of the walker protocol as a whole, third-party code (bubbletea, pond, SDKs), fairness."
	w := findWalker(c, "R04b")
	ruleR04a(c)
	ruleR04b(c, w)
	ruleR04c(c, w)
	ruleR04d(c)
	ruleR04e(c)
	ruleLockPairing(c, "R04f")
	ruleSemaphorePairing(c, "R04g")
	ruleAdjacencyNotAliased(c, "R04h")
	ruleQueueDrained(c, "R04i")
	// the walker waits on every in-edge of a selected node and runs routines only for selected nodes: a selected
	// node with an unselected dependency is never released
	shareRule(c, "R04j", "the selection the walker is given is closed under dependencies: the ancestor selection ranges over the node's full dependency list (graph in-edges, aliases included) and selects or fails on each (same obligations as R12b)", 2, "R12b", func(sub *Check) { ruleR12b(sub) }, func(k string) bool {
		return strings.Contains(k, "closure-over-all-dependencies") || strings.Contains(k, "each-dependency-selected")
	})
	// the hit path reads the looked-up result: it must be there
	ruleSharedMapNotWritten(c, "R04l")
	ruleNoPoolReentry(c, "R04m")
	ruleMessagesCarryCopies(c, "R04n")
	ruleAddBeforeSpawn(c, "R04o", "output", "caching", "execution", "dag", "worker", "loading")
	rulePendingEntryReleased(c, "R04p", "caching", "caching/backends", "output", "output/handlers", "execution", "loading", "worker")
	shareRule(c, "R04k", "every path to a cache hit passes the branch on which the looked-up target result is non-nil (the hit path dereferences it on a worker goroutine; same obligation as R13a)", 1, "R13a", func(sub *Check) { ruleR13a(sub, analyseGate(sub, "R13a")) }, func(k string) bool { return strings.Contains(k, "result-found") })
	// round 7: a traversal that enumerates paths never finishes on a deep diamond: for the user the build hangs
	shareRule(c, "R04q", "every recursive or worklist traversal over graph adjacency on the build path visits a node once (same obligations as R19a): work bounded by nodes + edges, so analysis and selection return", 6, "R19a", func(sub *Check) { ruleTraversals(sub, "R19a", false) }, nil)
	// round 8: element locks are released per element
	ruleNoDeferredUnlockInLoop(c, "R04r", "execution", "caching", "output", "dag", "loading", "worker", "hashing", "maps")
}

// ruleSemaphorePairing (shared with C18): every acquired slot of a counting semaphore — a successful
// (*semaphore.Weighted).Acquire, or a struct{} sent into a channel held in a struct field — is given
// back on every path to the function's return: by the matching Release / receive, or by a deferred
// one registered before any return. A leaked slot makes later acquirers wait forever.
func ruleSemaphorePairing(c *Check, rule string) {
	c.Rule(rule, "every semaphore slot acquired in a function (semaphore.Weighted.Acquire == nil, or a struct{} send into a buffered channel field) is released on every path to its return (Release / receive on the same semaphore, directly or in a registered defer)", 1)
	isEmptyStruct := func(t types.Type) bool {
		st, ok := t.Underlying().(*types.Struct)
		return ok && st.NumFields() == 0
	}
	chanSemKey := func(ch ssa.Value) (string, bool) {
		ct, ok := ch.Type().Underlying().(*types.Chan)
		if !ok || !isEmptyStruct(ct.Elem()) {
			return "", false
		}
		ld, ok := ch.(*ssa.UnOp)
		if !ok {
			return "", false
		}
		if _, isField := ld.X.(*ssa.FieldAddr); !isField {
			return "", false
		}
		return engine.ExprKey(ch), true
	}
	for _, fn := range c.P.Funcs {
		type acq struct {
			at     ssa.Instruction
			key    string
			held   func(b *ssa.BasicBlock, i int) bool // edges on which the slot is NOT held
			isChan bool
		}
		var acqs []acq
		for _, b := range fn.Blocks {
			for _, in := range b.Instrs {
				switch x := in.(type) {
				case *ssa.Call:
					if engine.CalleeName(x) == "(*golang.org/x/sync/semaphore.Weighted).Acquire" {
						call := x
						acqs = append(acqs, acq{at: x, key: engine.ExprKey(x.Call.Args[0]), held: engine.CutEdgesWhere(func(a engine.Atom) bool {
							return a.Op == "nonnil" && engine.OriginsAllFromCall(a.V, map[ssa.CallInstruction]int{call: 0}, false)
						})})
					}
				case *ssa.Send:
					if k, ok := chanSemKey(x.Chan); ok {
						acqs = append(acqs, acq{at: x, key: k, isChan: true})
					}
				case *ssa.Select:
					for si, st := range x.States {
						if st.Dir != types.SendOnly {
							continue
						}
						k, ok := chanSemKey(st.Chan)
						if !ok {
							continue
						}
						sel, idx := x, int64(si)
						acqs = append(acqs, acq{at: x, key: k, isChan: true, held: engine.CutEdgesWhere(func(a engine.Atom) bool {
							// another case of the select fired: no slot taken
							ex, ok := a.V.(*ssa.Extract)
							if !ok || ex.Tuple != ssa.Value(sel) || ex.Index != 0 {
								return false
							}
							k, ok := a.Other.(*ssa.Const)
							if !ok {
								return false
							}
							return (a.Op == "eq" && k.Int64() != idx) || (a.Op == "ne" && k.Int64() == idx)
						})})
					}
				}
			}
		}
		for _, a := range acqs {
			key := a.key
			releasesHere := func(f *ssa.Function) bool {
				for _, b := range f.Blocks {
					for _, in := range b.Instrs {
						switch x := in.(type) {
						case *ssa.UnOp:
							if a.isChan && x.Op == token.ARROW && engine.ExprKey(x.X) == key {
								return true
							}
						case ssa.CallInstruction:
							if !a.isChan && engine.CalleeName(x) == "(*golang.org/x/sync/semaphore.Weighted).Release" && engine.ExprKey(x.Common().Args[0]) == key {
								return true
							}
						}
					}
				}
				return false
			}
			isRelease := func(in ssa.Instruction) bool {
				switch x := in.(type) {
				case *ssa.UnOp:
					return a.isChan && x.Op == token.ARROW && engine.ExprKey(x.X) == key
				case *ssa.Defer:
					if !a.isChan && engine.CalleeName(x) == "(*golang.org/x/sync/semaphore.Weighted).Release" && engine.ExprKey(x.Call.Args[0]) == key {
						return true
					}
					if mc, ok := x.Call.Value.(*ssa.MakeClosure); ok {
						if lit, ok := mc.Fn.(*ssa.Function); ok && releasesHere(lit) {
							return true
						}
					}
				case *ssa.Call:
					return !a.isChan && engine.CalleeName(x) == "(*golang.org/x/sync/semaphore.Weighted).Release" && engine.ExprKey(x.Call.Args[0]) == key
				}
				return false
			}
			isRet := func(in ssa.Instruction) bool { _, r := in.(*ssa.Return); return r && in.Parent() == fn }
			leak, at := engine.PathExists(fn, a.at, isRet, engine.PathQuery{CutInstr: isRelease, CutEdge: a.held, Shallow: true})
			pos := c.P.InstrPos(a.at)
			why := ""
			if at != nil {
				why = "the function can return at " + c.P.InstrPos(at) + " with the slot still taken"
			}
			// a worker-pool style hand-off (the slot is released by another goroutine) would need its own argument
			c.Require(!leak, rule, "slot-released/"+c.P.FuncName(fn)+"/"+strings.TrimPrefix(key, "var:"), "the acquired slot is released (or its release deferred) on every path to return", "a semaphore slot can leak: "+why+"; after as many such exits as there are slots every later acquirer waits forever (the build hangs)", pos)
		}
	}
}

// returnsSharedAdjacency: the dag function hands out one of the graph's own edge lists (not a copy).
func returnsSharedAdjacency(f *ssa.Function) bool {
	if !returnsNodeSlice(f) {
		return false
	}
	for _, r := range engine.Returns(f) {
		if len(r.Results) == 0 {
			continue
		}
		for _, o := range engine.Origins(r.Results[0]) {
			if lk, ok := o.(*ssa.Lookup); ok && (isLoadOfField(lk.X, fInEdges) || isLoadOfField(lk.X, fOutEdges)) {
				return true
			}
		}
	}
	return false
}

// ruleAdjacencyNotAliased (shared with C03): the dependency lists the graph hands out are its own storage;
// outside internal/dag nothing appends to them or stores into their elements (a worklist seeded with
// `stack := g.GetDependencies(n)` and then popped/pushed rewrites the graph's edges).
func ruleAdjacencyNotAliased(c *Check, rule string) {
	c.Rule(rule, "outside internal/dag no append extends, and no element store writes through, a slice that aliases one of the graph's adjacency lists (the result of GetDependencies/GetDependants or an inEdges/outEdges lookup): copies (`append([]T{}, adj...)`, slices.Clone) are fine", 1)
	n := 0
	for _, fn := range c.P.Funcs {
		if engine.InPackage(fn, "dag") || engine.InPackage(fn, "proto/gen") {
			continue
		}
		var adj []ssa.Value
		for _, b := range fn.Blocks {
			for _, in := range b.Instrs {
				call, ok := in.(*ssa.Call)
				if !ok {
					continue
				}
				for _, f := range c.G.CalleesOf(call) {
					if engine.InPackage(f, "dag") && returnsSharedAdjacency(f) {
						adj = append(adj, call)
					}
				}
			}
		}
		if len(adj) == 0 {
			continue
		}
		n++
		aliases := func(v ssa.Value) bool {
			roots := sliceRoots(v)
			for _, a := range adj {
				if roots[a] {
					return true
				}
			}
			return false
		}
		bad := ""
		var pos string
		for _, b := range fn.Blocks {
			for _, in := range b.Instrs {
				switch x := in.(type) {
				case *ssa.Call:
					if bi, ok := x.Call.Value.(*ssa.Builtin); ok && bi.Name() == "append" && len(x.Call.Args) > 0 && aliases(x.Call.Args[0]) {
						bad = "append extends a slice that shares its backing array with the graph's adjacency list"
						pos = c.P.InstrPos(x)
					}
				case *ssa.Store:
					if ia, ok := x.Addr.(*ssa.IndexAddr); ok && aliases(ia.X) {
						bad = "an element of the graph's adjacency list is overwritten"
						pos = c.P.InstrPos(x)
					}
				}
			}
		}
		c.Require(bad == "", rule, "adjacency-not-modified/"+c.P.FuncName(fn), "adjacency lists obtained from the graph are only read (or copied first)", bad+": the edges of the graph itself change under the walker/validators (a dependency silently replaced or lost)", pos)
	}
	if n == 0 {
		c.Unknown(rule, "adjacency-not-modified", "no function outside internal/dag obtains an adjacency list: the rule lost its subject", "-")
	}
}

// ---------------------------------------------------------------------------
// R04a guarded-by

type guard struct {
	T, Field, Mutex string
	Why             string
}

// The guard table, from the struct comments ("doneMutex protects completions",
// "nodeMutex protects nodeInfoMap", ...) confirmed by reading every access.
var guardTable = []guard{
	{"dag.Walker", "nodeInfoMap", "nodeMutex", "struct comment: nodeMutex protects nodeInfoMap"},
	{"dag.Walker", "completions", "doneMutex", "struct comment: doneMutex protects completions"},
	{"dag.Walker", "failFastTriggered", "doneMutex", "written and tested inside the completion handler under doneMutex"},
	{"worker.TaskWorkerPool", "taskState", "mu", "all mutations in set/complete under mu"},
	{"worker.TaskWorkerPool", "nextTaskId", "mu", "Run increments under mu"},
	{"worker.TaskWorkerPool", "completedTasks", "mu", "completeTask increments under mu"},
	{"output.Registry", "handlers", "handlerMutex", "Register locks, mustGetHandler read-locks"},
	{"maps.MutexMap", "locks", "mutex", "Lock/Unlock hold mutex around the map"},
}

func ruleR04a(c *Check) {
	c.Rule("R04a", "every access to a guarded field (table: Walker.nodeInfoMap/completions/failFastTriggered, TaskWorkerPool.taskState/nextTaskId/completedTasks, Registry.handlers, MutexMap.locks, and the package map shared by the loader goroutines) holds its mutex (must-hold lock sets, with caller-held summaries), except in constructors, before the first goroutine of the spawning function, or after a WaitGroup join", 20)
	lockCache := map[*ssa.Function]*engine.LockSets{}
	ls := func(fn *ssa.Function) *engine.LockSets {
		if l, ok := lockCache[fn]; ok {
			return l
		}
		l := engine.ComputeLockSets(fn, entryLocks(c, fn, 0))
		lockCache[fn] = l
		return l
	}
	checkGuard := func(g guard) {
		key := fk(g.T, g.Field)
		n := 0
		for _, fn := range c.P.Funcs {
			if isConstructorOf(fn, g.T) {
				continue
			}
			for _, b := range fn.Blocks {
				for _, in := range b.Instrs {
					fa, ok := in.(*ssa.FieldAddr)
					if !ok || engine.FieldKeyOf(fa.X.Type(), fa.Field) != key {
						continue
					}
					n++
					want := engine.ExprKey(fa.X) + "." + g.Mutex
					held := ls(fn).Held(fa)
					okHeld := held[want] || (held["r:"+want] && !isWriteAccess(fa))
					okey := "guarded/" + key.String() + "/" + c.P.FuncName(fn)
					if okHeld {
						c.OK("R04a", okey, "holds "+want, c.P.InstrPos(fa))
						continue
					}
					if why := exemptAccess(c, fn, fa); why != "" {
						c.OK("R04a", okey, "exempt: "+why, c.P.InstrPos(fa))
						continue
					}
					// a method that is only ever called where the access would be exempt (after the join of
					// the goroutines, or before the first one is started)
					if callers := c.G.CallersOf(fn); len(callers) > 0 && fn.Signature.Recv() != nil {
						all := true
						why := ""
						for _, cs := range callers {
							w := ""
							if _, isCall := cs.(*ssa.Call); isCall {
								w = exemptAccess(c, cs.Parent(), cs)
							}
							if w == "" {
								all = false
							}
							why = w
						}
						if all {
							c.OK("R04a", okey, "exempt at every call site of "+c.P.FuncName(fn)+": "+why, c.P.InstrPos(fa))
							continue
						}
					}
					kind := "read"
					if isWriteAccess(fa) {
						kind = "written"
					}
					c.Bad("R04a", okey, fmt.Sprintf("%s is %s without holding %s (held here: %s) while node/worker goroutines may access it: unsynchronised map access crashes the process (`concurrent map read and map write`) or loses updates", key, kind, g.Mutex, ls(fn).HeldList(fa)), c.P.InstrPos(fa))
				}
			}
		}
		if n == 0 {
			c.Unknown("R04a", "guarded/"+key.String(), "anchor-unresolved: guarded field not found", "-")
		}
	}
	// The guards are *inferred* on every run — field F of struct T is guarded by T's mutex field M when some
	// function writes F while holding <base>.M — and every access to an inferred field is then checked.
	// guardTable lists the pairs confirmed by reading the code (struct comments); it fixes the minimum the
	// inference must find, per struct type so that renaming a guarded field or its mutex does not lose the rule.
	// The minimum is counted per package: a guarded field may move, together with its mutex, into a struct of
	// its own (a registry type with methods) without any guard being lost.
	pkgOf := func(t string) string {
		if i := strings.LastIndex(t, "."); i >= 0 {
			return t[:i]
		}
		return t
	}
	inferred := inferGuards(c, ls)
	found := map[string]int{}
	for _, g := range inferred {
		found[pkgOf(g.T)]++
		checkGuard(g)
	}
	want := map[string]int{}
	for _, g := range guardTable {
		want[pkgOf(g.T)]++
	}
	var wk []string
	for k := range want {
		wk = append(wk, k)
	}
	sort.Strings(wk)
	for _, k := range wk {
		if found[k] < want[k] {
			c.Unknown("R04a", "guarded-fields/"+k, fmt.Sprintf("anchor-unresolved: %d field(s) of this package's structs are written under a mutex of their struct, %d were confirmed by hand: a guarded field lost its guard (or the structs changed beyond recognition)", found[k], want[k]), "-")
		}
	}
	// the loader's shared package map (locals of the function that spawns the loader goroutines)
	var lpFn *ssa.Function
	for _, fn := range c.P.Funcs {
		if engine.InPackage(fn, "loading") && fn.Parent() == nil && len(callsNamed(fn, "github.com/boyter/gocodewalker.NewParallelFileWalker")) > 0 {
			lpFn = fn
		}
	}
	if lp := lpFn; lp != nil {
		var mapVar, muVar *ssa.Alloc
		for _, b := range lp.Blocks {
			for _, in := range b.Instrs {
				if al, ok := in.(*ssa.Alloc); ok {
					et := al.Type().Underlying().(*types.Pointer).Elem()
					if m, ok := et.Underlying().(*types.Map); ok && engine.TypeKey(m.Elem()) == "model.Package" {
						mapVar = al
					}
					if et.String() == "sync.Mutex" || et.String() == "sync.RWMutex" {
						muVar = al
					}
				}
			}
		}
		if mapVar == nil || muVar == nil {
			// the shared map may live in a small struct of the loading package together with its mutex
			found := false
			if lpFn.Pkg != nil {
				scope := lpFn.Pkg.Pkg.Scope()
				for _, name := range scope.Names() {
					tn, ok := scope.Lookup(name).(*types.TypeName)
					if !ok {
						continue
					}
					st, ok := tn.Type().Underlying().(*types.Struct)
					if !ok {
						continue
					}
					mapF, muF := "", ""
					for i := 0; i < st.NumFields(); i++ {
						ft := st.Field(i).Type()
						if m, ok := ft.Underlying().(*types.Map); ok && engine.TypeKey(m.Elem()) == "model.Package" {
							mapF = st.Field(i).Name()
						}
						if ft.String() == "sync.Mutex" || ft.String() == "sync.RWMutex" {
							muF = st.Field(i).Name()
						}
					}
					if mapF != "" && muF != "" {
						found = true
						checkGuard(guard{engine.TypeKey(tn.Type()), mapF, muF, "the package map shared by the loader goroutines, kept with its mutex in one struct"})
					}
				}
			}
			if !found {
				c.Unknown("R04a", "guarded/loading.LoadPackages.packages", "anchor-unresolved: shared package map or its mutex not found", "-")
			}
		} else {
			want := engine.ExprKey(muVar)
			for _, fn := range engine.AnonFuncsDeep(lp) {
				if fn == lp {
					continue
				}
				lsf := engine.ComputeLockSets(fn, nil)
				for _, b := range fn.Blocks {
					for _, in := range b.Instrs {
						ld, ok := in.(*ssa.UnOp)
						if !ok || ld.Op != token.MUL {
							continue
						}
						fv, ok := ld.X.(*ssa.FreeVar)
						if !ok || fv.Name() != mapVar.Comment {
							continue
						}
						held := lsf.Held(ld)
						// a read lock suffices where the map is only looked up
						writes := false
						for _, r := range *ld.Referrers() {
							if mu, ok := r.(*ssa.MapUpdate); ok && mu.Map == ssa.Value(ld) {
								writes = true
							}
						}
						c.Require(held[want] || (!writes && held["r:"+want]), "R04a", "guarded/loading.LoadPackages."+mapVar.Comment+"/"+c.P.FuncName(fn), "the shared package map is accessed under "+want, "the package map shared by the loader goroutines is accessed without "+want+": concurrent map writes crash the loader", c.P.InstrPos(ld))
					}
				}
			}
		}
	}
}

// inferGuards: (T, F, M) such that T has a sync.Mutex/RWMutex field M and some first-party function stores
// to / updates T.F while holding <same base>.M (write lock).
func inferGuards(c *Check, ls func(*ssa.Function) *engine.LockSets) []guard {
	seen := map[string]bool{}
	var out []guard
	for _, fn := range c.P.Funcs {
		for _, b := range fn.Blocks {
			for _, in := range b.Instrs {
				fa, ok := in.(*ssa.FieldAddr)
				if !ok || !isWriteAccess(fa) {
					continue
				}
				key := engine.FieldKeyOf(fa.X.Type(), fa.Field)
				if !engine.IsFirstParty(typePkgOf(fa.X.Type())) {
					continue
				}
				st := structOf(fa.X.Type())
				if st == nil {
					continue
				}
				ft := st.Field(fa.Field).Type().String()
				if ft == "sync.Mutex" || ft == "sync.RWMutex" || ft == "sync.Once" || ft == "sync.WaitGroup" {
					continue
				}
				held := ls(fn).Held(fa)
				base := engine.ExprKey(fa.X)
				for i := 0; i < st.NumFields(); i++ {
					mt := st.Field(i).Type().String()
					if mt != "sync.Mutex" && mt != "sync.RWMutex" {
						continue
					}
					m := st.Field(i).Name()
					if held[base+"."+m] {
						id := key.String() + "/" + m
						if !seen[id] {
							seen[id] = true
							out = append(out, guard{key.T, key.F, m, "inferred: written while holding " + m})
						}
					}
				}
			}
		}
	}
	sort.Slice(out, func(i, j int) bool { return out[i].T+out[i].Field < out[j].T+out[j].Field })
	return out
}

func structOf(t types.Type) *types.Struct {
	if p, ok := t.Underlying().(*types.Pointer); ok {
		t = p.Elem()
	}
	st, _ := t.Underlying().(*types.Struct)
	return st
}

func typePkgOf(t types.Type) string {
	if p, ok := t.Underlying().(*types.Pointer); ok {
		t = p.Elem()
	}
	if n, ok := types.Unalias(t).(*types.Named); ok && n.Obj().Pkg() != nil {
		return n.Obj().Pkg().Path()
	}
	return ""
}

func isWriteAccess(fa *ssa.FieldAddr) bool {
	for _, r := range *fa.Referrers() {
		switch x := r.(type) {
		case *ssa.Store:
			if x.Addr == ssa.Value(fa) {
				return true
			}
		case *ssa.UnOp:
			for _, rr := range *x.Referrers() {
				switch y := rr.(type) {
				case *ssa.MapUpdate:
					if y.Map == ssa.Value(x) {
						return true
					}
				case *ssa.Call:
					if b, ok := y.Call.Value.(*ssa.Builtin); ok && b.Name() == "delete" {
						return true
					}
				}
			}
		}
	}
	return false
}

func isConstructorOf(fn *ssa.Function, typeKey string) bool {
	for _, b := range fn.Blocks {
		for _, in := range b.Instrs {
			if al, ok := in.(*ssa.Alloc); ok && al.Heap && engine.TypeKey(al.Type()) == typeKey && al.Comment == "complit" {
				return true
			}
		}
	}
	return false
}

// entryLocks: locks held at every call site of fn (receiver-translated), one level up recursively.
func entryLocks(c *Check, fn *ssa.Function, depth int) map[string]bool {
	if depth > 2 || len(fn.Params) == 0 {
		return nil
	}
	callers := c.G.CallersOf(fn)
	if len(callers) == 0 {
		return nil
	}
	var common map[string]bool
	for _, cs := range callers {
		if _, isGo := cs.(*ssa.Go); isGo {
			return nil
		}
		caller := cs.Parent()
		ls := engine.ComputeLockSets(caller, entryLocks(c, caller, depth+1))
		held := ls.Held(cs)
		args := cs.Common().Args
		if len(args) == 0 {
			return nil
		}
		recvKey := engine.ExprKey(args[0])
		calleeRecv := "var:" + fn.Params[0].Name()
		trans := map[string]bool{}
		for k := range held {
			pre := ""
			kk := k
			if strings.HasPrefix(kk, "r:") {
				pre, kk = "r:", kk[2:]
			}
			if strings.HasPrefix(kk, recvKey+".") {
				trans[pre+calleeRecv+kk[len(recvKey):]] = true
			}
		}
		if common == nil {
			common = trans
		} else {
			for k := range common {
				if !trans[k] {
					delete(common, k)
				}
			}
		}
	}
	return common
}

// exemptAccess: before the first goroutine of the spawning function, or after a join.
func exemptAccess(c *Check, fn *ssa.Function, at ssa.Instruction) string {
	var gos []ssa.Instruction
	var waits []ssa.Instruction
	for _, b := range fn.Blocks {
		for _, in := range b.Instrs {
			switch x := in.(type) {
			case *ssa.Go:
				gos = append(gos, x)
			case *ssa.Call:
				if engine.CalleeName(x) == "(*sync.WaitGroup).Wait" {
					waits = append(waits, x)
				}
			}
		}
	}
	// after a join: dominated by WaitGroup.Wait, or by the receive of a channel that a literal closes after Wait
	for _, w := range waits {
		if r, _ := engine.PathExists(fn, nil, engine.IsInstr(at), engine.PathQuery{CutInstr: engine.IsInstr(w)}); !r {
			return "after WaitGroup.Wait (all goroutines joined)"
		}
	}
	for _, b := range fn.Blocks {
		for _, in := range b.Instrs {
			sel, ok := in.(*ssa.Select)
			if !ok {
				continue
			}
			for idx, st := range sel.States {
				if st.Dir != types.RecvOnly || !closedAfterWait(fn, st.Chan) {
					continue
				}
				i64 := int64(idx)
				r, _ := engine.PathExists(fn, nil, engine.IsInstr(at), engine.PathQuery{CutEdge: engine.CutEdgesWhere(func(a engine.Atom) bool {
					ex, ok := a.V.(*ssa.Extract)
					if a.Op != "eq" || !ok || ex.Tuple != ssa.Value(sel) || ex.Index != 0 {
						return false
					}
					k, ok := a.Other.(*ssa.Const)
					return ok && k.Int64() == i64
				})})
				if !r {
					return "after the join channel (closed after WaitGroup.Wait) was received"
				}
			}
		}
	}
	if len(gos) > 0 {
		reachable := false
		for _, g := range gos {
			if r, _ := engine.PathExists(fn, g, engine.IsInstr(at), engine.PathQuery{}); r {
				reachable = true
			}
		}
		if !reachable {
			return "before the first goroutine is started in this function"
		}
	}
	return ""
}

// closedAfterWait: a function literal of fn closes the channel after calling WaitGroup.Wait.
func closedAfterWait(fn *ssa.Function, ch ssa.Value) bool {
	var cell ssa.Value
	if ld, ok := ch.(*ssa.UnOp); ok {
		cell = ld.X
	}
	for _, lit := range fn.AnonFuncs {
		var wait, closeI ssa.Instruction
		for _, b := range lit.Blocks {
			for _, in := range b.Instrs {
				if call, ok := in.(*ssa.Call); ok {
					if engine.CalleeName(call) == "(*sync.WaitGroup).Wait" {
						wait = call
					}
					if bi, ok := call.Call.Value.(*ssa.Builtin); ok && bi.Name() == "close" {
						// the closed channel is the captured cell
						if ld, ok := call.Call.Args[0].(*ssa.UnOp); ok {
							if fv, ok := ld.X.(*ssa.FreeVar); ok && cell != nil {
								if al, ok := cell.(*ssa.Alloc); ok && al.Comment == fv.Name() {
									closeI = call
								}
							}
						}
					}
				}
			}
		}
		if wait != nil && closeI != nil {
			if r, _ := engine.PathExists(lit, nil, engine.IsInstr(closeI), engine.PathQuery{CutInstr: engine.IsInstr(wait)}); !r {
				return true
			}
		}
	}
	// the closing goroutine may be a named function that receives the channel as an argument
	strip := func(v ssa.Value) ssa.Value {
		for {
			switch x := v.(type) {
			case *ssa.ChangeType:
				v = x.X
			case *ssa.Convert:
				v = x.X
			default:
				return v
			}
		}
	}
	for _, b := range fn.Blocks {
		for _, in := range b.Instrs {
			g, ok := in.(*ssa.Go)
			if !ok {
				continue
			}
			h := g.Call.StaticCallee()
			if h == nil || len(h.Blocks) == 0 {
				continue
			}
			for i, a := range g.Call.Args {
				if strip(a) != strip(ch) || i >= len(h.Params) {
					continue
				}
				var wait, closeI ssa.Instruction
				for _, hb := range h.Blocks {
					for _, hin := range hb.Instrs {
						call, ok := hin.(*ssa.Call)
						if !ok {
							continue
						}
						if engine.CalleeName(call) == "(*sync.WaitGroup).Wait" {
							wait = call
						}
						if bi, ok := call.Call.Value.(*ssa.Builtin); ok && bi.Name() == "close" && strip(call.Call.Args[0]) == ssa.Value(h.Params[i]) {
							closeI = call
						}
					}
				}
				if wait != nil && closeI != nil {
					if r, _ := engine.PathExists(h, nil, engine.IsInstr(closeI), engine.PathQuery{CutInstr: engine.IsInstr(wait)}); !r {
						return true
					}
				}
			}
		}
	}
	return false
}

// ---------------------------------------------------------------------------
// R04b registration precedes spawn

func ruleR04b(c *Check, w *walkerInfo) {
	c.Rule("R04b", "in the function that spawns the node routines, no store into the node registry is reachable after a routine has been spawned or a node released (otherwise a completion can find its dependant unregistered and the ready signal is lost)", 1)
	if w == nil {
		return
	}
	fn := w.Walk
	reg := fk("dag.Walker", "nodeInfoMap")
	var starters []ssa.Instruction
	for _, g := range w.Spawns {
		starters = append(starters, g)
	}
	for _, s := range sitesReaching(c, fn, fnSet(w.StartNode)) {
		starters = append(starters, s)
	}
	bad := ""
	var pos string
	for _, b := range fn.Blocks {
		for _, in := range b.Instrs {
			mu, ok := in.(*ssa.MapUpdate)
			if !ok || !isLoadOfField(mu.Map, reg) {
				continue
			}
			for _, st := range starters {
				if r, _ := engine.PathExists(fn, st, engine.IsInstr(mu), engine.PathQuery{}); r {
					bad = "a node is registered (" + c.P.InstrPos(mu) + ") after a routine was spawned / a node started (" + c.P.InstrPos(st) + "): a fast root can complete and look up a dependant that is not registered yet — its ready signal is dropped and the walk waits forever"
					pos = c.P.InstrPos(mu)
				}
			}
		}
	}
	c.Require(bad == "", "R04b", "register-before-spawn/"+c.P.FuncName(fn), "all registry stores precede every spawn and every start", bad, pos)
}

// ---------------------------------------------------------------------------
// R04c completion on every exit; interrupted walk returns without blocking

func ruleR04c(c *Check, w *walkerInfo) {
	c.Rule("R04c", "the node routine defers WaitGroup.Done first; after the callback returned, every path to the routine's exit reports a completion unless the walk's own context is done (ctx.Err() != nil); every Add(1) is followed by the spawn; the walk's final select has a join arm and a ctx.Done arm, and the ctx.Done arm cancels all nodes and returns without any blocking operation", 4)
	if w == nil {
		return
	}
	rn := c.P.FuncName(w.Routine)
	// defer Done first
	firstDefer := false
	for _, in := range w.Routine.Blocks[0].Instrs {
		if d, ok := in.(*ssa.Defer); ok {
			firstDefer = engine.CalleeName(d) == "(*sync.WaitGroup).Done"
			break
		}
		if _, isCall := in.(ssa.CallInstruction); isCall {
			break
		}
	}
	c.Require(firstDefer, "R04c", "routine-defers-done/"+rn, "WaitGroup.Done is deferred before anything else in the routine", "the node routine does not defer WaitGroup.Done as its first action: a panic or early return would leave the walk waiting forever", c.P.Pos(w.Routine.Pos()))
	// completion on every exit after the callback
	completes := callsToFn(c, w.Routine, w.OnComplete)
	isComplete := func(in ssa.Instruction) bool {
		for _, s := range completes {
			if in == ssa.Instruction(s) {
				return true
			}
		}
		return false
	}
	isRet := func(in ssa.Instruction) bool { _, r := in.(*ssa.Return); return r }
	// the only exit without a completion is the one taken when the walk's own context is done: `ctx.Err() != nil`
	// (a callback error that merely wraps context.Canceled says nothing about the walk — a cache client may
	// cancel a request context of its own — and leaving the node uncompleted makes its dependants wait forever)
	fromCtxErr := func(v ssa.Value) bool {
		for _, o := range engine.Origins(v) {
			if call, _ := engine.CallOf(o); call != nil && strings.HasSuffix(engine.CalleeName(call), "context.Context).Err") {
				return true
			}
		}
		return false
	}
	reach, at := engine.PathExists(w.Routine, w.CallbackCall, isRet, engine.PathQuery{CutInstr: isComplete, CutEdge: engine.CutEdgesWhere(func(a engine.Atom) bool {
		if a.Op == "nonnil" && fromCtxErr(a.V) {
			return true
		}
		// errors.Is(ctx.Err(), context.Canceled) == true
		call, _ := engine.CallOf(a.V)
		if a.Op == "true" && call != nil && engine.CalleeName(call) == "errors.Is" && len(call.Common().Args) == 2 {
			return fromCtxErr(call.Common().Args[0])
		}
		return false
	})})
	pos := c.P.InstrPos(w.CallbackCall)
	if at != nil {
		pos = c.P.InstrPos(at)
	}
	c.Require(!reach && len(completes) > 0, "R04c", "completion-on-every-exit/"+rn, "after the callback every path on which the walk's context is not known to be done reports a completion", "the routine can exit after running the callback without reporting a completion although the walk's own context is not known to be done (a callback error that wraps context.Canceled is not evidence of that): the failed target is never recorded, its dependants are never released nor cancelled and the walk hangs", pos)
	// walk: Add(1) then spawn
	wn := c.P.FuncName(w.Walk)
	okAdd := true
	for _, g := range w.Spawns {
		adds := callsNamed(w.Walk, "(*sync.WaitGroup).Add")
		dom := false
		for _, a := range adds {
			if r, _ := engine.PathExists(w.Walk, nil, engine.IsInstr(g), engine.PathQuery{CutInstr: engine.IsInstr(a)}); !r {
				lpA, lpG := engine.LoopOf(a), engine.LoopOf(g)
				if (lpA == nil) == (lpG == nil) && (lpA == nil || lpA.Header == lpG.Header) {
					dom = true
				}
				// one Add(len(xs)) in front of the loop that starts one routine per element of xs
				if lpA == nil && lpG != nil && lpG.RangedValue() != nil && len(a.Common().Args) == 2 {
					if coll, isLen := lenArg(a.Common().Args[1]); isLen && (sameSlice(coll, lpG.RangedValue()) || engine.ExprKey(coll) == engine.ExprKey(lpG.RangedValue())) && lpG.IsFullRange() {
						dom = true
					}
				}
			}
		}
		if !dom {
			okAdd = false
		}
	}
	c.Require(okAdd, "R04c", "add-before-spawn/"+wn, "each spawn is dominated by WaitGroup.Add in the same loop iteration", "a routine is spawned without a preceding WaitGroup.Add: the join can return early or Done panics on a negative counter", c.P.Pos(w.Walk.Pos()))
	// final select
	var sel *ssa.Select
	for _, b := range w.Walk.Blocks {
		for _, in := range b.Instrs {
			if s, ok := in.(*ssa.Select); ok && s.Blocking {
				sel = s
			}
		}
	}
	if sel == nil {
		c.Bad("R04c", "walk-select/"+wn, "the walk does not wait on a select over the join and ctx.Done", c.P.Pos(w.Walk.Pos()))
		return
	}
	ctxIdx, joinIdx := -1, -1
	for i, st := range sel.States {
		if call, _ := engine.CallOf(st.Chan); call != nil && call.Common().IsInvoke() && call.Common().Method.Name() == "Done" {
			ctxIdx = i
		} else if closedAfterWait(w.Walk, st.Chan) {
			joinIdx = i
		}
	}
	if ctxIdx < 0 || joinIdx < 0 {
		c.Bad("R04c", "walk-select/"+wn, fmt.Sprintf("the walk's select lacks an arm (ctx.Done arm: %v, join arm: %v)", ctxIdx >= 0, joinIdx >= 0), c.P.InstrPos(sel))
		return
	}
	// on the ctx arm: cancel-all is called, and no blocking op before return
	var armBlock *ssa.BasicBlock
	for _, b := range w.Walk.Blocks {
		for i := range b.Succs {
			if a, ok := engine.EdgeAtom(b, i); ok && a.Op == "eq" {
				if ex, ok := a.V.(*ssa.Extract); ok && ex.Tuple == ssa.Value(sel) && ex.Index == 0 {
					if k, ok := a.Other.(*ssa.Const); ok && k.Int64() == int64(ctxIdx) {
						armBlock = b.Succs[i]
					}
				}
			}
		}
	}
	if armBlock == nil {
		c.Unknown("R04c", "interrupt-returns/"+wn, "could not locate the ctx.Done arm of the select", c.P.InstrPos(sel))
		return
	}
	cancels := sitesReaching(c, w.Walk, fnSet(w.CancelNode))
	isCancelAll := func(in ssa.Instruction) bool {
		for _, s := range cancels {
			if in == ssa.Instruction(s) {
				return true
			}
		}
		return false
	}
	blocking := func(in ssa.Instruction) bool {
		switch x := in.(type) {
		case *ssa.UnOp:
			return x.Op == token.ARROW
		case *ssa.Select:
			return x.Blocking
		case *ssa.Call:
			n := engine.CalleeName(x)
			return n == "(*sync.WaitGroup).Wait"
		}
		return false
	}
	noCancel, _ := engine.PathExists(w.Walk, armBlock.Instrs[0], isRet, engine.PathQuery{CutInstr: isCancelAll})
	if isCancelAll(armBlock.Instrs[0]) {
		noCancel = false
	}
	blocks, bat := engine.PathExists(w.Walk, armBlock.Instrs[0], blocking, engine.PathQuery{})
	bpos := c.P.InstrPos(sel)
	if bat != nil {
		bpos = c.P.InstrPos(bat)
	}
	c.Require(!noCancel && !blocks, "R04c", "interrupt-returns/"+wn, "on ctx.Done the walk cancels every node and returns without waiting on anything",
		map[bool]string{true: "on ctx.Done the walk blocks (channel receive / Wait) before returning: node routines stuck in a callback that no longer makes progress (queued pool jobs after the workers exited) keep the build from ever returning after an interrupt", false: "on ctx.Done the walk returns without cancelling the parked node routines"}[blocks], bpos)
}

// ---------------------------------------------------------------------------
// R04d error channels under a join

func ruleR04d(c *Check) {
	c.Rule("R04d", "for every channel that goroutines joined by a WaitGroup send on: each send is non-blocking (select/default), or the channel is drained concurrently with the senders (the join happens in a separate goroutine), or its capacity is len(X) with exactly one goroutine per element of that same X and at most one send on any path of the goroutine", 2)
	type chanInfo struct {
		mk    *ssa.MakeChan
		sends []ssa.Instruction
	}
	// sends inside goroutine literals that defer WaitGroup.Done
	joined := func(fn *ssa.Function) bool {
		for _, b := range fn.Blocks {
			for _, in := range b.Instrs {
				if d, ok := in.(*ssa.Defer); ok && engine.CalleeName(d) == "(*sync.WaitGroup).Done" {
					return true
				}
			}
		}
		return false
	}
	chans := map[*ssa.MakeChan]*chanInfo{}
	var order []*ssa.MakeChan
	sendLit := map[ssa.Instruction]*ssa.Function{} // the joined goroutine a send runs on
	type scanItem struct{ fn, lit *ssa.Function }
	var scan []scanItem
	for _, fn := range c.P.Funcs {
		if !joined(fn) {
			continue
		}
		// a goroutine body: a function literal, or a named function/method started with `go`
		spawned := fn.Parent() != nil
		for _, cs := range c.G.CallersOf(fn) {
			if _, isGo := cs.(*ssa.Go); isGo {
				spawned = true
			}
		}
		if !spawned {
			continue
		}
		scan = append(scan, scanItem{fn, fn})
		// helpers the goroutine calls synchronously (a wrapped non-blocking send, say)
		seenH := map[*ssa.Function]bool{fn: true}
		work := []*ssa.Function{fn}
		for d := 0; d < 2; d++ {
			var next []*ssa.Function
			for _, f := range work {
				for _, s := range engine.SitesIn(f) {
					if call, ok := s.(*ssa.Call); ok {
						if h := call.Call.StaticCallee(); h != nil && len(h.Blocks) > 0 && !seenH[h] {
							seenH[h] = true
							scan = append(scan, scanItem{h, fn})
							next = append(next, h)
						}
					}
				}
			}
			work = next
		}
	}
	for _, it := range scan {
		fn := it.fn
		for _, b := range fn.Blocks {
			for _, in := range b.Instrs {
				var ch ssa.Value
				switch x := in.(type) {
				case *ssa.Send:
					ch = x.Chan
				case *ssa.Select:
					for _, st := range x.States {
						if st.Dir == types.SendOnly {
							ch = st.Chan
						}
					}
				}
				if ch == nil {
					continue
				}
				back := c.G.Backward([]Node{ch}, func(e *engine.Edge) bool {
					switch e.Via.(type) {
					case *ssa.Send, *ssa.Select:
						return false // a value sent into a channel is not an alias of the channel
					}
					return e.Kind != engine.EField && e.Kind != engine.EExtArg && e.Kind != engine.EExtWrite
				})
				for n := range back.Parent {
					if mk, ok := n.(*ssa.MakeChan); ok {
						if chans[mk] == nil {
							chans[mk] = &chanInfo{mk: mk}
							order = append(order, mk)
						}
						chans[mk].sends = append(chans[mk].sends, in)
						sendLit[in] = it.lit
					}
				}
			}
		}
	}
	sort.Slice(order, func(i, j int) bool { return order[i].Pos() < order[j].Pos() })
	for _, mk := range order {
		ci := chans[mk]
		owner := mk.Parent()
		key := "error-channel/" + c.P.FuncName(owner)

		// (a) every send is a select with default
		allNB := true
		for _, sd := range ci.sends {
			if sel, ok := sd.(*ssa.Select); !ok || sel.Blocking {
				allNB = false
			}
		}
		if allNB {
			// a send that never blocks drops the error when the buffer is full: the buffer must have room
			// for at least one, or every error is lost and the join reports success
			atLeastOne := false
			switch sz := mk.Size.(type) {
			case *ssa.Const:
				atLeastOne = sz.Int64() >= 1
			case *ssa.BinOp:
				if sz.Op == token.ADD {
					for _, side := range []ssa.Value{sz.X, sz.Y} {
						if k, ok := side.(*ssa.Const); ok && k.Int64() >= 1 {
							atLeastOne = true
						}
					}
				}
			}
			c.Require(atLeastOne, "R04d", key, fmt.Sprintf("all %d sends are non-blocking (select with default) and the buffer holds at least one error", len(ci.sends)), "every send on this error channel is non-blocking but its capacity can be zero: with an empty buffer each error is dropped on the floor and the operation reports success although a goroutine failed (e.g. a directory restored with files missing)", c.P.InstrPos(mk))
			continue
		}
		// (c) drained concurrently: a receive on the channel in the owner reachable without passing WaitGroup.Wait
		if drainedConcurrently(c, owner, mk) {
			c.OK("R04d", key, "the channel is drained while the senders run (the join + close happen in a separate goroutine)", c.P.InstrPos(mk))
			continue
		}
		// (b) capacity == len(X), one goroutine per element of X, <= 1 send per path
		capColl, isLen := lenArg(mk.Size)
		if !isLen {
			if k, ok := mk.Size.(*ssa.Const); ok && int(k.Int64()) >= len(ci.sends) && !anyInLoop(ci.sends) && spawnedOnce(c, ci.sends) {
				c.OK("R04d", key, fmt.Sprintf("constant capacity %d covers the %d send sites, each executed at most once", k.Int64(), len(ci.sends)), c.P.InstrPos(mk))
				continue
			}
			c.Bad("R04d", key, "goroutines that are waited for send on a channel whose capacity is not tied to the number of senders and which is only drained after the join: when more sends happen than the buffer holds, the sender blocks forever and the join never returns", c.P.InstrPos(mk))
			continue
		}
		bad := ""
		for _, s := range ci.sends {
			lit := sendLit[s]
			// the go statement launching lit, and the loop it sits in
			var spawn ssa.Instruction
			for _, cs := range c.G.CallersOf(lit) {
				if _, isGo := cs.(*ssa.Go); isGo {
					spawn = cs
				}
			}
			if spawn == nil {
				bad = "sender goroutine's spawn site not found"
				continue
			}
			// the go statement may sit in a small helper of the owner (`group.start(func() error {…})`):
			// what counts is how often the owner calls that helper
			for hop := 0; hop < 2 && engine.TopFunc(spawn.Parent()) != engine.TopFunc(owner); hop++ {
				var up ssa.Instruction
				n := 0
				for _, cs := range c.G.CallersOf(engine.TopFunc(spawn.Parent())) {
					if _, isGo := cs.(*ssa.Go); !isGo {
						up = cs
						n++
					}
				}
				if n != 1 {
					break
				}
				spawn = up
			}
			lp := engine.LoopOf(spawn)
			if lp == nil || lp.RangedValue() == nil {
				bad = "the sending goroutines are not spawned in a range loop"
				continue
			}
			if !(sameSlice(lp.RangedValue(), capColl) || engine.ExprKey(lp.RangedValue()) == engine.ExprKey(capColl)) {
				bad = fmt.Sprintf("the buffer holds len(%s) errors but one sender is spawned per element of %s", shortKey(capColl), shortKey(lp.RangedValue()))
				continue
			}
			// at most one send per goroutine path
			for _, s2 := range ci.sends {
				if s2.Parent() != lit {
					continue
				}
				if r, _ := engine.PathExists(lit, s, engine.IsInstr(s2), engine.PathQuery{}); r {
					bad = "one goroutine can send more than once (" + c.P.InstrPos(s) + " then " + c.P.InstrPos(s2) + ")"
				}
			}
		}
		c.Require(bad == "", "R04d", key, "capacity len(X), one joined sender per element of X, at most one send each", "a joined goroutine can block forever on its error send — "+bad+": with more failures than buffer slots (e.g. one failing blob in a flat directory whose buffer has room for 0) the join never returns and the build hangs", c.P.InstrPos(mk))
	}
	if len(order) == 0 {
		c.Unknown("R04d", "error-channel", "no channel with joined senders found", "-")
	}
}

func shortKey(v ssa.Value) string {
	k := engine.ExprKey(v)
	k = strings.ReplaceAll(k, "var:", "")
	k = strings.ReplaceAll(k, "*", "")
	return k
}

func anyInLoop(ins []ssa.Instruction) bool {
	for _, in := range ins {
		if engine.InLoop(in) {
			return true
		}
	}
	return false
}

func spawnedOnce(c *Check, sends []ssa.Instruction) bool {
	for _, s := range sends {
		for _, cs := range c.G.CallersOf(s.Parent()) {
			if engine.InLoop(cs) {
				return false
			}
		}
	}
	return true
}

// drainedConcurrently: the owner receives from the channel on a path that does not pass WaitGroup.Wait.
func drainedConcurrently(c *Check, owner *ssa.Function, mk *ssa.MakeChan) bool {
	fwd := c.G.Forward([]Node{mk}, func(e *engine.Edge) bool { return e.Via != nil && e.Via.Parent() == owner && e.Kind != engine.EField })
	isRecv := func(in ssa.Instruction) bool {
		u, ok := in.(*ssa.UnOp)
		return ok && u.Op == token.ARROW && fwd.Has(u.X)
	}
	isWait := func(in ssa.Instruction) bool {
		call, ok := in.(*ssa.Call)
		return ok && engine.CalleeName(call) == "(*sync.WaitGroup).Wait"
	}
	r, _ := engine.PathExists(owner, nil, isRecv, engine.PathQuery{CutInstr: isWait})
	return r
}

// ---------------------------------------------------------------------------
// R04e explicit panics

var panicTable = map[string]string{
	"(*output.Registry).Register":                "duplicate handler type at construction time: programming error, unreachable with the built-in handlers",
	"(*output.Registry).mustGetHandlerFromProto": "unknown stored output kind: dominated by validateTargetResultOutputs, which rejects unknown kinds before any load (R01e)",
	"(*output.Registry).mustGetHandler":          "handler type not registered: output types are validated against KnownHandlerTypes at parse time (R06d)",
	"(*worker.TaskWorkerPool[T]).enqueue$1":      "re-panics a recovered panic that was not the closed-channel send",
	"cmd.Execute":                                "cobra initialisation error at start-up",
	"cmd.init":                                   "cobra flag registration at start-up",
	"console.mustNewLogger":                      "logger construction at start-up",
}

// panicStructurallyFine recognises three shapes of panic that need no table entry:
// re-raising a recovered panic; a failed/duplicate lookup in a table the receiver owns (a registry consulted
// with keys that were validated where they entered); the default of an exhaustive type switch over a
// first-party interface (every first-party implementer has its own case).
func panicStructurallyFine(c *Check, fn *ssa.Function, p *ssa.Panic) (bool, string) {
	for _, o := range engine.Origins(p.X) {
		if call, ok := o.(*ssa.Call); ok {
			if b, ok := call.Call.Value.(*ssa.Builtin); ok && b.Name() == "recover" {
				return true, "re-raises a recovered panic"
			}
		}
	}
	ownTable := engine.CutEdgesWhere(func(a engine.Atom) bool {
		ex, ok := a.V.(*ssa.Extract)
		if !ok || ex.Index != 1 {
			return false
		}
		lk, ok := ex.Tuple.(*ssa.Lookup)
		if !ok || !lk.CommaOk {
			return false
		}
		ld, ok := lk.X.(*ssa.UnOp)
		if !ok {
			return false
		}
		fa, ok := ld.X.(*ssa.FieldAddr)
		return ok && fn.Signature.Recv() != nil && len(fn.Params) > 0 && fa.X == ssa.Value(fn.Params[0])
	})
	if r, _ := engine.PathExists(fn, nil, engine.IsInstr(p), engine.PathQuery{CutEdge: ownTable, Shallow: true}); !r {
		return true, "guarded by a lookup in a table of the receiver (registry consulted with keys validated at their entry point)"
	}
	// exhaustive type switch
	asserted := map[string]bool{}
	var subject ssa.Value
	failedAssert := engine.CutEdgesWhere(func(a engine.Atom) bool {
		ex, ok := a.V.(*ssa.Extract)
		if !ok || ex.Index != 1 || a.Op != "true" {
			return false
		}
		ta, ok := ex.Tuple.(*ssa.TypeAssert)
		return ok && ta.CommaOk
	})
	for _, b := range fn.Blocks {
		for _, in := range b.Instrs {
			if ta, ok := in.(*ssa.TypeAssert); ok && ta.CommaOk {
				if subject == nil || sameVar(subject, ta.X) || subject == ta.X {
					subject = ta.X
					asserted[ta.AssertedType.String()] = true
				}
			}
		}
	}
	if subject != nil {
		if iface, ok := subject.Type().Underlying().(*types.Interface); ok {
			impls := c.P.Implementers(iface)
			all := len(impls) > 0
			for _, im := range impls {
				if !asserted[im.String()] && !asserted["*"+im.String()] && !asserted[strings.TrimPrefix(im.String(), "*")] {
					all = false
				}
			}
			// the panic is only reachable when every assertion failed
			if all {
				if r, _ := engine.PathExists(fn, nil, engine.IsInstr(p), engine.PathQuery{CutEdge: failedAssert, Shallow: true}); r {
					// reachable without passing through a succeeded assertion: that is the default branch
					return true, "default of a type switch that has a case for every first-party implementer of the interface"
				}
			}
		}
	}
	return false, ""
}

func ruleR04e(c *Check) {
	c.Rule("R04e", "explicit panic sites in first-party code are exactly the tabled construction-time / unreachable checks; unchecked type assertions are confined to the tabled sites", 4)
	for _, fn := range c.P.Funcs {
		for _, b := range fn.Blocks {
			for _, in := range b.Instrs {
				switch x := in.(type) {
				case *ssa.Panic:
					if !x.Pos().IsValid() {
						continue // compiler-generated (impossible select index)
					}
					name := c.P.FuncName(fn)
					ok, why := panicStructurallyFine(c, fn, x)
					if !ok {
						why, ok = panicTable[name]
					}
					if !ok {
						why, ok = panicTable[c.P.FuncName(engine.TopFunc(fn))]
					}
					if !ok && (engine.InPackage(fn, "cmd") || engine.InPackage(fn, "console")) && !engine.InPackage(fn, "cmd/cmds") {
						ok, why = true, "start-up initialisation"
					}
					c.Require(ok, "R04e", "panic-site/"+name, "tabled: "+why, "an explicit panic in code reachable during a build that is not in the reasoned table: a malformed input or cache entry would crash the process instead of failing the target", c.P.InstrPos(x))
				case *ssa.TypeAssert:
					if x.CommaOk || !x.Pos().IsValid() {
						continue
					}
					if engine.InPackage(fn, "proto/gen") {
						continue
					}
					name := c.P.FuncName(fn)
					okT := false
					why := ""
					switch {
					case syncPoolHoldsOnly(c, x):
						okT, why = true, "the value comes from a sync.Pool whose New function and every Put supply the asserted type"
					case syncMapHoldsOnly(c, x):
						okT, why = true, "the value comes from a sync.Map field into which only values of the asserted type are ever stored"
					case strings.HasPrefix(name, "console.") || strings.HasPrefix(name, "(*console.") || strings.HasPrefix(name, "(console."):
						okT, why = true, "context values set by the console package itself / bubbletea models"
					case strings.Contains(name, "starlark"):
						okT, why = true, "checked by R16e"
					}
					// a preceding type switch / comma-ok on the same value makes it safe
					if !okT && assertionGuarded(x) {
						okT, why = true, "guarded by a preceding type test on the same value"
					}
					c.Require(okT, "R04e", "unchecked-assertion/"+name, "tabled: "+why, "unchecked type assertion: a value of another dynamic type panics", c.P.InstrPos(x))
				}
			}
		}
	}
}

// syncMapHoldsOnly: the asserted value was loaded from a sync.Map held in a struct field, and every
// Store/LoadOrStore/Swap into that field (anywhere in first-party code) stores a value of the asserted type.
// syncPoolHoldsOnly: the asserted value is the result of Get on a pool (a package variable or a struct field)
// whose New function returns the asserted type and into which only values of that type are Put.
func syncPoolHoldsOnly(c *Check, x *ssa.TypeAssert) bool {
	poolKey := ""
	for _, o := range engine.Origins(x.X) {
		call, _ := engine.CallOf(o)
		if call == nil || engine.CalleeName(call) != "(*sync.Pool).Get" {
			return false
		}
		switch call.Common().Args[0].(type) {
		case *ssa.Global, *ssa.FieldAddr:
		default:
			return false
		}
		k := engine.ExprKey(call.Common().Args[0])
		if poolKey != "" && k != poolKey {
			return false
		}
		poolKey = k
	}
	if poolKey == "" {
		return false
	}
	for _, s := range c.G.CallsTo("(*sync.Pool).Put") {
		if engine.ExprKey(s.Common().Args[0]) != poolKey {
			switch s.Common().Args[0].(type) {
			case *ssa.Global, *ssa.FieldAddr:
				continue
			}
			return false
		}
		mi, ok := s.Common().Args[1].(*ssa.MakeInterface)
		if !ok || !types.Identical(mi.X.Type(), x.AssertedType) {
			return false
		}
	}
	// the New function of this pool
	newOK := false
	for _, st := range storesToField(c, fk("sync.Pool", "New")) {
		fa, ok := st.Addr.(*ssa.FieldAddr)
		if !ok {
			continue
		}
		same := engine.ExprKey(fa.X) == poolKey
		// a composite literal is built in a temporary and then copied into the variable
		if al, isAl := fa.X.(*ssa.Alloc); isAl && !same {
			for _, ref := range *al.Referrers() {
				if ld, isLd := ref.(*ssa.UnOp); isLd {
					for _, r2 := range *ld.Referrers() {
						if cp, isSt := r2.(*ssa.Store); isSt && cp.Val == ssa.Value(ld) && engine.ExprKey(cp.Addr) == poolKey {
							same = true
						}
					}
				}
			}
		}
		if !same {
			continue
		}
		var nf *ssa.Function
		switch v := st.Val.(type) {
		case *ssa.Function:
			nf = v
		case *ssa.MakeClosure:
			nf, _ = v.Fn.(*ssa.Function)
		}
		if nf == nil {
			return false
		}
		newOK = true
		for _, r := range engine.Returns(nf) {
			for _, o := range engine.Origins(r.Results[0]) {
				mi, isMI := o.(*ssa.MakeInterface)
				if !isMI || !types.Identical(mi.X.Type(), x.AssertedType) {
					if r0, isMI0 := r.Results[0].(*ssa.MakeInterface); !isMI0 || !types.Identical(r0.X.Type(), x.AssertedType) {
						return false
					}
				}
			}
		}
	}
	return newOK
}

func syncMapHoldsOnly(c *Check, x *ssa.TypeAssert) bool {
	fieldOf := func(recv ssa.Value) (engine.FieldKey, bool) {
		if fa, ok := recv.(*ssa.FieldAddr); ok {
			return engine.FieldKeyOf(fa.X.Type(), fa.Field), true
		}
		return engine.FieldKey{}, false
	}
	var key engine.FieldKey
	found := false
	for _, o := range engine.Origins(x.X) {
		call, idx := engine.CallOf(o)
		if call == nil || idx != 0 {
			return false
		}
		n := engine.CalleeName(call)
		if n != "(*sync.Map).Load" && n != "(*sync.Map).LoadOrStore" {
			return false
		}
		k, ok := fieldOf(call.Common().Args[0])
		if !ok || (found && k != key) {
			return false
		}
		key, found = k, true
	}
	if !found {
		return false
	}
	stores := 0
	for _, s := range c.G.CallsTo("(*sync.Map).Store", "(*sync.Map).LoadOrStore", "(*sync.Map).Swap", "(*sync.Map).CompareAndSwap") {
		k, ok := fieldOf(s.Common().Args[0])
		if !ok || k != key {
			// another map: a different field, a package-level variable or a local one. A map reached
			// through a pointer of unknown origin could be this field: give up.
			if !ok {
				switch s.Common().Args[0].(type) {
				case *ssa.Global, *ssa.Alloc:
				default:
					return false
				}
			}
			continue
		}
		stores++
		val := s.Common().Args[len(s.Common().Args)-1]
		mi, ok := val.(*ssa.MakeInterface)
		if !ok || !types.Identical(mi.X.Type(), x.AssertedType) {
			return false
		}
	}
	return stores > 0
}

func assertionGuarded(x *ssa.TypeAssert) bool {
	for _, r := range *x.X.Referrers() {
		if ta, ok := r.(*ssa.TypeAssert); ok && ta != x && ta.CommaOk && types.Identical(ta.AssertedType, x.AssertedType) && ta.Block().Dominates(x.Block()) {
			return true
		}
	}
	return false
}

// ---------------------------------------------------------------------------
// lock pairing (shared with C03/C16)

func ruleLockPairing(c *Check, rule string) {
	c.Rule(rule, "every mutex acquisition (sync.Mutex/RWMutex and the keyed per-target MutexMap) is followed on every path to a return by the matching release, or by the registration of its deferred release", 20)
	for _, fn := range c.P.Funcs {
		if engine.InPackage(fn, "maps") {
			continue // the keyed mutex itself hands the inner lock to its caller by design
		}
		for _, s := range engine.SitesIn(fn) {
			call, ok := s.(*ssa.Call)
			if !ok {
				continue
			}
			op, ok := engine.ClassifyLock(call)
			if !ok || !op.Acquire {
				continue
			}
			release := func(in ssa.Instruction) bool {
				ci, ok := in.(ssa.CallInstruction)
				if !ok {
					return false
				}
				if _, isGo := ci.(*ssa.Go); isGo {
					return false
				}
				o2, ok := engine.ClassifyLock(ci)
				return ok && !o2.Acquire && o2.Key == op.Key && o2.Read == op.Read
			}
			isRet := func(in ssa.Instruction) bool { _, r := in.(*ssa.Return); return r }
			// an acquire helper: it returns the closure that releases the lock it took (`defer t.lockTarget(x)()`)
			// — the release is owed by its callers, which must invoke what they get back
			if ok, why := returnsItsUnlock(c, fn, op); ok {
				c.Require(why == "", rule, "lock-released/"+c.P.FuncName(fn)+"/"+strings.TrimPrefix(op.Key, "*"), "the function returns the closure that releases the lock, and every caller invokes (or defers) it", why, c.P.InstrPos(call))
				continue
			}
			reach, at := engine.PathExists(fn, call, isRet, engine.PathQuery{CutInstr: release})
			pos := c.P.InstrPos(call)
			w := ""
			if at != nil {
				w = " (return at " + c.P.InstrPos(at) + ")"
			}
			c.Require(!reach, rule, "lock-released/"+c.P.FuncName(fn)+"/"+strings.TrimPrefix(op.Key, "*"), "released (or release deferred) on every path", "the lock taken here is not released on every path"+w+": the next goroutine that needs it blocks forever (a hang instead of an error)", pos)
		}
	}
}

// loaderTable finds the function that spawns the loader goroutines and its shared package map / mutex locals.
func loaderTable(c *Check) (lp *ssa.Function, mapVar, muVar *ssa.Alloc) {
	for _, fn := range c.P.Funcs {
		if engine.InPackage(fn, "loading") && fn.Parent() == nil && len(callsNamed(fn, "github.com/boyter/gocodewalker.NewParallelFileWalker")) > 0 {
			lp = fn
		}
	}
	if lp == nil {
		return
	}
	for _, b := range lp.Blocks {
		for _, in := range b.Instrs {
			if al, ok := in.(*ssa.Alloc); ok {
				et := al.Type().Underlying().(*types.Pointer).Elem()
				if m, ok := et.Underlying().(*types.Map); ok && engine.TypeKey(m.Elem()) == "model.Package" {
					mapVar = al
				}
				if et.String() == "sync.Mutex" || et.String() == "sync.RWMutex" {
					muVar = al
				}
			}
		}
	}
	return
}

// ruleTableInsertAtomic: the decision "this directory has no package yet" and the insert that follows from it
// are one critical section. Two package files of one directory are loaded by different goroutines; if the lock
// is released between the lookup and the insert, both can see "absent" and the second insert replaces the
// first package: its targets vanish without an error.
func ruleTableInsertAtomic(c *Check, rule string) {
	c.Rule(rule, "in internal/loading every insert into a package table (map[string]*model.Package) is reached from the lookup of that table that decided it without a mutex being released in between (or the lookup is repeated after re-acquiring)", 1)
	isTable := func(v ssa.Value) bool {
		m, ok := v.Type().Underlying().(*types.Map)
		if !ok || engine.TypeKey(m.Elem()) != "model.Package" {
			return false
		}
		return isStringType(m.Key())
	}
	n := 0
	for _, fn := range c.P.Funcs {
		if !engine.InPackage(fn, "loading") {
			continue
		}
		var lookups, updates, releases []ssa.Instruction
		for _, b := range fn.Blocks {
			for _, in := range b.Instrs {
				switch x := in.(type) {
				case *ssa.Lookup:
					if isTable(x.X) {
						lookups = append(lookups, x)
					}
				case *ssa.MapUpdate:
					if isTable(x.Map) {
						updates = append(updates, x)
					}
				case *ssa.Call:
					if op, ok := engine.ClassifyLock(x); ok && !op.Acquire {
						releases = append(releases, x)
					}
				}
			}
		}
		sameTable := func(lk *ssa.Lookup, mu *ssa.MapUpdate) bool {
			return engine.ExprKey(lk.X) == engine.ExprKey(mu.Map) || sameVar(lk.X, mu.Map)
		}
		for _, ui := range updates {
			mu := ui.(*ssa.MapUpdate)
			n++
			bad := ""
			decided := 0
			isLookup := func(in ssa.Instruction) bool {
				lk, ok := in.(*ssa.Lookup)
				return ok && sameTable(lk, mu)
			}
			for _, li := range lookups {
				lk := li.(*ssa.Lookup)
				if !sameTable(lk, mu) {
					continue
				}
				decided++
				for _, r := range releases {
					a, _ := engine.PathExists(fn, lk, engine.IsInstr(r), engine.PathQuery{Shallow: true, CutInstr: func(in ssa.Instruction) bool { return in != ssa.Instruction(lk) && isLookup(in) }})
					b, _ := engine.PathExists(fn, r, engine.IsInstr(mu), engine.PathQuery{Shallow: true, CutInstr: isLookup})
					if a && b {
						bad = "the lock is released at " + c.P.InstrPos(r) + " between the lookup (" + c.P.InstrPos(lk) + ") and this insert"
					}
				}
			}
			if decided == 0 {
				continue // an unconditional insert (building a fresh table) decides nothing
			}
			c.Require(bad == "", rule, "lookup-and-insert-in-one-critical-section/"+c.P.FuncName(engine.TopFunc(fn)), "no lock release lies between the deciding lookup and the insert", bad+": two goroutines that load package files of the same directory can both find it absent, and the later insert silently replaces the earlier package (its targets are gone: fewer targets are built than the patterns match, and which ones depends on the schedule)", c.P.InstrPos(mu))
		}
	}
	if n == 0 {
		c.Unknown(rule, "lookup-and-insert-in-one-critical-section", "no insert into a package table found in internal/loading", "-")
	}
}

// R04n: what is handed to another goroutine in a message is a copy. The UI goroutine reads the maps inside the
// messages it receives without any lock; a map that the sender keeps and writes again (a struct field reused
// between messages) is read and written concurrently: `fatal error: concurrent map iteration and map write`.
func ruleMessagesCarryCopies(c *Check, rule string) {
	c.Rule(rule, "every map stored into a field of a console message struct (types named …Msg) is a map made in the same function (a fresh copy), never a field or a parameter the sender keeps using", 1)
	n := 0
	for _, fn := range c.P.Funcs {
		for _, b := range fn.Blocks {
			for _, in := range b.Instrs {
				st, ok := in.(*ssa.Store)
				if !ok {
					continue
				}
				if _, isMap := st.Val.Type().Underlying().(*types.Map); !isMap {
					continue
				}
				fa, ok := st.Addr.(*ssa.FieldAddr)
				if !ok {
					continue
				}
				tk := engine.TypeKey(fa.X.Type())
				if !strings.HasPrefix(tk, "console.") || !strings.HasSuffix(tk, "Msg") {
					continue
				}
				n++
				fresh := true
				for _, o := range engine.Origins(st.Val) {
					if mm, ok := o.(*ssa.MakeMap); !ok || mm.Parent() != fn {
						fresh = false
					}
				}
				c.Require(fresh, rule, "message-carries-copy/"+tk+"/"+c.P.FuncName(fn), "the map in the message is made in this function", "the map put into the message is not a fresh copy (it is kept by the sender, e.g. a field reused between messages): the receiving goroutine iterates it without a lock while the sender writes it again — the runtime aborts the process with `concurrent map iteration and map write`", c.P.InstrPos(st))
			}
		}
	}
	if n == 0 {
		c.Unknown(rule, "message-carries-copy", "no map is stored into a console message struct", "-")
	}
}

// returnsItsUnlock: every return of fn yields a function literal whose body releases the lock op names; the
// second result says what is wrong at a call site (a caller that drops the closure).
func returnsItsUnlock(c *Check, fn *ssa.Function, op engine.LockOp) (bool, string) {
	res := fn.Signature.Results()
	if res.Len() != 1 {
		return false, ""
	}
	if _, isFunc := res.At(0).Type().Underlying().(*types.Signature); !isFunc {
		return false, ""
	}
	rets := engine.Returns(fn)
	if len(rets) == 0 {
		return false, ""
	}
	for _, r := range rets {
		if r.Block() == fn.Recover {
			continue
		}
		mc, ok := r.Results[0].(*ssa.MakeClosure)
		if !ok {
			return false, ""
		}
		lit, ok := mc.Fn.(*ssa.Function)
		if !ok {
			return false, ""
		}
		releases := false
		for _, s := range engine.SitesIn(lit) {
			if o2, ok := engine.ClassifyLock(s); ok && !o2.Acquire && o2.Read == op.Read {
				releases = true
			}
		}
		if !releases {
			return false, ""
		}
	}
	for _, cs := range c.G.CallersOf(fn) {
		v := cs.Value()
		used := false
		if v != nil && v.Referrers() != nil {
			for _, r := range *v.Referrers() {
				if ci, ok := r.(ssa.CallInstruction); ok && ci.Common().Value == ssa.Value(v) {
					used = true // called or deferred
				}
			}
		}
		if !used {
			return true, "the unlock closure returned by " + c.P.FuncName(fn) + " is not invoked at " + c.P.InstrPos(cs) + ": the lock stays held"
		}
	}
	return true, ""
}
