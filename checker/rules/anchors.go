package rules

import (
	"go/types"
	"sort"

	"golang.org/x/tools/go/ssa"

	"grogverif/engine"
)

// Role-based anchors: functions are located by what they do (which first-party
// APIs they call, which constants they return, which fields they write), not by
// their own names, so renaming or moving them does not disturb a rule.

// returnsConst: fn has a return whose idx-th result is the named constant.
func returnsConst(fn *ssa.Function, idx int, k *types.Const) []*ssa.Return {
	var out []*ssa.Return
	for _, r := range engine.Returns(fn) {
		if idx < len(r.Results) && constIs(r.Results[idx], k) {
			out = append(out, r)
		}
	}
	return out
}

func callsFn(c *Check, fn, callee *ssa.Function) bool {
	return len(callsToFn(c, fn, callee)) > 0
}

// gate: the function that decides cache hit vs. execution for one target —
// it looks the target result up and can return dag.CacheHit.
func findGate(c *Check, rule string) *ssa.Function {
	load := anchor(c, rule, "caching", "TargetResultCache", "Load")
	hit := c.P.Const("dag", "CacheHit")
	if load == nil || hit == nil {
		if hit == nil {
			c.Unknown(rule, "anchor/dag.CacheHit", "anchor-unresolved: constant dag.CacheHit not found", "-")
		}
		return nil
	}
	var cands []*ssa.Function
	for _, fn := range c.P.Funcs {
		if len(returnsConst(fn, 0, hit)) > 0 && callsFn(c, fn, load) {
			cands = append(cands, fn)
		}
	}
	if len(cands) != 1 {
		c.Unknown(rule, "anchor/cache-hit-gate", "anchor-unresolved: expected exactly one function that calls TargetResultCache.Load and returns dag.CacheHit, found "+names(c, cands), "-")
		return nil
	}
	return cands[0]
}

// writersOfField returns the functions containing a store to the abstract field.
func writersOfField(c *Check, key engine.FieldKey) []*ssa.Function {
	seen := map[*ssa.Function]bool{}
	var out []*ssa.Function
	for _, e := range c.G.In[key] {
		if e.Kind != engine.EStore || e.Via == nil {
			continue
		}
		fn := e.Via.Parent()
		if !seen[fn] {
			seen[fn] = true
			out = append(out, fn)
		}
	}
	sort.Slice(out, func(i, j int) bool { return c.P.FuncName(out[i]) < c.P.FuncName(out[j]) })
	return out
}

// storesToField returns the store instructions writing the abstract field.
func storesToField(c *Check, key engine.FieldKey) []*ssa.Store {
	var out []*ssa.Store
	seen := map[*ssa.Store]bool{}
	for _, e := range c.G.In[key] {
		if st, ok := e.Via.(*ssa.Store); ok && e.Kind == engine.EStore && !seen[st] {
			seen[st] = true
			out = append(out, st)
		}
	}
	sort.Slice(out, func(i, j int) bool { return out[i].Pos() < out[j].Pos() })
	return out
}

// buildNodeImplementers returns the first-party implementers of model.BuildNode.
func buildNodeImplementers(c *Check) []types.Type {
	bn := c.P.Type("model", "BuildNode")
	if bn == nil {
		return nil
	}
	return c.P.Implementers(bn.Underlying().(*types.Interface))
}

// executorExecuteTarget: the Executor method that runs a target's command and
// then records its outputs (calls OnTargetComplete's role: the function that
// calls TargetResultCache.Write is "complete"; its caller that also runs the
// command function is "execute").
type execAnchors struct {
	Write        *ssa.Function // (*caching.TargetResultCache).Write
	Complete     *ssa.Function // the function the executing method calls to store outputs + result (OnTargetComplete)
	ExecMethod   *ssa.Function // caller of Complete that runs the command ((*Executor).executeTarget)
	RunCommand   *ssa.Function // function creating exec.CommandContext (runTargetCommand)
	ExecCommand  *ssa.Function // package-level executeTarget: applies timeout, maps errors
	OutputChecks *ssa.Function // runOutputChecks
}

func findExec(c *Check, rule string) *execAnchors {
	a := &execAnchors{}
	a.Write = anchor(c, rule, "caching", "TargetResultCache", "Write")
	if a.Write == nil {
		return nil
	}
	// the command runner: the function in internal/execution that calls exec.CommandContext
	for _, s := range c.G.CallsTo("os/exec.CommandContext", "os/exec.Command") {
		if engine.InPackage(s.Parent(), "execution") {
			a.RunCommand = engine.TopFunc(s.Parent())
		}
	}
	// the construction of the exec.Cmd may have been moved into a helper: the runner is the function that
	// starts the command (Run/Start/Output/CombinedOutput), which is then the helper's only caller
	startsCommand := func(fn *ssa.Function) bool {
		return len(callsNamed(fn, "(*os/exec.Cmd).Run", "(*os/exec.Cmd).Start", "(*os/exec.Cmd).Output", "(*os/exec.Cmd).CombinedOutput")) > 0
	}
	for lift := 0; lift < 2 && a.RunCommand != nil && !startsCommand(a.RunCommand); lift++ {
		var up []*ssa.Function
		for _, cf := range c.G.CallerFuncs(a.RunCommand) {
			if t := engine.TopFunc(cf); engine.InPackage(t, "execution") && t != a.RunCommand {
				up = append(up, t)
			}
		}
		if len(up) != 1 {
			break
		}
		a.RunCommand = up[0]
	}
	if a.RunCommand == nil {
		c.Unknown(rule, "anchor/command-runner", "anchor-unresolved: no exec.CommandContext call in internal/execution", "-")
		return nil
	}
	// output checks: caller of RunCommand that ranges over Target.OutputChecks
	// exec command: caller of RunCommand that calls context.WithTimeout
	classify := func(fn *ssa.Function) bool {
		// the timeout may be applied in a helper that derives the command's context
		if len(callsNamedDeep1(fn, "context.WithTimeout")) > 0 {
			if a.ExecCommand == nil {
				a.ExecCommand = fn
			}
			return true
		} else if readsField(c, fn, fk("model.Target", "OutputChecks")) {
			if a.OutputChecks == nil {
				a.OutputChecks = fn
			}
			return true
		}
		return false
	}
	for _, fn := range c.G.CallerFuncs(a.RunCommand) {
		if classify(fn) {
			continue
		}
		// a loop body or a wrapper that was extracted: the function that ranges over the checks (or applies the
		// timeout) is its caller
		for _, up := range c.G.CallerFuncs(fn) {
			if t := engine.TopFunc(up); engine.InPackage(t, "execution") && t != fn {
				classify(t)
			}
		}
	}
	if a.ExecCommand == nil || a.OutputChecks == nil {
		c.Unknown(rule, "anchor/command-callers", "anchor-unresolved: could not identify the timeout-applying command executor and the output-check runner among callers of the command runner", "-")
		return nil
	}
	// ExecMethod: the lowest function of internal/execution that leads both to the command executor and
	// to the result write (no callee of it does both); Complete: the function it calls to get to the write
	// (the completion may itself be split into helpers).
	reachW := func(f *ssa.Function) map[*ssa.Function]bool { return c.G.ReachableFuncs([]*ssa.Function{f}, nil) }
	both := map[*ssa.Function]bool{}
	for _, fn := range c.P.Funcs {
		if !engine.InPackage(fn, "execution") {
			continue
		}
		r := reachW(fn)
		if fn != a.ExecCommand && fn != a.Write && r[a.ExecCommand] && r[a.Write] {
			both[fn] = true
		}
	}
	var lowest []*ssa.Function
	for fn := range both {
		isLowest := true
		for g := range reachW(fn) {
			if g != fn && both[g] {
				isLowest = false
			}
		}
		if isLowest {
			lowest = append(lowest, fn)
		}
	}
	if len(lowest) != 1 {
		c.Unknown(rule, "anchor/execute-method", "anchor-unresolved: expected exactly one lowest function that both runs the command and reaches the result write, found "+names(c, lowest), "-")
		return nil
	}
	a.ExecMethod = lowest[0]
	for _, s := range sitesReaching(c, a.ExecMethod, fnSet(a.Write)) {
		for _, cal := range c.G.CalleesOf(s) {
			if cal != a.Write && (a.Complete == nil || a.Complete == cal) {
				a.Complete = cal
			} else if cal != a.Write {
				c.Unknown(rule, "anchor/completion", "anchor-unresolved: the executing method reaches the result write through several functions", "-")
				return nil
			}
		}
	}
	if a.Complete == nil {
		c.Unknown(rule, "anchor/completion", "anchor-unresolved: the executing method writes the result itself (no completion function)", "-")
		return nil
	}
	return a
}

// readsField: fn contains a read of the abstract field.
func readsField(c *Check, fn *ssa.Function, key engine.FieldKey) bool {
	for _, b := range fn.Blocks {
		for _, in := range b.Instrs {
			switch x := in.(type) {
			case *ssa.FieldAddr:
				if engine.FieldKeyOf(x.X.Type(), x.Field) == key {
					return true
				}
			case *ssa.Field:
				if engine.FieldKeyOf(x.X.Type(), x.Field) == key {
					return true
				}
			}
		}
	}
	return false
}

// --- role-based lookups for unexported helpers (renaming them must not disturb a rule) ---

// selectorFilterFunc: the Selector method that takes a model.BuildNode, narrows it to *model.Target and returns bool.
func selectorFilterFunc(c *Check, rule string) *ssa.Function {
	var cands []*ssa.Function
	for _, fn := range c.P.Funcs {
		if !engine.InPackage(fn, "selection") || fn.Signature.Recv() == nil || engine.TypeKey(fn.Signature.Recv().Type()) != "selection.Selector" {
			continue
		}
		if fn.Signature.Params().Len() != 1 || engine.TypeKey(fn.Signature.Params().At(0).Type()) != "model.BuildNode" {
			continue
		}
		if fn.Signature.Results().Len() != 1 || fn.Signature.Results().At(0).Type().String() != "bool" {
			continue
		}
		for _, b := range fn.Blocks {
			for _, in := range b.Instrs {
				if ta, ok := in.(*ssa.TypeAssert); ok && engine.TypeKey(ta.AssertedType) == "model.Target" {
					cands = append(cands, fn)
				}
			}
		}
	}
	if len(cands) == 0 {
		c.Unknown(rule, "anchor/selector-filter", "anchor-unresolved: no Selector method narrows a model.BuildNode to a target and returns bool", "-")
		return nil
	}
	return cands[0]
}

// enrichFunc: the loading function that turns a PackageDTO into a *model.Package.
func enrichFunc(c *Check, rule string) *ssa.Function {
	for _, fn := range c.P.Funcs {
		if !engine.InPackage(fn, "loading") || fn.Parent() != nil {
			continue
		}
		hasDTO := false
		for i := 0; i < fn.Signature.Params().Len(); i++ {
			if engine.TypeKey(fn.Signature.Params().At(i).Type()) == "loading.PackageDTO" {
				hasDTO = true
			}
		}
		if hasDTO && fn.Signature.Results().Len() >= 1 && engine.TypeKey(fn.Signature.Results().At(0).Type()) == "model.Package" {
			return fn
		}
	}
	c.Unknown(rule, "anchor/enrichment", "anchor-unresolved: no function in internal/loading turns a PackageDTO into a *model.Package", "-")
	return nil
}

// withinWorkspaceFunc: the analysis function that decides containment with filepath.Rel.
func withinWorkspaceFunc(c *Check, rule string) *ssa.Function {
	for _, fn := range c.P.Funcs {
		if engine.InPackage(fn, "analysis") && fn.Parent() == nil && len(callsNamed(fn, "path/filepath.Rel")) > 0 {
			return fn
		}
	}
	c.Unknown(rule, "anchor/within-workspace", "anchor-unresolved: no function in internal/analysis computes a workspace-relative path (filepath.Rel)", "-")
	return nil
}
