package rules

import (
	"fmt"
	"go/constant"
	"go/token"
	"go/types"
	"reflect"
	"sort"
	"strconv"
	"strings"

	"golang.org/x/tools/go/ssa"

	"grogverif/engine"
)

func init() { register("C16", runC16) }

func runC16(c *Check, tier string) {
	c.Decides = "the formats bind the same field names (struct tags agree across json/yaml/pkl/starlark, the Starlark keyword list equals the starlark tags and every keyword reaches its DTO field); no loader drops a field of the annotation struct it parses; enrichment consumes every DTO field; in first-party loader code an index `len(x)-1` or a constant index is dominated by a length guard on that slice (directly, or at every call site through a slice grown in lock-step); nested Starlark module loads resolve relative to the module; shared loader state is mutex-protected and every loader lock is released on every path; loaders hand the whole file to their decoders (no byte-limited reader)."
	c.NotDec = "behaviour of the third-party parsers on arbitrary bytes, hangs inside Starlark evaluation, cross-format equality of loaded packages for all inputs."
	ruleR16a(c)
	ruleR16b(c)
	ruleR16c(c)
	ruleR16d(c)
	ruleR16e(c)
	ruleR16f(c)
	ruleR16g(c)
	ruleR16h(c)
	ruleR16i(c)
	ruleR16j(c)
	// "the loaded graph does not depend on walk order": a label defined twice (target and alias, two files of one
	// directory) is rejected whichever definition arrives first
	// the loaded graph does not depend on the schedule: no package is lost in the loader's shared table
	ruleTableInsertAtomic(c, "R16l")
	// the Starlark loader produces the same strings as the other loaders
	ruleStarlarkDisplayFormNotStored(c, "R16m")
	ruleSharedMapNotWritten(c, "R16n")
	ruleStarlarkThreadsBounded(c, "R16o")
	ruleEveryLoadedPackageRegistered(c, "R16p")
	ruleMergeWritesIntoTablePackage(c, "R16q")
	// a process-wide memo in the loader answers every package with its own result
	ruleCompositeMemoKeyInjective(c, "R16r", "loading", "hashing", "config", "label", "model", "analysis")
	shareRule(c, "R16k", "every insertion into the node map is guarded by a lookup of the same label that rejects a duplicate (same obligations as R11c)", 2, "R11c", func(sub *Check) { ruleR11c(sub) }, func(k string) bool { return strings.Contains(k, "guarded-insert") })
	// round 7: a module's top-level statements run for every package that loads it
	ruleModuleCachePerLoad(c, "R16s")
	// a load error never turns into a hang: the workers keep draining the file queue the walker blocks on
	ruleQueueDrained(c, "R16t")
	ruleScalarsNotReRendered(c, "R16u")
}

// R16j: a loader's error reaches the caller: no function of internal/loading (nor the node-map constructor)
// can return success after a call on its way returned an error.
func ruleR16j(c *Check) {
	c.Rule("R16j", "no function of internal/loading that returns an error drops the error of a call on a path to a success return (a malformed file must surface as an error, not as an empty package)", 10)
	var fns []*ssa.Function
	for _, fn := range c.P.Funcs {
		if engine.InPackage(fn, "loading") && engine.ErrResultIndex(fn.Signature) >= 0 {
			fns = append(fns, fn)
		}
	}
	requireNoDroppedErrors(c, "R16j", fns, nil)
}

// R16i: the decoders fill []*T lists of the package DTO from the file; `null` entries arrive as nil
// pointers. Every field read through an element of such a list is dominated by a nil test of that element.
func ruleR16i(c *Check) {
	c.Rule("R16i", "in internal/loading every loop over a []*T field of PackageDTO (targets, aliases, environments as decoded from the BUILD file) reads a field of the element only after testing the element for nil", 2)
	dto := c.P.Type("loading", "PackageDTO")
	if dto == nil {
		c.Unknown("R16i", "anchor/loading.PackageDTO", "anchor-unresolved", "-")
		return
	}
	st, _ := dto.Underlying().(*types.Struct)
	ptrLists := map[engine.FieldKey]bool{}
	for i := 0; st != nil && i < st.NumFields(); i++ {
		if sl, ok := st.Field(i).Type().Underlying().(*types.Slice); ok {
			if _, isPtr := sl.Elem().Underlying().(*types.Pointer); isPtr {
				ptrLists[fk("loading.PackageDTO", st.Field(i).Name())] = true
			}
		}
	}
	n := 0
	for _, fn := range c.P.Funcs {
		if !engine.InPackage(fn, "loading") {
			continue
		}
		for _, lp := range engine.LoopsOf(fn) {
			rv := lp.RangedValue()
			if rv == nil {
				continue
			}
			isList := false
			var listKey engine.FieldKey
			for _, o := range engine.Origins(rv) {
				switch x := o.(type) {
				case *ssa.UnOp:
					if fa, ok := x.X.(*ssa.FieldAddr); ok && ptrLists[engine.FieldKeyOf(fa.X.Type(), fa.Field)] {
						isList, listKey = true, engine.FieldKeyOf(fa.X.Type(), fa.Field)
					}
				case *ssa.Field:
					if ptrLists[engine.FieldKeyOf(x.X.Type(), x.Field)] {
						isList, listKey = true, engine.FieldKeyOf(x.X.Type(), x.Field)
					}
				}
			}
			if !isList {
				continue
			}
			// element values: loads of &list[i] inside the loop
			var elems []ssa.Value
			for b := range lp.Body {
				for _, in := range b.Instrs {
					if ld, ok := in.(*ssa.UnOp); ok && ld.Op == token.MUL {
						if ia, ok := ld.X.(*ssa.IndexAddr); ok && sameSlice(ia.X, rv) {
							elems = append(elems, ld)
						}
					}
				}
			}
			for _, e := range elems {
				n++
				nonNil := engine.CutEdgesWhere(func(a engine.Atom) bool { return a.Op == "nonnil" && a.V == e })
				bad := ""
				for b := range lp.Body {
					for _, in := range b.Instrs {
						fa, ok := in.(*ssa.FieldAddr)
						if !ok || fa.X != e {
							continue
						}
						if r, _ := engine.PathExists(fn, e.(ssa.Instruction), engine.IsInstr(fa), engine.PathQuery{CutEdge: nonNil, Shallow: true}); r {
							bad = c.P.InstrPos(fa)
						}
					}
				}
				c.Require(bad == "", "R16i", "nil-entry-checked/"+listKey.F+"/"+c.P.FuncName(fn), "fields of a list entry are read only after the entry was tested for nil", "a field of a list entry is read ("+bad+") without a nil test: `null` in the "+strings.ToLower(listKey.F)+" list of a BUILD.json/BUILD.yaml decodes to a nil pointer and the loader panics instead of reporting an error", c.P.InstrPos(e.(ssa.Instruction)))
			}
		}
	}
	if n == 0 {
		c.Unknown("R16i", "nil-entry-checked", "no loop over a pointer list of PackageDTO found in internal/loading", "-")
	}
}

// R16h: a loader hands the BUILD file itself to its decoder. A reader that ends the stream after a fixed
// number of bytes makes one format silently load a prefix (or fail oddly) where another loads everything.
func ruleR16h(c *Check) {
	c.Rule("R16h", "every decoder/reader call of a first-party loader (json/yaml NewDecoder, io.ReadAll, bufio scanners) reads from the opened file itself, not from a byte-limited view of it (io.LimitReader, io.NewSectionReader, io.LimitedReader)", 2)
	n := 0
	for _, fn := range c.P.Funcs {
		if !engine.InPackage(fn, "loading") {
			continue
		}
		for _, s := range engine.SitesIn(fn) {
			name := engine.CalleeName(s)
			if !(strings.HasSuffix(name, ".NewDecoder") || name == "io.ReadAll" || name == "bufio.NewScanner" || name == "bufio.NewReader") || len(s.Common().Args) == 0 {
				continue
			}
			n++
			limited := ""
			back := c.G.Backward([]Node{s.Common().Args[0]}, func(e *engine.Edge) bool { return e.Via != nil && e.Via.Parent() == fn })
			for nd := range back.Parent {
				if call, ok := nd.(*ssa.Call); ok {
					switch engine.CalleeName(call) {
					case "io.LimitReader", "io.NewSectionReader", "net/http.MaxBytesReader":
						limited = engine.CalleeName(call)
					}
				}
				if v, ok := nd.(ssa.Value); ok && strings.HasSuffix(v.Type().String(), "io.LimitedReader") {
					limited = "io.LimitedReader"
				}
			}
			c.Require(limited == "", "R16h", "whole-file-decoded/"+c.P.FuncName(fn), "the decoder reads the file itself", "the decoder reads through "+limited+": a BUILD file longer than the limit is cut off without an error, so this format loads fewer targets (or fails differently) than the others for the same package", c.P.InstrPos(s))
		}
	}
	if n == 0 {
		c.Unknown("R16h", "whole-file-decoded", "no decoder/reader call found in the loaders", "-")
	}
}

func tagNames(tag string) map[string]string {
	out := map[string]string{}
	st := reflect.StructTag(tag)
	for _, k := range []string{"json", "yaml", "pkl", "starlark"} {
		if v, ok := st.Lookup(k); ok {
			name := strings.Split(v, ",")[0]
			out[k] = name
		}
	}
	return out
}

func ruleR16a(c *Check) {
	c.Rule("R16a", "for every field of the loader DTOs (TargetDTO, AliasDTO, PackageDTO, EnvironmentDTO) and of model.OutputCheck, the names given in whichever of the json/yaml/pkl/starlark tags are present are identical", 20)
	for _, tn := range [][2]string{{"loading", "TargetDTO"}, {"loading", "AliasDTO"}, {"loading", "PackageDTO"}, {"loading", "EnvironmentDTO"}, {"model", "OutputCheck"}} {
		t := c.P.Type(tn[0], tn[1])
		if t == nil {
			c.Unknown("R16a", "anchor/"+tn[0]+"."+tn[1], "anchor-unresolved: type not found", "-")
			continue
		}
		st := t.Underlying().(*types.Struct)
		for i := 0; i < st.NumFields(); i++ {
			names := tagNames(st.Tag(i))
			if len(names) == 0 {
				continue
			}
			key := "tags-agree/" + tn[0] + "." + tn[1] + "." + st.Field(i).Name()
			distinct := map[string]bool{}
			for _, n := range names {
				if n != "-" {
					distinct[n] = true
				}
			}
			var ds []string
			for n := range distinct {
				ds = append(ds, n)
			}
			sort.Strings(ds)
			c.Require(len(distinct) <= 1, "R16a", key, "bound as \""+strings.Join(ds, "")+"\" in every format", fmt.Sprintf("the formats bind this field under different names %v: the same package loads differently from different BUILD formats", names), c.P.Pos(st.Field(i).Pos()))
		}
	}
}

// constant strings stored into a call's varargs array, in order
func varargStrings(call ssa.CallInstruction, argIdx int) []string {
	var out []string
	args := call.Common().Args
	if argIdx >= len(args) {
		return nil
	}
	sl, ok := args[argIdx].(*ssa.Slice)
	if !ok {
		return nil
	}
	al, ok := sl.X.(*ssa.Alloc)
	if !ok {
		return nil
	}
	type ent struct {
		idx int64
		s   string
	}
	var ents []ent
	for _, r := range *al.Referrers() {
		ia, ok := r.(*ssa.IndexAddr)
		if !ok {
			continue
		}
		k, ok := ia.Index.(*ssa.Const)
		if !ok {
			continue
		}
		for _, rr := range *ia.Referrers() {
			if st, ok := rr.(*ssa.Store); ok {
				if mi, ok := st.Val.(*ssa.MakeInterface); ok {
					if cs, ok := mi.X.(*ssa.Const); ok && cs.Value != nil && cs.Value.Kind() == constant.String {
						ents = append(ents, ent{k.Int64(), constant.StringVal(cs.Value)})
					}
				}
			}
		}
	}
	sort.Slice(ents, func(i, j int) bool { return ents[i].idx < ents[j].idx })
	for _, e := range ents {
		out = append(out, e.s)
	}
	return out
}

func ruleR16b(c *Check) {
	c.Rule("R16b", "for each Starlark builtin, the keyword list given to starlark.UnpackArgs equals the starlark tag set of the DTO it fills, and every field of that DTO with a starlark tag is stored in the builtin", 2)
	for _, s := range c.G.CallsTo("go.starlark.net/starlark.UnpackArgs") {
		fn := s.Parent()
		if !engine.InPackage(fn, "loading") {
			continue
		}
		fnameArg, _ := s.Common().Args[0].(*ssa.Const)
		builtin := "?"
		if fnameArg != nil && fnameArg.Value != nil {
			builtin = constant.StringVal(fnameArg.Value)
		}
		dto := map[string]string{"target": "TargetDTO", "alias": "AliasDTO", "environment": "EnvironmentDTO"}[builtin]
		if dto == "" {
			continue
		}
		t := c.P.Type("loading", dto)
		if t == nil {
			continue
		}
		kws := map[string]bool{}
		for _, k := range varargStrings(s, 3) {
			kws[strings.TrimSuffix(k, "?")] = true
		}
		st := t.Underlying().(*types.Struct)
		tags := map[string]string{}
		for i := 0; i < st.NumFields(); i++ {
			if n, ok := tagNames(st.Tag(i))["starlark"]; ok && n != "-" {
				tags[n] = st.Field(i).Name()
			}
		}
		var missing, extra, unstored []string
		for n, f := range tags {
			if !kws[n] {
				missing = append(missing, n)
			}
			stored := false
			for _, stx := range storesToField(c, fk("loading."+dto, f)) {
				if engine.TopFunc(stx.Parent()) == engine.TopFunc(fn) {
					stored = true
				}
			}
			// ... or the field's address is handed to a first-party writer (`stringListInto(list, &target.Tags)`)
			if !stored {
				key := fk("loading."+dto, f)
				for _, g := range c.P.Funcs {
					if engine.TopFunc(g) != engine.TopFunc(fn) {
						continue
					}
					for _, gb := range g.Blocks {
						for _, gi := range gb.Instrs {
							fa, isFA := gi.(*ssa.FieldAddr)
							if !isFA || engine.FieldKeyOf(fa.X.Type(), fa.Field) != key || fa.Referrers() == nil {
								continue
							}
							for _, r := range *fa.Referrers() {
								if cs, isCall := r.(ssa.CallInstruction); isCall {
									for _, cal := range c.G.CalleesOf(cs) {
										if engine.IsFirstParty(pkgPathOf(cal)) {
											stored = true
										}
									}
								}
							}
						}
					}
				}
			}
			if !stored {
				unstored = append(unstored, f)
			}
		}
		for n := range kws {
			if _, ok := tags[n]; !ok {
				extra = append(extra, n)
			}
		}
		sort.Strings(missing)
		sort.Strings(extra)
		sort.Strings(unstored)
		ok := len(missing) == 0 && len(extra) == 0 && len(unstored) == 0
		c.Require(ok, "R16b", "starlark-binding/"+builtin, fmt.Sprintf("%d keywords = starlark tags of %s, all stored", len(kws), dto), fmt.Sprintf("the Starlark `%s()` builtin and %s disagree (keywords missing: %v, keywords without field: %v, fields never stored: %v): a Starlark BUILD file cannot express (or silently drops) what the other formats can", builtin, dto, missing, extra, unstored), c.P.InstrPos(s))
	}
}

// flattenFields lists the leaf fields of a struct, descending into embedded structs.
func flattenFields(t types.Type) []engine.FieldKey {
	var out []engine.FieldKey
	st, ok := t.Underlying().(*types.Struct)
	if !ok {
		return nil
	}
	for i := 0; i < st.NumFields(); i++ {
		f := st.Field(i)
		if f.Embedded() {
			out = append(out, flattenFields(f.Type())...)
			continue
		}
		out = append(out, engine.FieldKeyOf(t, i))
	}
	return out
}

func ruleR16c(c *Check) {
	c.Rule("R16c", "every field of the annotation struct a loader unmarshals (embedded structs included) is read by that loader's own functions, i.e. carried into the TargetDTO it builds", 10)
	loaderT := c.P.Type("loading", "Loader")
	for _, load := range methodImpls(c, loaderT, "Load") {
		reach := c.G.ReachableFuncs([]*ssa.Function{load}, func(f *ssa.Function) bool { return !engine.InPackage(f, "loading") })
		for fn := range reach {
			if !engine.InPackage(fn, "loading") {
				continue
			}
			for _, s := range callsNamed(fn, "gopkg.in/yaml.v3.Unmarshal") {
				// the destination
				dst := s.Common().Args[1]
				var t types.Type
				if mi, ok := dst.(*ssa.MakeInterface); ok {
					t = engine.Deref(mi.X.Type())
				}
				n := engine.NamedOf(t)
				if n == nil || !engine.IsFirstParty(n.Obj().Pkg().Path()) {
					continue
				}
				for _, key := range flattenFields(n) {
					read := false
					for _, e := range c.G.Out[key] {
						if e.Kind == engine.ELoad && e.Via != nil && reach[e.Via.Parent()] && engine.InPackage(e.Via.Parent(), "loading") && hasRealUse(e.Via) {
							read = true
						}
					}
					c.Require(read, "R16c", "annotation-field-used/"+c.P.FuncName(load)+"/"+key.F, "parsed and carried into the target", "the loader parses `"+strings.ToLower(key.F)+"` from the annotation ("+key.String()+") and then drops it: the same annotation loads differently through this loader than through the others", c.P.InstrPos(s))
				}
			}
		}
	}
}

func ruleR16d(c *Check) {
	c.Rule("R16d", "every field of TargetDTO, AliasDTO and PackageDTO is read by the enrichment that builds model.Target / model.Alias (tabled: PackageDTO.Environments — feature not wired up)", 15)
	enrich := enrichFunc(c, "R16d")
	if enrich == nil {
		return
	}
	reach := c.G.ReachableFuncs([]*ssa.Function{enrich}, nil)
	tabled := map[string]string{"loading.PackageDTO.Environments": "environments are parsed but not part of the build model yet (dead feature)"}
	for _, dto := range []string{"TargetDTO", "AliasDTO", "PackageDTO"} {
		t := c.P.Type("loading", dto)
		if t == nil {
			continue
		}
		for _, key := range flattenFields(t) {
			if why, ok := tabled[key.String()]; ok {
				c.OK("R16d", "dto-field-enriched/"+key.String(), "tabled: "+why, "-")
				continue
			}
			read := false
			for _, e := range c.G.Out[key] {
				if e.Kind == engine.ELoad && e.Via != nil && reach[e.Via.Parent()] && engine.InPackage(e.Via.Parent(), "loading") {
					read = true
				}
			}
			c.Require(read, "R16d", "dto-field-enriched/"+key.String(), "consumed when the model is built", "a field every loader can fill is ignored when the model is built: the value in the BUILD file has no effect", c.P.Pos(enrich.Pos()))
		}
	}
}

// ---------------------------------------------------------------------------
// R16e: last-element / constant index guarded by a length test

func lenGuardAtom(x ssa.Value, min int64) func(a engine.Atom) bool {
	return func(a engine.Atom) bool {
		// for a string, `s != ""` says as much as `len(s) != 0`
		if min == 1 && a.Op == "ne" && a.Other != nil {
			for _, pair := range [][2]ssa.Value{{a.V, a.Other}, {a.Other, a.V}} {
				if k, isK := pair[1].(*ssa.Const); isK && k.Value != nil && k.Value.Kind() == constant.String && constant.StringVal(k.Value) == "" {
					if sameSlice(pair[0], x) || engine.ExprKey(pair[0]) == engine.ExprKey(x) || pair[0] == x {
						return true
					}
				}
			}
		}
		arg, ok := lenArg(a.V)
		if !ok || !(sameSlice(arg, x) || engine.ExprKey(arg) == engine.ExprKey(x)) {
			return false
		}
		k, isK := a.Other.(*ssa.Const)
		if !isK || k.Value == nil {
			return false
		}
		n := k.Int64()
		switch a.Op {
		case "gt":
			return n >= min-1
		case "ge":
			return n >= min
		case "ne":
			return n == 0 && min == 1
		case "eq":
			return n >= min
		}
		return false
	}
}

// nonEmptyByConstruction: results of strings.Split/SplitN/Fields? (Split never returns an empty slice)
func nonEmptyByConstruction(v ssa.Value) bool {
	for _, o := range engine.Origins(v) {
		call, _ := engine.CallOf(o)
		if call == nil {
			return false
		}
		switch engine.CalleeName(call) {
		case "strings.Split", "strings.SplitN", "strings.SplitAfter":
		default:
			return false
		}
	}
	return true
}

// lockstep: two slice variables of fn that are only ever appended to in the same basic blocks.
func lockstep(fn *ssa.Function, a, b ssa.Value) bool {
	appendsTo := func(v ssa.Value) map[*ssa.BasicBlock]int {
		out := map[*ssa.BasicBlock]int{}
		roots := sliceRoots(v)
		for _, bl := range fn.Blocks {
			for _, in := range bl.Instrs {
				if call, ok := in.(*ssa.Call); ok {
					if bi, ok := call.Call.Value.(*ssa.Builtin); ok && bi.Name() == "append" && (roots[call] || roots[call.Call.Args[0]]) {
						out[bl]++
					}
				}
			}
		}
		return out
	}
	pa, pb := appendsTo(a), appendsTo(b)
	if len(pa) == 0 || len(pa) != len(pb) {
		return false
	}
	for bl, n := range pa {
		if pb[bl] != n {
			return false
		}
	}
	return true
}

func guardedIndex(c *Check, fn *ssa.Function, x ssa.Value, min int64, at ssa.Instruction, depth int) (bool, string) {
	if nonEmptyByConstruction(x) && min == 1 {
		return true, "strings.Split never returns an empty slice"
	}
	if min <= 2 && isDictItem(x) {
		return true, "elements of starlark Dict.Items() are (key, value) pairs"
	}
	if _, isArr := engine.Deref(x.Type()).Underlying().(*types.Array); isArr {
		return true, "fixed-size array"
	}
	if r, _ := engine.PathExists(fn, nil, engine.IsInstr(at), engine.PathQuery{CutEdge: engine.CutEdgesWhere(lenGuardAtom(x, min))}); !r {
		return true, "dominated by a length test in " + c.P.FuncName(fn)
	}
	if depth >= 2 {
		return false, "no dominating length test"
	}
	// parameter: every call site guards the argument (or a slice grown in lock-step with it)
	for _, o := range engine.Origins(x) {
		prm, ok := o.(*ssa.Parameter)
		if !ok {
			return false, "no dominating length test on " + shortKey(x)
		}
		idx := -1
		for i, p := range fn.Params {
			if p == prm {
				idx = i
			}
		}
		callers := c.G.CallersOf(fn)
		if idx < 0 || len(callers) == 0 {
			return false, "no call sites"
		}
		for _, cs := range callers {
			args := cs.Common().Args
			if len(args) != len(fn.Params) {
				return false, "arity mismatch"
			}
			arg := args[idx]
			caller := cs.Parent()
			if ok, _ := guardedIndex(c, caller, arg, min, cs, depth+1); ok {
				continue
			}
			// a sibling argument grown in lock-step that is guarded
			okSib := false
			for j, other := range args {
				if j == idx || !types.Identical(other.Type().Underlying(), other.Type().Underlying()) {
					continue
				}
				if _, isSl := other.Type().Underlying().(*types.Slice); !isSl {
					continue
				}
				if lockstep(caller, arg, other) {
					if ok, _ := guardedIndex(c, caller, other, min, cs, depth+2); ok {
						okSib = true
					}
				}
			}
			if !okSib {
				return false, "the caller " + c.P.FuncName(caller) + " does not establish that " + shortKey(arg) + " is non-empty before the call"
			}
		}
		return true, "guarded at every call site"
	}
	return false, "no dominating length test"
}

func ruleR16e(c *Check) {
	c.Rule("R16e", "in the first-party loader and label code, an index expression `x[len(x)-k]` or `x[k]` with constant k on a slice is dominated by a length test that makes it in range — in the same function, or at every call site for a slice parameter (also through a slice that is appended to in lock-step) — or the slice is non-empty by construction (strings.Split)", 8)
	loaderT := c.P.Type("loading", "Loader")
	roots := methodImpls(c, loaderT, "Load")
	if f := enrichFunc(c, "R16e"); f != nil {
		roots = append(roots, f)
	}
	// the package walker and everything it calls (merging included)
	for _, fn := range c.P.Funcs {
		if engine.InPackage(fn, "loading") && fn.Parent() == nil && len(callsNamed(fn, "github.com/boyter/gocodewalker.NewParallelFileWalker")) > 0 {
			roots = append(roots, fn)
		}
	}
	reach := c.G.ReachableFuncs(roots, nil)
	for _, fn := range c.P.Funcs {
		if !(engine.InPackage(fn, "loading") && reach[fn]) && !engine.InPackage(fn, "label") {
			continue
		}
		for _, b := range fn.Blocks {
			for _, in := range b.Instrs {
				var x, idx ssa.Value
				switch v := in.(type) {
				case *ssa.IndexAddr:
					x, idx = v.X, v.Index
				case *ssa.Index:
					x, idx = v.X, v.Index
				default:
					continue
				}
				if _, isSl := x.Type().Underlying().(*types.Slice); !isSl {
					if bt, isStr := x.Type().Underlying().(*types.Basic); !isStr || bt.Kind() != types.String {
						continue
					}
				}
				// varargs / literal backing arrays are sliced allocs, never indexed through a slice value
				var min int64 = -1
				if k, ok := idx.(*ssa.Const); ok && k.Value != nil {
					min = k.Int64() + 1
				} else if bo, ok := idx.(*ssa.BinOp); ok && bo.Op == token.SUB {
					if arg, isLen := lenArg(bo.X); isLen && (sameSlice(arg, x) || engine.ExprKey(arg) == engine.ExprKey(x)) {
						if k, ok := bo.Y.(*ssa.Const); ok && k.Value != nil {
							min = k.Int64()
						}
					}
				}
				if min < 1 {
					continue // loop indices and computed indices are not in scope of this rule
				}
				ok, why := guardedIndex(c, fn, x, min, in, 0)
				key := "index-in-range/" + c.P.FuncName(fn) + "/" + shortKey(x)
				c.Require(ok, "R16e", key, why, "this index can be out of range ("+why+"): a malformed BUILD file / annotation makes the loader panic instead of reporting an error", c.P.InstrPos(in))
			}
		}
	}
}

func ruleR16f(c *Check) {
	c.Rule("R16f", "the pkl evaluator is only touched under its mutex (caller-held summary); the loader's first error is recorded inside sync.Once.Do; every mutex taken in the loading package is released on every path", 3)
	// evaluator guarded
	key := fk("loading.PklLoader", "evaluator")
	// its mutex: the (only) mutex field of the loader struct
	muName := "evaluatorMu"
	if st := structByKey(c, "loading.PklLoader"); st != nil && !hasField(st, muName) {
		for i := 0; i < st.NumFields(); i++ {
			if t := st.Field(i).Type().String(); t == "sync.Mutex" || t == "sync.RWMutex" {
				muName = st.Field(i).Name()
			}
		}
	}
	n := 0
	for _, fn := range c.P.Funcs {
		for _, b := range fn.Blocks {
			for _, in := range b.Instrs {
				fa, ok := in.(*ssa.FieldAddr)
				if !ok || engine.FieldKeyOf(fa.X.Type(), fa.Field) != key {
					continue
				}
				n++
				ls := engine.ComputeLockSets(fn, entryLocks(c, fn, 0))
				want := engine.ExprKey(fa.X) + "." + muName
				c.Require(ls.Held(fa)[want], "R16f", "guarded/loading.PklLoader.evaluator/"+c.P.FuncName(fn), "holds "+want, "the shared pkl evaluator is accessed without "+muName+" while loader goroutines run in parallel", c.P.InstrPos(fa))
			}
		}
	}
	if n == 0 {
		c.Unknown("R16f", "guarded/loading.PklLoader.evaluator", "anchor-unresolved", "-")
	}
	// lock pairing in loading
	for _, fn := range c.P.Funcs {
		if !engine.InPackage(fn, "loading") {
			continue
		}
		for _, s := range engine.SitesIn(fn) {
			call, ok := s.(*ssa.Call)
			if !ok {
				continue
			}
			op, ok := engine.ClassifyLock(call)
			if !ok || !op.Acquire {
				continue
			}
			release := func(in ssa.Instruction) bool {
				ci, ok := in.(ssa.CallInstruction)
				if !ok {
					return false
				}
				o2, ok := engine.ClassifyLock(ci)
				return ok && !o2.Acquire && o2.Key == op.Key
			}
			isRet := func(in ssa.Instruction) bool { _, r := in.(*ssa.Return); return r }
			reach, _ := engine.PathExists(fn, call, isRet, engine.PathQuery{CutInstr: release})
			c.Require(!reach, "R16f", "lock-released/"+c.P.FuncName(fn)+"/"+op.Key, "released on every path", "a loader mutex is left locked on some path: every other loader goroutine blocks forever and grog hangs instead of reporting the error", c.P.InstrPos(call))
		}
	}
}

// R16g: nested Starlark loads resolve relative to the module being loaded
func ruleR16g(c *Check) {
	c.Rule("R16g", "the starlark.Thread created for a loaded module gets its own Load closure (bound to that module's path), not the parent thread's Load function", 1)
	key := fk("go.starlark.net/starlark.Thread", "Load")
	n := 0
	for _, st := range storesToField(c, key) {
		fn := st.Parent()
		if !engine.InPackage(fn, "loading") {
			continue
		}
		n++
		own := true
		for _, o := range engine.Origins(st.Val) {
			if _, ok := o.(*ssa.MakeClosure); !ok {
				own = false
			}
		}
		// only the recursive module loader matters (the one whose closure calls back into itself)
		c.Require(own, "R16g", "module-load-relative/"+c.P.FuncName(fn), "the thread's Load is a closure created for this thread", "a module thread reuses another thread's Load function: a relative load() inside a module in another directory resolves against the wrong directory, so the Starlark package differs from the equivalent JSON/YAML one", c.P.InstrPos(st))
	}
	if n == 0 {
		c.Unknown("R16g", "module-load-relative", "anchor-unresolved: no starlark.Thread.Load assignment in the loading package", "-")
	}
}

// isDictItem: x is an element of the slice returned by (*starlark.Dict).Items().
func isDictItem(x ssa.Value) bool {
	for _, o := range engine.Origins(x) {
		var base ssa.Value
		switch v := o.(type) {
		case *ssa.UnOp:
			if ia, ok := v.X.(*ssa.IndexAddr); ok {
				base = ia.X
			}
		case *ssa.Index:
			base = v.X
		}
		if base == nil {
			return false
		}
		ok := false
		for _, bo := range engine.Origins(base) {
			if call, _ := engine.CallOf(bo); call != nil && strings.HasSuffix(engine.CalleeName(call), "starlark.Dict).Items") {
				ok = true
			}
		}
		if !ok {
			return false
		}
	}
	return true
}

// R16n: a map that is handed out by a process-wide provider (a package-level variable, or the function value
// made by sync.OnceValue/OnceValues) is one object for every goroutine. Code that can run on several goroutines
// at once (anything reachable from a goroutine body) may read it but must not write it without a lock: the
// loaders run one goroutine per BUILD file.
func ruleSharedMapNotWritten(c *Check, rule string) {
	c.Rule(rule, "in code reachable from a goroutine body no element is stored into a map that comes from a package-level variable or from a sync.OnceValue provider unless a mutex is held: concurrent loaders do not write one shared map", 1)
	// package-level func variables initialised by sync.OnceValue*
	onceProviders := map[*ssa.Global]bool{}
	for _, fn := range c.P.Funcs {
		if fn.Name() != "init" || fn.Synthetic == "" {
			continue
		}
		for _, b := range fn.Blocks {
			for _, in := range b.Instrs {
				st, ok := in.(*ssa.Store)
				if !ok {
					continue
				}
				g, ok := st.Addr.(*ssa.Global)
				if !ok {
					continue
				}
				if call, _ := engine.CallOf(st.Val); call != nil && strings.HasPrefix(engine.CalleeName(call), "sync.OnceValue") {
					onceProviders[g] = true
				}
			}
		}
	}
	var roots []*ssa.Function
	for _, fn := range c.P.Funcs {
		for _, s := range engine.SitesIn(fn) {
			roots = append(roots, spawnedAt(c, s)...)
		}
	}
	conc := c.G.ReachableFuncs(roots, nil)
	shared := func(v ssa.Value) string {
		for _, o := range engine.Origins(v) {
			if o == nil {
				continue
			}
			if ld, ok := o.(*ssa.UnOp); ok {
				if g, ok := ld.X.(*ssa.Global); ok && engine.IsFirstParty(g.Pkg.Pkg.Path()) {
					return "the package-level variable " + g.Name()
				}
			}
			if g, ok := o.(*ssa.Global); ok && engine.IsFirstParty(g.Pkg.Pkg.Path()) {
				return "the package-level variable " + g.Name()
			}
			if call, _ := engine.CallOf(o); call != nil {
				if ld, ok := call.Common().Value.(*ssa.UnOp); ok {
					if g, ok := ld.X.(*ssa.Global); ok && onceProviders[g] {
						return "the once-only provider " + g.Name()
					}
				}
			}
		}
		return ""
	}
	n, bad := 0, 0
	for fn := range conc {
		if !engine.IsFirstParty(pkgPathOf(fn)) || len(fn.Blocks) == 0 {
			continue
		}
		var ls *engine.LockSets
		for _, b := range fn.Blocks {
			for _, in := range b.Instrs {
				mu, ok := in.(*ssa.MapUpdate)
				if !ok {
					continue
				}
				n++
				src := shared(mu.Map)
				if src == "" {
					continue
				}
				if ls == nil {
					ls = engine.ComputeLockSets(fn, nil)
				}
				locked := false
				for k := range ls.Held(mu) {
					if !strings.HasPrefix(k, "r:") {
						locked = true
					}
				}
				if locked {
					continue
				}
				bad++
				c.Bad(rule, "shared-map-not-written/"+c.P.FuncName(fn), "an element is stored into a map obtained from "+src+" in code that runs on several goroutines, with no mutex held: two BUILD files loaded at the same time overwrite each other's entries or the runtime aborts with `concurrent map writes`", c.P.InstrPos(mu))
			}
		}
	}
	if bad == 0 {
		c.OK(rule, "shared-map-not-written", strconv.Itoa(n)+" map stores in code reachable from goroutine bodies: none writes a process-wide map without a lock", "-")
	}
}

// R16o: evaluating a BUILD file written in a programming language is bounded. A Starlark thread runs until its
// program ends; a BUILD.star (or a module it loads) that loops — by mistake or on purpose — keeps the loader
// goroutine busy forever unless the thread has a step budget or is cancelled when the load context ends.
func ruleStarlarkThreadsBounded(c *Check, rule string) {
	c.Rule(rule, "every function of internal/loading that creates a starlark.Thread and executes a file on it bounds the evaluation: it sets a step budget (Thread.SetMaxExecutionSteps) or arranges for Thread.Cancel when the load context is done", 1)
	n := 0
	for _, fn := range c.P.Funcs {
		if !engine.InPackage(fn, "loading") || fn.Parent() != nil {
			continue
		}
		creates := false
		for _, b := range fn.Blocks {
			for _, in := range b.Instrs {
				if al, ok := in.(*ssa.Alloc); ok && strings.HasSuffix(al.Type().String(), "go.starlark.net/starlark.Thread") {
					creates = true
				}
			}
		}
		if !creates {
			continue
		}
		n++
		bounded := false
		for _, f := range engine.AnonFuncsDeep(fn) {
			for _, s := range engine.SitesIn(f) {
				switch engine.CalleeName(s) {
				case "(*go.starlark.net/starlark.Thread).SetMaxExecutionSteps", "(*go.starlark.net/starlark.Thread).Cancel":
					bounded = true
				}
			}
		}
		c.Require(bounded, rule, "starlark-evaluation-bounded/"+c.P.FuncName(fn), "the thread gets a step budget or is cancelled with the load context", "the Starlark thread created here runs without a step budget and is never cancelled: a BUILD.star (or a module it loads) that loops makes `grog` hang in the loader — no error, no exit, and an interrupt does not end the evaluation either", c.P.Pos(fn.Pos()))
	}
	if n == 0 {
		c.Unknown(rule, "starlark-evaluation-bounded", "no function of internal/loading creates a starlark.Thread", "-")
	}
}

// R16q: merging a second BUILD file of a directory updates the package the table holds. The caller keeps the
// `into` object; a merge that writes into the other one (after swapping the two for speed, say) leaves the table
// with the smaller package and silently drops the rest.
func ruleMergeWritesIntoTablePackage(c *Check, rule string) {
	c.Rule(rule, "in the package merge function every map update goes into a map of one and the same parameter on all paths (the parameters are not exchanged)", 1)
	n := 0
	for _, fn := range c.P.Funcs {
		if !engine.InPackage(fn, "loading") || fn.Parent() != nil || len(fn.Params) < 2 {
			continue
		}
		var pk []*ssa.Parameter
		for _, p := range fn.Params {
			if engine.TypeKey(p.Type()) == "model.Package" {
				pk = append(pk, p)
			}
		}
		if len(pk) != 2 {
			continue
		}
		roots := func(v ssa.Value) map[*ssa.Parameter]bool {
			out := map[*ssa.Parameter]bool{}
			var walk func(v ssa.Value, d int)
			seen := map[ssa.Value]bool{}
			walk = func(v ssa.Value, d int) {
				if v == nil || seen[v] || d > 12 {
					return
				}
				seen[v] = true
				switch x := v.(type) {
				case *ssa.Parameter:
					out[x] = true
				case *ssa.Phi:
					for _, e := range x.Edges {
						walk(e, d+1)
					}
				case *ssa.UnOp:
					walk(x.X, d+1)
				case *ssa.FieldAddr:
					walk(x.X, d+1)
				case *ssa.Field:
					walk(x.X, d+1)
				}
			}
			walk(v, 0)
			return out
		}
		dest := map[*ssa.Parameter]bool{}
		mixed := false
		var at ssa.Instruction
		for _, b := range fn.Blocks {
			for _, in := range b.Instrs {
				mu, ok := in.(*ssa.MapUpdate)
				if !ok {
					continue
				}
				r := roots(mu.Map)
				if len(r) > 1 {
					mixed, at = true, mu
				}
				for p := range r {
					dest[p] = true
				}
			}
		}
		if len(dest) == 0 {
			continue
		}
		n++
		pos := c.P.Pos(fn.Pos())
		if at != nil {
			pos = c.P.InstrPos(at)
		}
		c.Require(!mixed && len(dest) == 1, rule, "merge-writes-into-one-side/"+c.P.FuncName(fn), "all updates go into the maps of one parameter", "the merge can write into either of its two packages (they are exchanged on some path): the caller keeps one particular object in the package table, so when the other one receives the entries they are lost — targets and aliases of a directory with two BUILD files vanish without an error, depending on which file was loaded first", pos)
	}
	if n == 0 {
		c.Unknown(rule, "merge-writes-into-one-side", "no function of internal/loading merges two packages", "-")
	}
}
