package rules

import (
	"fmt"
	"go/constant"
	"strings"

	"golang.org/x/tools/go/ssa"

	"grogverif/engine"
)

func init() { register("C05", runC05) }

func runC05(c *Check, tier string) {
	c.Decides = "a target result is written only after the command (when there is one), the post-execution output checks and the bin-output chmod all returned nil, and no error on the way is dropped; the command executor and runner never turn a failed command into success; handler writes fail when a declared output cannot be read; there is a single writer of target results; a completion is successful only on the callback's nil-error branch and a failed completion cancels descendants (keep-going) or everything (fail-fast) and never releases a dependant; the build exits non-zero whenever an error was collected; the post-execution output checks run every check every time (no memo); the taint of a target is removed only after its forced execution and completion succeeded."
	c.NotDec = "that independent targets actually get scheduled (liveness), and the behaviour of the next build as a history."
	ruleR05a(c, "R05a")
	ruleR05b(c)
	ruleR05c(c, "R05c")
	ruleR05d(c, "R05d")
	// fail-fast only stops work that runs on the walker's context
	ruleR18b(c, "R05e")
	// the post-execution output checks that guard the completion really run, every one, every time
	ruleR14d(c, "R05f")
	// a tainted target whose forced execution failed stays tainted (it is attempted again next time)
	ruleR13b(c, analyseGate(c, "R05g"), "R05g")
	// a missing or unreadable declared output fails the target: no error on the write path is dropped
	ruleWritePathErrors(c, "R05i")
	// nothing of a failed target is stored: the store path
	useFamily(c, "R05j", famStore, 20)
	// the command's exit status reaches the Go side
	ruleWrapperStatus(c, "R05k")
	ruleRerunFailureFailsDependant(c, "R05l")
	// every descendant of a failed target is cancelled: the list is the whole reachable set
	ruleReachableListUnfiltered(c, "R05n")
	// a target that failed (also by timeout) is recorded as failed: the routine reports every outcome but cancellation
	if w := findWalker(c, "R05h"); w != nil {
		shareRule(c, "R05h", "after the callback returned the node routine reports a completion on every path unless the walk's own context is done (same obligation as R04c)", 1, "R04c", func(sub *Check) { ruleR04c(sub, w) }, func(k string) bool { return strings.Contains(k, "completion-on-every-exit") })
	}
	// round 7: a failed target is attempted again by the next build: nothing reports it done without a stored result
	shareRule(c, "R05o", "a target is reported done without executing only past the branch on which a stored target result was found (same obligation as R13a): a state some earlier failed run left behind is never taken for a result", 1, "R13a", func(sub *Check) { ruleR13a(sub, analyseGate(sub, "R13a")) }, func(k string) bool { return strings.Contains(k, "result-found") })
	// a command that outlives its timeout is a failure whatever it exits with: the runner keeps exec.CommandContext semantics
	shareRule(c, "R05p", "the command runs on the timeout context through exec.CommandContext with a positive WaitDelay (same obligations as R14c): a command that ends after its deadline, with whatever status, is reported as failed", 4, "R14c", func(sub *Check) { ruleR14c(sub, "R14c") }, nil)
	ruleRecoveredPanicIsAnError(c, "R05q", "worker", "execution", "dag", "loading", "output", "caching")
	if false {
	}
}

// R05a: result written only on success
func ruleR05a(c *Check, rule string) {
	c.Rule(rule, "in the executing method the completion call is reachable from the command call / output checks / chmod only through their err == nil branches, an output check sits between command and completion, and no error-returning call is dropped on the way to success in the execution functions and handler writes", 8)
	ex := findExec(c, rule)
	if ex == nil {
		return
	}
	fn := ex.ExecMethod
	fname := c.P.FuncName(fn)
	completes := callsToFn(c, fn, ex.Complete)
	// the command (or the checks) may run inside a helper of the executing method that hands its error on
	cmds, leaks := liftedSites(c, fn, func(s ssa.CallInstruction) bool {
		for _, f := range c.G.CalleesOf(s) {
			if f == ex.ExecCommand {
				return true
			}
		}
		return false
	}, 0)
	checks, leaks2 := liftedSites(c, fn, func(s ssa.CallInstruction) bool {
		for _, f := range c.G.CalleesOf(s) {
			if f == ex.OutputChecks {
				return true
			}
		}
		return false
	}, 0)
	for _, l := range append(leaks, leaks2...) {
		c.Bad(rule, "complete-after-command/"+fname+"/helper", l, "-")
	}
	if len(completes) == 0 || len(cmds) == 0 {
		c.Unknown(rule, "complete-after-command/"+fname, "completion or command call not found in the executing method", "-")
		return
	}
	for _, cp := range completes {
		bad := ""
		for _, cm := range cmds {
			if ok, _ := engine.PathExists(fn, cm, engine.IsInstr(cp), engine.PathQuery{CutEdge: engine.NilErrEdgesOf(cm)}); ok {
				bad = "outputs and the target result can be stored although the command returned an error (non-zero exit, timeout, cancellation)"
			}
		}
		c.Require(bad == "", rule, "complete-after-command/"+fname, "the completion is reachable from the command call only through its err == nil branch", bad, c.P.InstrPos(cp))
		// a post-execution output check dominates the completion and must succeed
		okCheck := false
		why := "no output check runs between the command and the completion: a target whose checks still fail after execution would be cached as successful"
		for _, ck := range checks {
			if w := onlyAfterSuccess(fn, ck, cp); w == "" {
				okCheck = true
			} else {
				why = "the completion is " + w + " (post-execution output check)"
			}
		}
		c.Require(okCheck, rule, "complete-after-checks/"+fname, "the completion is reachable only after the post-execution output checks returned nil", why, c.P.InstrPos(cp))
	}
	// error discipline over the execution path
	h := c.P.Type("output/handlers", "Handler")
	fns := []*ssa.Function{ex.ExecMethod, ex.Complete, ex.ExecCommand, ex.RunCommand, ex.OutputChecks}
	fns = append(fns, methodImpls(c, h, "Write")...)
	for _, r := range []string{"WriteOutputs", "GetNoCacheOutputHash"} {
		if f := c.P.Func("output", "Registry", r); f != nil {
			fns = append(fns, f)
		}
	}
	requireNoDroppedErrors(c, rule, fns, nil)
	// the command executor maps every runner error to a non-nil error
	runs := callsToFn(c, ex.ExecCommand, ex.RunCommand)
	for _, r := range runs {
		ok, at := engine.PathExists(ex.ExecCommand, r, successReturn, engine.PathQuery{CutEdge: engine.NilErrEdgesOf(r)})
		c.Require(!ok, rule, "command-error-is-failure/"+c.P.FuncName(ex.ExecCommand), "once the command runner returned an error no `return nil` is reachable", "a failed/timed-out/cancelled command can be reported as success", c.P.InstrPos(at))
	}
}

// R05b: single writer of target results
func ruleR05b(c *Check) {
	c.Rule("R05b", "backend.Set under the \"target\" namespace happens only in TargetResultCache.Write; that is called only by the completion function; that only by the executing method", 3)
	ex := findExec(c, "R05b")
	if ex == nil {
		return
	}
	be := c.P.Type("caching/backends", "CacheBackend")
	var owners []*ssa.Function
	n := 0
	for _, s := range c.G.Sites {
		cc := s.Common()
		isSet := (cc.IsInvoke() && cc.Method.Name() == "Set" && be != nil && engine.TypeKey(cc.Value.Type()) == "caching/backends.CacheBackend")
		if !isSet {
			continue
		}
		if len(cc.Args) >= 2 {
			if k, ok := cc.Args[1].(*ssa.Const); ok && k.Value != nil && k.Value.Kind() == constant.String && constant.StringVal(k.Value) == "target" {
				n++
				owners = append(owners, s.Parent())
			}
		}
	}
	ok := n >= 1
	for _, o := range owners {
		if o != ex.Write {
			ok = false
		}
	}
	c.Require(ok, "R05b", "target-namespace-writer", "the only Set into the \"target\" namespace is in TargetResultCache.Write", "target results are written outside TargetResultCache.Write: "+names(c, owners), "-")
	// every caller of Write belongs to the completion function or the helpers it is split into
	cw := c.G.CallerFuncs(ex.Write)
	region := regionOf(c, ex.Complete)
	okW := len(cw) >= 1
	for _, f := range cw {
		if !region[f] {
			okW = false
		}
	}
	for f := range region {
		// only the helpers on the way to the write matter (a shared bookkeeping helper may have other callers)
		if f == ex.Complete || !c.G.ReachableFuncs([]*ssa.Function{f}, nil)[ex.Write] {
			continue
		}
		for _, cf := range c.G.CallerFuncs(f) {
			if !region[cf] {
				okW = false
				cw = append(cw, cf)
			}
		}
	}
	c.Require(okW, "R05b", "result-write-caller", "TargetResultCache.Write is called only by the completion function "+c.P.FuncName(ex.Complete)+" (and helpers only it calls)", "TargetResultCache.Write can be reached without going through the completion function: "+names(c, cw), "-")
	cc := c.G.CallerFuncs(ex.Complete)
	c.Require(len(cc) == 1 && cc[0] == ex.ExecMethod, "R05b", "completion-caller", "the completion function is called only by the executing method", "the completion function (which stores results) is called from "+names(c, cc)+": a result could be recorded without the success checks of the executing method", "-")
}

// R05c: containment in the walker
func ruleR05c(c *Check, rule string) {
	c.Rule(rule, "IsSuccess=true completions are built only on the callback's nil-error branch; on a failed completion the handler (fail-fast) sets the flag, cancels the context and all nodes, or (keep-going) cancels every descendant; after fail-fast nothing is released", 4)
	w := findWalker(c, rule)
	if w == nil {
		return
	}
	rn := c.P.FuncName(w.Routine)
	// completion construction sites in the routine
	for _, s := range callsToFn(c, w.Routine, w.OnComplete) {
		args := s.Common().Args
		comp := args[len(args)-1]
		succ, known := completionSuccessConst(comp)
		if !known {
			if completionFromHelper(c, rule, w, s, comp, rn) {
				continue
			}
			c.Unknown(rule, "success-only-on-nil-error/"+rn, "the completion passed to the handler is not a literal with a constant IsSuccess", c.P.InstrPos(s))
			continue
		}
		if succ {
			reach, _ := engine.PathExists(w.Routine, w.CallbackCall, engine.IsInstr(s), engine.PathQuery{CutEdge: engine.NilErrEdgesOf(w.CallbackCall)})
			c.Require(!reach, rule, "success-only-on-nil-error/"+rn, "a successful completion is reported only on the callback's err == nil branch", "a node whose callback returned an error can be recorded as successful", c.P.InstrPos(s))
		} else {
			c.OK(rule, "failure-completion/"+rn, "failed completion reported with IsSuccess=false", c.P.InstrPos(s))
		}
	}
	// failure handling in the completion handler
	fn := w.OnComplete
	fname := c.P.FuncName(fn)
	var compParam ssa.Value
	for _, p := range fn.Params {
		if engine.TypeKey(p.Type()) == "dag.Completion" {
			compParam = p
		}
	}
	failEdge := engine.CutEdgesWhere(func(a engine.Atom) bool {
		return a.Op == "false" && isLoadOfField(a.V, fIsSuccess) && completionIsParam(a.V, compParam)
	})
	// on the failure edge: every path to a return passes a cancellation (cancelNode of descendants or cancel-all).
	// A direct call of the cancel function is a cancellation; a statically resolved first-party helper is
	// decided by its own paths (callee summary); any other site (go statement, closure, dynamic call) counts
	// when it can reach the cancel function.
	// alwaysCancels: a first-party helper every path of which passes a call of the cancel function (a thin
	// method that forwards to the registry that owns the channels, say)
	var alwaysCancels func(h *ssa.Function, depth int) bool
	alwaysCancels = func(h *ssa.Function, depth int) bool {
		if h == w.CancelNode {
			return true
		}
		if depth > 2 || len(h.Blocks) == 0 {
			return false
		}
		inner := func(in ssa.Instruction) bool {
			call, ok := in.(*ssa.Call)
			if !ok {
				return false
			}
			g := call.Call.StaticCallee()
			return g != nil && g != h && alwaysCancels(g, depth+1)
		}
		reach, _ := engine.PathExists(h, nil, func(in ssa.Instruction) bool { _, r := in.(*ssa.Return); return r && in.Parent() == h }, engine.PathQuery{CutInstr: inner, Shallow: true})
		return !reach
	}
	isCancel := func(in ssa.Instruction) bool {
		cs, ok := in.(ssa.CallInstruction)
		if !ok {
			return false
		}
		if call, ok := in.(*ssa.Call); ok {
			if h := call.Call.StaticCallee(); h != nil && len(h.Blocks) > 0 {
				return alwaysCancels(h, 0)
			}
		}
		callees := c.G.CalleesOf(cs)
		return len(callees) > 0 && c.G.ReachableFuncs(callees, nil)[w.CancelNode]
	}
	// leaving a loop whose body cancels counts as having cancelled every element, when the loop ranges
	// over all of GetDescendants(node) or over all nodes of the graph
	cancelLoopExit := func(bb *ssa.BasicBlock, si int) bool {
		if si >= len(bb.Succs) || bb.Parent() == nil {
			return false
		}
		for _, b := range bb.Parent().Blocks {
			for _, in := range b.Instrs {
				if !isCancel(in) {
					continue
				}
				if lp := engine.LoopOf(in); lp != nil && lp.Header == bb && !lp.Body[bb.Succs[si]] && lp.IsFullRange() && (descendantsLoop(c, lp) || allNodesLoop(c, lp)) {
					return true
				}
			}
		}
		return false
	}
	// find failure-edge targets
	okAll := true
	found := false
	for _, b := range fn.Blocks {
		for i, s := range b.Succs {
			if failEdge(b, i) {
				found = true
				if reach, _ := engine.PathExists(fn, nil, func(in ssa.Instruction) bool { _, r := in.(*ssa.Return); return r && in.Parent() == fn }, engine.PathQuery{
					FromBlock: s,
					CutInstr:  isCancel,
					CutEdge:   cancelLoopExit,
				}); reach {
					okAll = false
				}
			}
		}
	}
	if !found {
		c.Unknown(rule, "failure-cancels/"+fname, "no branch on the completion's IsSuccess found in the handler", "-")
	} else {
		c.Require(okAll, rule, "failure-cancels/"+fname, "every path taken after a failed completion cancels all nodes (fail-fast) or every element of GetDescendants(node) (keep-going) before returning", "after a failed completion the handler can return without cancelling the nodes that depend on it: they would wait forever or run", c.P.Pos(fn.Pos()))
	}
	// fail-fast: flag set under the same branch, and once set nothing is released
	ff := fk("dag.Walker", "failFastTriggered")
	setsFlag := false
	handlerFuncs := c.G.ReachableFuncs([]*ssa.Function{fn}, func(f *ssa.Function) bool { return !engine.InPackage(f, "dag") })
	for _, st := range storesToField(c, ff) {
		if st.Parent() == fn || handlerFuncs[st.Parent()] {
			if k, ok := engine.BoolConst(st.Val); ok && k {
				setsFlag = true
			}
		}
	}
	releases := sitesReaching(c, fn, fnSet(w.StartNode))
	okRel := setsFlag && len(releases) > 0
	for _, r := range releases {
		if reach, _ := engine.PathExists(fn, nil, engine.IsInstr(r), engine.PathQuery{CutEdge: engine.CutEdgesWhere(func(a engine.Atom) bool {
			return a.Op == "false" && isLoadOfField(a.V, ff)
		})}); reach {
			okRel = false
		}
	}
	c.Require(okRel, rule, "fail-fast-stops-releases/"+fname, "the fail-fast flag is set on failure and every release site is dominated by the flag-not-set branch", "after fail-fast was triggered a later completion can still release dependants (or the flag is never set)", c.P.Pos(fn.Pos()))
}

// allNodesLoop: the loop ranges over the graph's own node collection.
func allNodesLoop(c *Check, lp *engine.Loop) bool {
	r := lp.RangedValue()
	if r == nil {
		return false
	}
	for _, o := range engine.Origins(r) {
		ld, ok := o.(*ssa.UnOp)
		if !ok {
			return false
		}
		fa, ok := ld.X.(*ssa.FieldAddr)
		if !ok || engine.FieldKeyOf(fa.X.Type(), fa.Field) != fk("dag.DirectedTargetGraph", "nodes") {
			return false
		}
	}
	return true
}

func descendantsLoop(c *Check, lp *engine.Loop) bool {
	r := lp.RangedValue()
	call, _ := engine.CallOf(r)
	return call != nil && strings.HasSuffix(engine.CalleeName(call), "DirectedTargetGraph).GetDescendants")
}

// completionSuccessConst: the IsSuccess constant of a Completion literal passed by value.
// completionFromHelper: the completion handed to the handler is built by a helper that receives the callback's
// error (`completionOf(cacheResult, err)`): inside it every literal with IsSuccess=true has to sit behind the
// nil branch of that parameter.
func completionFromHelper(c *Check, rule string, w *walkerInfo, s ssa.CallInstruction, comp ssa.Value, rn string) bool {
	call, ok := comp.(*ssa.Call)
	if !ok {
		return false
	}
	h := call.Call.StaticCallee()
	if h == nil || len(h.Blocks) == 0 || !engine.IsFirstParty(pkgPathOf(h)) {
		return false
	}
	set := map[ssa.CallInstruction]int{w.CallbackCall: engine.ErrResultIndex(w.CallbackCall.Common().Signature())}
	var errParam *ssa.Parameter
	for i, a := range call.Call.Args {
		if i < len(h.Params) && engine.OriginsAllFromCall(a, set, true) {
			errParam = h.Params[i]
		}
	}
	if errParam == nil {
		return false
	}
	onNil := engine.CutEdgesWhere(func(a engine.Atom) bool { return a.Op == "nil" && a.V == ssa.Value(errParam) })
	decided := false
	for _, r := range engine.Returns(h) {
		if len(r.Results) != 1 {
			return false
		}
		succ, known := completionSuccessConst(r.Results[0])
		if !known {
			return false
		}
		decided = true
		if succ {
			reach, _ := engine.PathExists(h, nil, engine.IsInstr(r), engine.PathQuery{CutEdge: onNil, Shallow: true})
			c.Require(!reach, rule, "success-only-on-nil-error/"+rn, "a successful completion is built only on the err == nil branch of the helper that receives the callback's error", "a node whose callback returned an error can be recorded as successful", c.P.InstrPos(r))
		} else {
			c.OK(rule, "failure-completion/"+rn, "failed completion reported with IsSuccess=false", c.P.InstrPos(r))
		}
	}
	return decided
}

func completionSuccessConst(v ssa.Value) (bool, bool) {
	ld, ok := v.(*ssa.UnOp)
	if !ok {
		return false, false
	}
	al, ok := ld.X.(*ssa.Alloc)
	if !ok {
		return false, false
	}
	val, known := false, false
	for _, r := range *al.Referrers() {
		fa, ok := r.(*ssa.FieldAddr)
		if !ok || engine.FieldKeyOf(fa.X.Type(), fa.Field) != fIsSuccess {
			continue
		}
		for _, rr := range *fa.Referrers() {
			if st, ok := rr.(*ssa.Store); ok {
				if k, ok := engine.BoolConst(st.Val); ok {
					val, known = k, true
				} else {
					return false, false
				}
			}
		}
	}
	if !known {
		// field never stored: zero value false
		return false, true
	}
	return val, known
}

// R05d: exit status
func ruleR05d(c *Check, rule string) {
	c.Rule(rule, "in the build command, from the Execute call a normal return is reachable only through `execution error == nil` and `len(collected errors) == 0`; every os.Exit has a non-zero constant; GetErrors collects every unsuccessful completion", 3)
	exec := anchor(c, rule, "execution", "Executor", "Execute")
	if exec == nil {
		return
	}
	getErrs := anchor(c, rule, "dag", "CompletionMap", "GetErrors")
	for _, fn := range c.G.CallerFuncs(exec) {
		fname := c.P.FuncName(fn)
		for _, ec := range callsToFn(c, fn, exec) {
			isRet := func(in ssa.Instruction) bool { _, r := in.(*ssa.Return); return r }
			noReturn := func(in ssa.Instruction) bool {
				if call, ok := in.(ssa.CallInstruction); ok {
					n := engine.CalleeName(call)
					return n == "os.Exit" || strings.HasSuffix(n, ".Fatalf") || strings.HasSuffix(n, ".Fatal")
				}
				_, isPanic := in.(*ssa.Panic)
				return isPanic
			}
			r1, _ := engine.PathExists(fn, ec, isRet, engine.PathQuery{CutInstr: noReturn, CutEdge: engine.NilErrEdgesOfStrict(ec)})
			c.Require(!r1, rule, "exit-nonzero-on-execution-error/"+fname, "with a non-nil execution error every path from Execute ends in os.Exit/Fatalf", "the command can return normally (exit status 0) although Execute returned an error (e.g. after an interrupt)", c.P.InstrPos(ec))
			// collected errors
			isNoErrs := func(a engine.Atom) bool {
				lenOf, ok := lenArg(a.V)
				if !ok {
					return false
				}
				call, _ := engine.CallOf(firstOrigin(lenOf))
				if call == nil || getErrs == nil {
					return false
				}
				hit := false
				for _, f := range c.G.CalleesOf(call) {
					if f == getErrs {
						hit = true
					}
				}
				if !hit {
					return false
				}
				k, isK := a.Other.(*ssa.Const)
				zero := isK && k.Value != nil && k.Int64() == 0
				return zero && (a.Op == "le" || a.Op == "eq")
			}
			r2, _ := engine.PathExists(fn, ec, isRet, engine.PathQuery{CutInstr: noReturn, CutEdge: engine.CutEdgesWhere(isNoErrs)})
			c.Require(!r2, rule, "exit-nonzero-on-target-errors/"+fname, "a normal return is reachable from Execute only through the `no collected errors` branch", "the command can return normally (exit status 0) although some target failed", c.P.InstrPos(ec))
		}
		for _, s := range callsNamed(fn, "os.Exit") {
			k, ok := s.Common().Args[0].(*ssa.Const)
			c.Require(ok && k.Value != nil && k.Int64() != 0, rule, "exit-code-constant/"+fname, "os.Exit is called with a non-zero constant", "os.Exit is called with 0 or a non-constant on a failure path", c.P.InstrPos(s))
		}
	}
	// GetErrors: full range, append under !IsSuccess only
	if getErrs != nil {
		var app ssa.Instruction
		for _, b := range getErrs.Blocks {
			for _, in := range b.Instrs {
				if call, ok := in.(*ssa.Call); ok {
					if bi, ok := call.Call.Value.(*ssa.Builtin); ok && bi.Name() == "append" {
						app = call
					}
				}
			}
		}
		ok := false
		why := "no append found"
		if app != nil {
			lp := engine.LoopOf(app)
			if lp == nil || !lp.IsFullRange() {
				why = "errors are not collected in a full range over the completions"
			} else if w := lp.EarlyExitReaches(func(in ssa.Instruction) bool { _, r := in.(*ssa.Return); return r }); w != "" {
				why = "the collection loop can stop early: " + w
			} else {
				// only the IsSuccess test may guard the append
				guards := 0
				okGuard := false
				for b := range lp.Body {
					if b == lp.Header {
						continue
					}
					if _, isIf := lastIf(b); isIf && b.Dominates(app.Block()) {
						guards++
						for i := range b.Succs {
							if a, ok := engine.EdgeAtom(b, i); ok && a.Op == "false" && isLoadOfField(a.V, fIsSuccess) && b.Succs[i].Dominates(app.Block()) {
								okGuard = true
							}
						}
					}
				}
				if guards == 1 && okGuard {
					ok = true
				} else {
					why = fmt.Sprintf("the append is guarded by %d conditions (expected exactly the !IsSuccess test): some failed completions would not be counted", guards)
				}
			}
		}
		c.Require(ok, rule, "collect-all-failures/"+c.P.FuncName(getErrs), "every completion with !IsSuccess is appended, in a full range without early exit", why, c.P.Pos(getErrs.Pos()))
	}
}

func lenArg(v ssa.Value) (ssa.Value, bool) {
	call, ok := v.(*ssa.Call)
	if !ok {
		return nil, false
	}
	b, ok := call.Call.Value.(*ssa.Builtin)
	if !ok || b.Name() != "len" {
		return nil, false
	}
	return call.Call.Args[0], true
}

func firstOrigin(v ssa.Value) ssa.Value {
	o := engine.Origins(v)
	if len(o) == 1 && o[0] != nil {
		return o[0]
	}
	return v
}

// R05l: a dependency whose re-run failed fails every dependant that asked for it. Under load_outputs=minimal
// the dependency loader re-runs a dependency whose outputs cannot be restored; the gate executes the dependant
// only when the loader returned nil (R15b). So every call in the loader that can end in the executing method
// has to hand the execution error back to the loader's own return — for every caller, not only the first.
func ruleRerunFailureFailsDependant(c *Check, rule string) {
	c.Rule(rule, "in the dependency loader every call that reaches the executing method returns its error through return values up to the loader's return (no re-run behind a once/memo/function value whose error only one caller sees); the recursive load forwards its error as well", 1)
	ldo := anchor(c, rule, "execution", "Executor", "LoadDependencyOutputs")
	ex := findExec(c, rule)
	if ldo == nil || ex == nil {
		return
	}
	fname := c.P.FuncName(ldo)
	lifted, leaks := liftedSites(c, ldo, func(s ssa.CallInstruction) bool {
		for _, cal := range c.G.CalleesOf(s) {
			if cal == ex.ExecMethod {
				return true
			}
		}
		return false
	}, 0)
	for _, l := range leaks {
		c.Bad(rule, "rerun-error-forwarded/"+fname, "a helper of the dependency loader loses the error of the re-run: "+l, "-")
	}
	isLifted := map[ssa.CallInstruction]bool{}
	for _, s := range lifted {
		isLifted[s] = true
	}
	n := 0
	for _, s := range sitesReaching(c, ldo, fnSet(ex.ExecMethod)) {
		rec := false
		for _, cal := range c.G.CalleesOf(s) {
			if cal == ldo {
				rec = true
			}
		}
		n++
		what := "re-run"
		if rec {
			what = "recursive-load"
		}
		key := what + "-error-forwarded/" + fname
		// a call of a function value (a closure obtained from elsewhere) is an ordinary call: its error
		// result is what counts; only handing a function to code outside the program takes the error away
		handOff := false
		if h := s.Common().StaticCallee(); h != nil && !engine.IsFirstParty(pkgPathOf(h)) {
			handOff = true
		}
		if s.Common().IsInvoke() {
			handOff = true
		}
		switch {
		case !rec && !isLifted[s] && !handOff && engine.ErrResultIndex(s.Common().Signature()) >= 0 && forwardsError(ldo, s):
			c.OK(rule, key, "when the call fails the loader returns a non-nil error on every path", c.P.InstrPos(s))
		case !rec && !isLifted[s] && strings.HasSuffix(engine.CalleeName(s), "errgroup.Group).Go") && returnsGroupWait(ldo, s):
			c.OK(rule, key, "the re-run runs in an errgroup whose Wait() result is what the loader returns", c.P.InstrPos(s))
		case !rec && !isLifted[s]:
			c.Bad(rule, key, "the re-run of a dependency is started from a function value handed to "+engine.CalleeName(s)+", so its error does not come back as a return value: a caller for which the function is not run again (sync.Once, a memo) sees no error and executes the dependant of a failed dependency", c.P.InstrPos(s))
		case engine.ErrResultIndex(s.Common().Signature()) < 0 || !forwardsError(ldo, s):
			c.Bad(rule, key, "after this call failed the dependency loader can still return nil: the dependant of a dependency whose re-run failed is executed", c.P.InstrPos(s))
		default:
			c.OK(rule, key, "when the call fails the loader returns a non-nil error on every path", c.P.InstrPos(s))
		}
	}
	if n == 0 {
		c.Unknown(rule, "re-run-error-forwarded/"+fname, "no call in the dependency loader reaches the executing method", "-")
	}
}

// returnsGroupWait: every return of fn reachable from the Go call yields the Wait() result of the same group
// or an error known to be non-nil.
func returnsGroupWait(fn *ssa.Function, goCall ssa.CallInstruction) bool {
	if len(goCall.Common().Args) == 0 {
		return false
	}
	grp := goCall.Common().Args[0]
	idx := engine.ErrResultIndex(fn.Signature)
	if idx < 0 {
		return false
	}
	ok := true
	engine.PathExists(fn, goCall, func(in ssa.Instruction) bool {
		r, isRet := in.(*ssa.Return)
		if !isRet || in.Parent() != fn {
			return false
		}
		if definitelyNonNilReturn(fn, r) {
			return false
		}
		for _, o := range engine.Origins(r.Results[idx]) {
			call, _ := engine.CallOf(o)
			if call == nil || !strings.HasSuffix(engine.CalleeName(call), "errgroup.Group).Wait") || len(call.Common().Args) == 0 || !sameVar(call.Common().Args[0], grp) {
				ok = false
			}
		}
		return false
	}, engine.PathQuery{Shallow: true})
	return ok
}
