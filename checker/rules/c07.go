package rules

import (
	"fmt"
	"go/types"
	"sort"
	"strings"

	"golang.org/x/tools/go/ssa"

	"grogverif/engine"
)

func init() { register("C07", runC07) }

func runC07(c *Check, tier string) {
	c.Decides = "a file can appear under a final cache key only by os.Rename of a file obtained from os.CreateTemp in the same directory, after the content copy and Close returned nil, and the final path is never opened for writing; only the fs backend (plus the locker, `clean` and the per-target logs) creates or renames files under the grog root; the result is written after its blobs (R01d); the digest and the bytes handed to a CAS write come from the same path / byte slice; the 'exists' memo is set only after a successful write or a positive backend answer; no first-party reader manufactures io.EOF; a remote blob enters the local tier only whole (read-through fill with the complete remote stream; a failed copy into a pipe closes it with the error); cache entries are never linked into the workspace."
	c.NotDec = "interleavings with a concurrent process, fsync/power loss, TOCTOU between hashing and uploading a file that is still changing, remote-side atomicity."
	ruleR07a(c)
	ruleStreamErrorIsNotEOF(c, "R07t", "caching", "output/handlers")
	ruleR07b(c, "R07b")
	ruleR01d(c, "R07c")
	ruleR07d(c)
	ruleR07e(c, "R07e")
	ruleR07f(c, "R07f")
	// a blob fetched from the remote tier enters the local cache only whole (read-through fills)
	if w := findWrapper(c, "R07g"); w != nil {
		ruleR08b(c, w, "R07g")
	}
	rulePipeErrorPropagated(c, "R07h")
	ruleReaderConsumedOnce(c, "R07i", "caching", "output")
	// a result is visible only after its blobs: no upload error is lost on the way to the record
	ruleWritePathErrors(c, "R07k")
	ruleCommitOnlyAfterCopy(c, "R07l")
	ruleMemoInvalidatedOnDelete(c, "R07m")
	ruleUploadLoopComplete(c, "R07n")
	// a failed restore is not remembered as done, and a record never names a digest that was not stored
	ruleLoadedMarkAfterLoads(c, "R07o")
	ruleRecordOnlyAfterStore(c, "R07p")
	ruleDeferredResultNotClobbered(c, "R07q", "output", "output/handlers", "caching", "caching/backends", "execution", "loading", "locking")
	ruleStoreReaderFresh(c, "R07r")
	rulePooledBufferReset(c, "R07s")
	// a build killed while it held the workspace lock must not block the next one
	if li := findLocker(c, "R07j"); li != nil {
		ruleR10b(c, li, "R07j", false)
	}
}

func fsCacheMethods(c *Check) []*ssa.Function {
	var out []*ssa.Function
	for _, fn := range c.P.Funcs {
		if r := fn.Signature.Recv(); r != nil && engine.TypeKey(r.Type()) == "caching/backends.FileSystemCache" {
			out = append(out, fn)
		}
	}
	sort.Slice(out, func(i, j int) bool { return c.P.FuncName(out[i]) < c.P.FuncName(out[j]) })
	return out
}

func ruleR07a(c *Check) {
	c.Rule("R07a", "in the fs backend: the final path (joined from the cache dir, namespace and key) is used only for Open/Stat/Remove/Dir/logging and as the destination of os.Rename; the rename source is the name of an os.CreateTemp file created in filepath.Dir(final); the rename is reachable only after the content copy into that temp file and its Close returned nil; the copied bytes come straight from the content parameter", 2)
	methods := fsCacheMethods(c)
	if len(methods) == 0 {
		c.Unknown("R07a", "anchor/FileSystemCache", "anchor-unresolved: no methods of backends.FileSystemCache", "-")
		return
	}
	cacheDir := fk("caching/backends.FileSystemCache", "workspaceCacheDir")
	inFs := map[*ssa.Function]bool{}
	for _, m := range methods {
		inFs[m] = true
	}
	local := func(e *engine.Edge) bool {
		return e.Via != nil && inFs[e.Via.Parent()] && e.Kind != engine.EField && !isContentEdge(e)
	}
	// final-path values: derived from the cache dir field inside the fs methods
	fwd := c.G.Forward([]Node{cacheDir}, func(e *engine.Edge) bool {
		if !local(e) {
			return false
		}
		// filepath.Dir(final) is the directory, not the final path
		if call, ok := e.Via.(ssa.CallInstruction); ok && e.Kind == engine.EExtArg && engine.CalleeName(call) == "path/filepath.Dir" {
			return false
		}
		return true
	})
	writeCalls := map[string]int{"os.Create": 0, "os.OpenFile": 0, "os.WriteFile": 0, "os.Link": 1, "os.Symlink": 1, "io/ioutil.WriteFile": 0}
	for _, m := range methods {
		for _, s := range engine.SitesIn(m) {
			name := engine.CalleeName(s)
			if idx, ok := writeCalls[name]; ok {
				if name == "os.OpenFile" && !openFileWrites(s) {
					continue
				}
				p := s.Common().Args[idx]
				if fwd.Has(p) {
					c.Bad("R07a", "final-path-not-written/"+c.P.FuncName(m), "a file is opened for writing directly under its final cache key: a crash or a concurrent reader sees a partially written entry under a valid key", c.P.InstrPos(s))
				}
			}
		}
	}
	renames := 0
	for _, m := range methods {
		for _, rn := range callsNamed(m, "os.Rename") {
			renames++
			mname := c.P.FuncName(m)
			src, dst := rn.Common().Args[0], rn.Common().Args[1]
			okDst := fwd.Has(dst)
			// source: (*os.File).Name() of a CreateTemp result (in this method, or returned by a staging helper)
			var tmp ssa.Value
			var ct ssa.CallInstruction
			var ctCtx []*ssa.Call
			for _, do := range engine.OriginsDeep(src) {
				if do.V == nil {
					continue
				}
				engine.WithCtx(do.Ctx, func() {
					if call, _ := engine.CallOf(do.V); call != nil && engine.CalleeName(call) == "(*os.File).Name" {
						for _, fo := range engine.Origins(call.Common().Args[0]) {
							if c2, idx := engine.CallOf(fo); c2 != nil && engine.CalleeName(c2) == "os.CreateTemp" && idx == 0 {
								tmp = call.Common().Args[0]
								ct = c2
								ctCtx = do.Ctx
							}
						}
					}
				})
			}
			if tmp == nil {
				c.Bad("R07a", "publish-by-rename/"+mname, "the rename source is not the name of a file obtained from os.CreateTemp: concurrent writers of the same key would share one temp file and publish each other's partial content", c.P.InstrPos(rn))
				continue
			}
			// same directory
			sameDir := false
			engine.WithCtx(ctCtx, func() {
				for _, o := range engine.Origins(ct.Common().Args[0]) {
					if call, _ := engine.CallOf(o); call != nil && engine.CalleeName(call) == "path/filepath.Dir" {
						if sameVar(call.Common().Args[0], dst) || engine.ExprKey(call.Common().Args[0]) == engine.ExprKey(dst) {
							sameDir = true
						}
					}
				}
			})
			// copy and close succeeded (the calls themselves, or a staging helper that forwards their errors)
			why := ""
			isCopy := func(s ssa.CallInstruction) bool {
				switch engine.CalleeName(s) {
				case "io.Copy", "io.CopyBuffer", "io.CopyN":
					return sameFile(s.Common().Args[0], tmp)
				}
				return false
			}
			isClose := func(s ssa.CallInstruction) bool {
				_, isCall := s.(*ssa.Call)
				// the temp file behind an io.WriteCloser parameter of a staging helper
				if cc := s.Common(); isCall && cc.IsInvoke() && cc.Method.Name() == "Close" && sameFile(cc.Value, tmp) {
					return true
				}
				if engine.CalleeName(s) != "(*os.File).Close" {
					return false
				}
				return isCall && sameFile(s.Common().Args[0], tmp)
			}
			copies, leaks1 := liftedSites(c, m, isCopy, 0)
			closes, leaks2 := liftedSites(c, m, isClose, 0)
			for _, l := range append(leaks1, leaks2...) {
				why = "a staging helper loses an error: " + l
			}
			if len(copies) == 0 && why == "" {
				why = "no content copy into the temp file"
			}
			for _, cp := range copies {
				if w := onlyAfterSuccess(m, cp, rn); w != "" {
					why = "the rename is " + w + " (content copy)"
				}
			}
			okClose := false
			for _, cl := range closes {
				if w := onlyAfterSuccess(m, cl, rn); w == "" {
					okClose = true
				}
			}
			// a staging helper that closes the file in a deferred literal and reports the close error through
			// its named result: its nil return means "copied and closed"
			for _, s := range engine.SitesIn(m) {
				call, isCall := s.(*ssa.Call)
				if !isCall {
					continue
				}
				h := call.Call.StaticCallee()
				if h == nil || len(h.Blocks) == 0 || !engine.IsFirstParty(pkgPathOf(h)) {
					continue
				}
				for i, a := range call.Call.Args {
					if i < len(h.Params) && sameFile(a, tmp) && closesAndReports(h, h.Params[i]) {
						if w := onlyAfterSuccess(m, call, rn); w == "" {
							okClose = true
						}
					}
				}
			}
			if !okClose && why == "" {
				why = "the temp file is not closed successfully before the rename on every path"
			}
			c.Require(okDst && sameDir && why == "", "R07a", "publish-by-rename/"+mname, "rename(CreateTemp(dir(final)).Name(), final) after copy and Close returned nil",
				fmt.Sprintf("atomic publish broken (destination is the final path: %v; temp file in the destination directory: %v; %s)", okDst, sameDir, why), c.P.InstrPos(rn))
		}
	}
	if renames == 0 {
		c.Bad("R07a", "publish-by-rename", "the fs backend no longer publishes entries by rename", "-")
	}
	// the content parameter is what is copied (no wrapper that could truncate)
	for _, m := range methods {
		if m.Name() != "Set" {
			continue
		}
		var content ssa.Value
		for _, p := range m.Params {
			if p.Type().String() == "io.Reader" {
				content = p
			}
		}
		region := regionOf(c, m)
		for rf := range region {
			for _, cp := range callsNamed(rf, "io.Copy") {
				src := cp.Common().Args[1]
				direct := false
				for _, o := range engine.Origins(src) {
					if o == content {
						direct = true
					}
					// in a staging helper: its reader parameter, given the content parameter at every call
					if prm, isP := o.(*ssa.Parameter); isP && rf != m {
						okAll := true
						n := 0
						for _, cs := range c.G.CallersOf(rf) {
							for k, fp := range rf.Params {
								if fp != prm || k >= len(cs.Common().Args) {
									continue
								}
								n++
								fromContent := false
								for _, ao := range engine.Origins(cs.Common().Args[k]) {
									if ao == content {
										fromContent = true
									}
								}
								if !fromContent || cs.Parent() != m {
									okAll = false
								}
							}
						}
						if okAll && n > 0 {
							direct = true
						}
					}
				}
				c.Require(direct, "R07a", "copy-source-is-content/"+c.P.FuncName(m), "the bytes copied into the temp file are read directly from the content parameter", "the content is copied through an intermediate reader: a wrapper that ends the stream early (e.g. on cancellation) would publish a truncated blob under the full digest", c.P.InstrPos(cp))
			}
		}
	}
}

func sameFile(a, b ssa.Value) bool {
	if sameVar(a, b) {
		return true
	}
	for _, oa := range engine.Origins(a) {
		for _, ob := range engine.Origins(b) {
			if oa != nil && oa == ob {
				return true
			}
		}
	}
	return false
}

func openFileWrites(s ssa.CallInstruction) bool {
	if len(s.Common().Args) < 2 {
		return true
	}
	k, ok := s.Common().Args[1].(*ssa.Const)
	if !ok || k.Value == nil {
		return true
	}
	return k.Int64()&0x3 != 0 || k.Int64()&0x40 != 0
}

// R07b: single owner of the grog root
func ruleR07b(c *Check, rule string) {
	c.Rule(rule, "file creations/renames/removals whose path derives from the grog root or the workspace cache directory occur only in the fs backend, the workspace locker, the clean command and the per-target log files", 5)
	var srcs []Node
	for _, n := range []string{"GetWorkspaceCacheDirectory", "GetWorkspaceRootDir"} {
		if f := c.P.Func("config", "WorkspaceConfig", n); f != nil {
			srcs = append(srcs, engine.RetKey{Fn: f, I: 0})
		}
	}
	srcs = append(srcs, fk("config.WorkspaceConfig", "Root"), fk("caching/backends.FileSystemCache", "workspaceCacheDir"))
	fwd := c.G.Forward(srcs, func(e *engine.Edge) bool {
		if isContentEdge(e) || e.Kind == engine.EAlias || e.Kind == engine.EField {
			return false
		}
		if isContextNode(e.From) || isContextNode(e.To) {
			return false
		}
		if call, ok := e.Via.(ssa.CallInstruction); ok && (e.Kind == engine.EExtArg || e.Kind == engine.EExtWrite) && isLogOrErrCall(engine.CalleeName(call)) {
			return false
		}
		return true
	})
	mut := map[string][]int{"os.Create": {0}, "os.OpenFile": {0}, "os.WriteFile": {0}, "os.Rename": {0, 1}, "os.CreateTemp": {0}, "os.MkdirAll": {0}, "os.Mkdir": {0}, "os.Remove": {0}, "os.RemoveAll": {0}, "os.Link": {1}, "os.Symlink": {1}}
	fsHelpers := map[*ssa.Function]bool{}
	for _, m := range fsCacheMethods(c) {
		region := regionOf(c, m)
		if len(regionEntrants(c, region, m)) > 0 {
			continue
		}
		for f := range region {
			fsHelpers[f] = true
		}
	}
	// a helper shared by several fs methods: all its callers are fs-backend functions
	for pass := 0; pass < 2; pass++ {
		for _, f := range c.P.Funcs {
			if !engine.InPackage(f, "caching/backends") || f.Signature.Recv() != nil || fsHelpers[f] {
				continue
			}
			callers := c.G.CallerFuncs(f)
			okAll := len(callers) > 0
			for _, cf := range callers {
				top := engine.TopFunc(cf)
				isFs := top.Signature.Recv() != nil && engine.TypeKey(top.Signature.Recv().Type()) == "caching/backends.FileSystemCache"
				if !isFs && !fsHelpers[top] {
					okAll = false
				}
			}
			if okAll {
				fsHelpers[f] = true
			}
		}
	}
	allowed := func(fn *ssa.Function) (bool, string) {
		top := engine.TopFunc(fn)
		switch {
		case fsHelpers[top]:
			return true, "fs backend (helper called only by its methods)"
		case engine.InPackage(top, "caching/backends") && (top.Signature.Recv() != nil && engine.TypeKey(top.Signature.Recv().Type()) == "caching/backends.FileSystemCache" || top.Name() == "NewFileSystemCache"):
			return true, "fs backend"
		case engine.InPackage(top, "locking"):
			return true, "workspace locker (lock file)"
		case engine.InPackage(top, "logs"):
			return true, "per-target log files"
		case engine.InPackage(top, "cmd/cmds") && len(callsNamed(fn, "os.RemoveAll")) > 0 && isCobraRun(c, fn):
			return true, "clean command (removes and recreates the cache directories wholesale)"
		}
		return false, ""
	}
	n := 0
	for _, s := range c.G.Sites {
		idxs, ok := mut[engine.CalleeName(s)]
		if !ok {
			continue
		}
		hit := false
		for _, i := range idxs {
			if i < len(s.Common().Args) && fwd.Has(s.Common().Args[i]) {
				hit = true
			}
		}
		if !hit {
			continue
		}
		n++
		ok2, why := allowed(s.Parent())
		c.Require(ok2, rule, "cache-dir-owner/"+siteKey(c, s), "mutation under the grog root by its owner: "+why, "a file under the grog root / cache directory is created, renamed or removed outside the fs backend: cache entries could appear without the temp-file + rename protocol", c.P.InstrPos(s))
	}
	if n == 0 {
		c.Unknown(rule, "cache-dir-owner", "no mutation under the grog root found at all: the provenance anchor lost its subject", "-")
	}
	// cache entries are never aliased into the workspace: a hard link (or symlink) whose source lies in the
	// cache directory lets a later command rewrite the blob in place under its old digest
	for _, s := range c.G.CallsTo("os.Link", "os.Symlink") {
		if len(s.Common().Args) < 2 || !fwd.Has(s.Common().Args[0]) {
			continue
		}
		// the owner may link one cache entry to another; a link whose destination lies outside the cache
		// directory aliases the entry no matter who creates it (a backend method that "restores by hard link")
		if ok, _ := allowed(s.Parent()); ok && fwd.Has(s.Common().Args[1]) {
			continue
		}
		c.Bad(rule, "cache-entry-not-aliased/"+siteKey(c, s), "a path inside the cache directory is linked into the workspace: the restored file shares its storage with the cache entry, so a command that rewrites its output in place changes the blob stored under the old digest (later restores of that digest return the wrong bytes)", c.P.InstrPos(s))
	}
}

// R07d: digest/content pairing at CAS writes
func ruleR07d(c *Check) {
	c.Rule("R07d", "at every CAS write the digest and the content come from the same source: HashBytes(b) with a reader over the same b, or a hash of path p with os.Open of the same p (directly, or through the two fields of one upload record filled from the same path)", 3)
	casWrite := anchor(c, "R07d", "caching", "Cas", "Write")
	if casWrite == nil {
		return
	}
	hashers := hashComposing(c)
	for _, s := range c.G.CallersOf(casWrite) {
		fn := s.Parent()
		if engine.InPackage(fn, "caching") {
			continue // WriteBytes forwards
		}
		if r := engine.TopFunc(fn).Signature.Recv(); r != nil && strings.Contains(engine.TypeKey(r.Type()), "Docker") {
			// tabled: docker blobs are stored under OCI content digests that the image library
			// (go-containerregistry) supplies together with the layer/config/manifest streams;
			// the pairing is that library's contract, not a digest grog computes
			continue
		}
		args := s.Common().Args
		digest, reader := args[len(args)-2], args[len(args)-1]
		key := "digest-content-paired/" + c.P.FuncName(fn)
		ok, why := pairedDigest(c, fn, digest, reader, hashers)
		c.Require(ok, "R07d", key, why, "the digest and the content handed to the CAS do not provably come from the same file/bytes ("+why+"): a blob could be stored under a digest that is not its own", c.P.InstrPos(s))
	}
}

// closesAndReports: h defers a function literal that closes the given file parameter and stores the error of
// that Close into an error cell it captures (the named result), so a failed Close cannot end in a nil return.
func closesAndReports(h *ssa.Function, file *ssa.Parameter) bool {
	for _, b := range h.Blocks {
		for _, in := range b.Instrs {
			d, ok := in.(*ssa.Defer)
			if !ok {
				continue
			}
			mc, ok := d.Call.Value.(*ssa.MakeClosure)
			if !ok {
				continue
			}
			lit, ok := mc.Fn.(*ssa.Function)
			if !ok {
				continue
			}
			// which free variable is the file
			fileVar := map[ssa.Value]bool{}
			for i, bnd := range mc.Bindings {
				if i >= len(lit.FreeVars) {
					continue
				}
				if bnd == ssa.Value(file) {
					fileVar[lit.FreeVars[i]] = true
				}
				if al, isAl := bnd.(*ssa.Alloc); isAl {
					for _, ref := range *al.Referrers() {
						if st, isSt := ref.(*ssa.Store); isSt && st.Val == ssa.Value(file) {
							fileVar[lit.FreeVars[i]] = true
						}
					}
				}
			}
			for _, s := range engine.SitesIn(lit) {
				if engine.CalleeName(s) != "(*os.File).Close" {
					continue
				}
				onFile := false
				for _, o := range engine.Origins(s.Common().Args[0]) {
					if fileVar[o] {
						onFile = true
					}
					if ld, isLd := o.(*ssa.UnOp); isLd && fileVar[ld.X] {
						onFile = true
					}
				}
				if !onFile {
					continue
				}
				// the close error reaches a captured error cell
				for _, lb := range lit.Blocks {
					for _, li := range lb.Instrs {
						st, isSt := li.(*ssa.Store)
						if !isSt {
							continue
						}
						if _, isFV := st.Addr.(*ssa.FreeVar); !isFV {
							continue
						}
						for _, o := range engine.Origins(st.Val) {
							if cl, _ := engine.CallOf(o); cl == s {
								return true
							}
						}
					}
				}
			}
		}
	}
	return false
}

func pairedDigest(c *Check, fn *ssa.Function, digest, reader ssa.Value, hashers map[*ssa.Function]bool) (bool, string) {
	rb := c.G.Backward([]Node{reader}, func(e *engine.Edge) bool { return e.Via != nil && e.Via.Parent() == fn && e.Kind != engine.EField })
	// content side: os.Open(p) or bytes.NewReader(b)
	var openArg, bytesArg ssa.Value
	for n := range rb.Parent {
		if call, ok := n.(*ssa.Call); ok {
			switch engine.CalleeName(call) {
			case "os.Open":
				openArg = call.Call.Args[0]
			case "bytes.NewReader":
				bytesArg = call.Call.Args[0]
			}
		}
	}
	// digest side
	for _, o := range engine.Origins(digest) {
		if o == nil {
			return false, "digest may be the zero value"
		}
		// the digest is computed by reading the very handle that is then uploaded (rewinding it in between is
		// R01v's obligation): a first-party function that is handed a view of the uploaded file
		if call, _ := engine.CallOf(o); call != nil {
			if h := call.Common().StaticCallee(); h != nil && engine.IsFirstParty(pkgPathOf(h)) {
				up := map[ssa.Value]bool{}
				readerRoots(reader, 0, up)
				shares := false
				for _, a := range call.Common().Args {
					if !implementsReader(a.Type()) {
						continue
					}
					ar := map[ssa.Value]bool{}
					readerRoots(a, 0, ar)
					for r := range ar {
						if up[r] && strings.HasSuffix(r.Type().String(), "*os.File") {
							shares = true
						}
					}
				}
				if shares {
					continue
				}
			}
		}
		if call, _ := engine.CallOf(o); call != nil && calleeInSet(c, call, hashers) {
			a := call.Common().Args[len(call.Common().Args)-1]
			if bytesArg != nil && (sameVar(a, bytesArg) || engine.ExprKey(a) == engine.ExprKey(bytesArg) || shareOrigin(a, bytesArg)) {
				continue
			}
			if openArg != nil && (sameVar(a, openArg) || engine.ExprKey(a) == engine.ExprKey(openArg) || shareOrigin(a, openArg)) {
				continue
			}
			return false, "the hashed source differs from the uploaded source"
		}
		// record form: digest = X.f1, open(X.f2) with the same X, and every construction pairs them
		if base, ok := fieldBase(o); ok && openArg != nil {
			if ob, ok2 := fieldBaseOf(openArg); ok2 && sameFile(base, ob) {
				if recordPaired(c, o, openArg, hashers) {
					continue
				}
				return false, "the upload record's digest and path fields are not filled from the same path at construction"
			}
		}
		return false, "digest of unrecognised origin"
	}
	if openArg == nil && bytesArg == nil {
		return false, "content of unrecognised origin"
	}
	return true, "digest and content derive from the same path / byte slice"
}

func fieldBase(v ssa.Value) (ssa.Value, bool) {
	switch x := v.(type) {
	case *ssa.UnOp:
		if fa, ok := x.X.(*ssa.FieldAddr); ok {
			return fa.X, true
		}
	case *ssa.Field:
		return x.X, true
	}
	return nil, false
}

func fieldBaseOf(v ssa.Value) (ssa.Value, bool) {
	for _, o := range engine.Origins(v) {
		if o == nil {
			continue
		}
		if b, ok := fieldBase(o); ok {
			return b, true
		}
	}
	return nil, false
}

// recordPaired: every composite literal of the record type stores into the
// digest field a hash of the very path it stores into the path field.
func recordPaired(c *Check, digestRead, pathRead ssa.Value, hashers map[*ssa.Function]bool) bool {
	var dKey, pKey engine.FieldKey
	if u, ok := digestRead.(*ssa.UnOp); ok {
		fa := u.X.(*ssa.FieldAddr)
		dKey = engine.FieldKeyOf(fa.X.Type(), fa.Field)
	} else if f, ok := digestRead.(*ssa.Field); ok {
		dKey = engine.FieldKeyOf(f.X.Type(), f.Field)
	}
	for _, o := range engine.Origins(pathRead) {
		if u, ok := o.(*ssa.UnOp); ok {
			if fa, ok := u.X.(*ssa.FieldAddr); ok {
				pKey = engine.FieldKeyOf(fa.X.Type(), fa.Field)
			}
		} else if f, ok := o.(*ssa.Field); ok {
			pKey = engine.FieldKeyOf(f.X.Type(), f.Field)
		}
	}
	if dKey.T == "" || pKey.T == "" || dKey.T != pKey.T {
		return false
	}
	dStores, pStores := storesToField(c, dKey), storesToField(c, pKey)
	if len(dStores) == 0 || len(dStores) != len(pStores) {
		return false
	}
	for _, ds := range dStores {
		paired := false
		for _, ps := range pStores {
			if ds.Parent() != ps.Parent() || ds.Addr.(*ssa.FieldAddr).X != ps.Addr.(*ssa.FieldAddr).X {
				continue
			}
			// ds.Val = (hash of ps.Val).Hash
			back := c.G.Backward([]Node{ds.Val}, func(e *engine.Edge) bool { return e.Via != nil && e.Via.Parent() == ds.Parent() })
			for n := range back.Parent {
				if call, ok := n.(*ssa.Call); ok && calleeInSet(c, call, hashers) {
					a := call.Call.Args[len(call.Call.Args)-1]
					if sameVar(a, ps.Val) || engine.ExprKey(a) == engine.ExprKey(ps.Val) {
						paired = true
					}
				}
			}
		}
		if !paired {
			return false
		}
	}
	return true
}

// R07e: memo soundness
func ruleR07e(c *Check, rule string) {
	c.Rule(rule, "the CAS 'digest exists' memo is written only after backend.Set returned nil or backend.Exists answered (true, nil)", 2)
	// the memo: the sync.Map field(s) of caching.Cas (located by type, not by name)
	memos := map[engine.FieldKey]bool{}
	if t := c.P.Type("caching", "Cas"); t != nil {
		if st, ok := t.Underlying().(*types.Struct); ok {
			for i := 0; i < st.NumFields(); i++ {
				if st.Field(i).Type().String() == "sync.Map" {
					memos[fk("caching.Cas", st.Field(i).Name())] = true
				}
			}
		}
	}
	isBackendCall := func(b ssa.CallInstruction) bool {
		cc := b.Common()
		return cc.IsInvoke() && engine.TypeKey(cc.Value.Type()) == "caching/backends.CacheBackend"
	}
	n := 0
	var check func(s ssa.CallInstruction, depth int)
	check = func(s ssa.CallInstruction, depth int) {
		fn := s.Parent()
		hasBackend := false
		for _, b := range engine.SitesIn(fn) {
			if isBackendCall(b) {
				hasBackend = true
			}
		}
		if !hasBackend && depth < 2 {
			// a helper that only records the digest: judge the sites that call it
			callers := c.G.CallersOf(fn)
			if len(callers) > 0 {
				for _, cs := range callers {
					check(cs, depth+1)
				}
				return
			}
		}
		n++
		key := "memo-after-success/" + c.P.FuncName(fn)
		okAny := false
		for _, b := range engine.SitesIn(fn) {
			if !isBackendCall(b) {
				continue
			}
			switch b.Common().Method.Name() {
			case "Set":
				if w := onlyAfterSuccess(fn, b, s); w == "" {
					okAny = true
				}
			case "Exists":
				// dominated by err == nil and result true
				r1, _ := engine.PathExists(fn, b, engine.IsInstr(s), engine.PathQuery{CutEdge: engine.NilErrEdgesOf(b)})
				r2, _ := engine.PathExists(fn, b, engine.IsInstr(s), engine.PathQuery{CutEdge: engine.CutEdgesWhere(atomFromCall("true", 0, b))})
				r0, _ := engine.PathExists(fn, nil, engine.IsInstr(s), engine.PathQuery{CutInstr: engine.IsInstr(b)})
				if !r1 && !r2 && !r0 {
					okAny = true
				}
			}
		}
		c.Require(okAny, rule, key, "the memo is set only after a successful Set / a positive Exists", "a digest is remembered as present before (or without) the backend write having succeeded: a failed or still-running upload makes every later write of that digest a silent no-op, so a result can reference a blob that was never stored", c.P.InstrPos(s))
	}
	for _, s := range c.G.Sites {
		name := engine.CalleeName(s)
		if !(name == "(*sync.Map).Store" || name == "(*sync.Map).LoadOrStore" || name == "(*sync.Map).Swap" || name == "(*sync.Map).CompareAndSwap") {
			continue
		}
		fa, ok := s.Common().Args[0].(*ssa.FieldAddr)
		if !ok || !memos[engine.FieldKeyOf(fa.X.Type(), fa.Field)] {
			continue
		}
		check(s, 0)
	}
	// the memo as a small type of its own (a mutex-protected set with an add method): the writes are the
	// calls, on a field of caching.Cas, of the methods of that type that insert into its table
	if t := c.P.Type("caching", "Cas"); t != nil {
		if st, ok := t.Underlying().(*types.Struct); ok {
			for i := 0; i < st.NumFields(); i++ {
				ft := engine.NamedOf(st.Field(i).Type())
				if ft == nil || ft.Obj().Pkg() == nil || !engine.IsFirstParty(ft.Obj().Pkg().Path()) {
					continue
				}
				if _, isStruct := ft.Underlying().(*types.Struct); !isStruct {
					continue
				}
				tkey := engine.TypeKey(ft)
				for _, m := range c.P.Funcs {
					if m.Signature.Recv() == nil || engine.TypeKey(m.Signature.Recv().Type()) != tkey {
						continue
					}
					inserts := false
					for _, b := range m.Blocks {
						for _, in := range b.Instrs {
							switch x := in.(type) {
							case *ssa.MapUpdate:
								inserts = true
							case *ssa.Call:
								if nme := engine.CalleeName(x); nme == "(*sync.Map).Store" || nme == "(*sync.Map).LoadOrStore" {
									inserts = true
								}
							}
						}
					}
					if !inserts {
						continue
					}
					for _, cs := range c.G.CallersOf(m) {
						if top := engine.TopFunc(cs.Parent()); top.Signature.Recv() != nil && engine.TypeKey(top.Signature.Recv().Type()) == "caching.Cas" {
							check(cs, 0)
						}
					}
				}
			}
		}
	}
	if n == 0 {
		c.Unknown(rule, "memo-after-success", "no writes to the exists-memo found", "-")
	}
}

// R07f: no manufactured end-of-stream
func ruleR07f(c *Check, rule string) {
	c.Rule(rule, "no first-party io.Reader implementation returns io.EOF that does not come from the reader it wraps (a manufactured EOF silently truncates a blob)", 0)
	for _, fn := range c.P.Funcs {
		if fn.Name() != "Read" || fn.Signature.Recv() == nil || fn.Signature.Params().Len() != 1 || fn.Signature.Results().Len() != 2 {
			continue
		}
		bad := false
		var at ssa.Instruction
		for _, r := range engine.Returns(fn) {
			for _, o := range engine.Origins(r.Results[1]) {
				if ld, ok := o.(*ssa.UnOp); ok {
					if g, ok := ld.X.(*ssa.Global); ok && g.Pkg != nil && g.Pkg.Pkg.Path() == "io" && g.Name() == "EOF" {
						bad = true
						at = r
					}
				}
			}
		}
		pos := c.P.Pos(fn.Pos())
		if at != nil {
			pos = c.P.InstrPos(at)
		}
		c.Require(!bad, rule, "no-manufactured-eof/"+c.P.FuncName(fn), "errors returned by this Read come from the wrapped reader", "this Read returns a literal io.EOF: consumers (io.Copy into the cache) take it as a complete stream, so an early stop publishes truncated content under the full digest", pos)
	}
}

func isCobraRun(c *Check, fn *ssa.Function) bool {
	for _, f := range c.G.CobraRunFuncs() {
		if f == fn {
			return true
		}
	}
	return false
}

// R07l: a streamed upload is committed only when it is complete. Closing a GCS object writer commits the object;
// when the copy into it failed the upload has to be abandoned (return without Close, cancel the context), or the
// bucket keeps a truncated blob under a content digest and every later build skips the upload because it exists.
func ruleCommitOnlyAfterCopy(c *Check, rule string) {
	c.Rule(rule, "in the remote backends every Close of an object writer (the call that commits the upload) is reachable only when the copy into the writer returned nil: not on the copy's failure path, and not from a deferred function that runs on it", 1)
	const closeName = "(*cloud.google.com/go/storage.Writer).Close"
	n := 0
	for _, fn := range c.P.Funcs {
		if !engine.InPackage(fn, "caching/backends") || fn.Parent() != nil {
			continue
		}
		var closes []ssa.CallInstruction
		for _, f := range engine.AnonFuncsDeep(fn) {
			closes = append(closes, callsNamed(f, closeName)...)
		}
		if len(closes) == 0 {
			continue
		}
		copies := callsNamed(fn, "io.Copy", "io.CopyBuffer", "io.CopyN")
		for _, cl := range closes {
			n++
			key := "commit-after-copy/" + c.P.FuncName(fn)
			bad := ""
			if cl.Parent() != fn {
				// inside a function literal: if it is deferred it runs on the failure path as well, unless
				// the Close is guarded by a nil test on a captured error
				deferred := false
				for _, s := range engine.SitesIn(fn) {
					if _, isDefer := s.(*ssa.Defer); isDefer {
						for _, cal := range c.G.CalleesOf(s) {
							if cal == cl.Parent() {
								deferred = true
							}
						}
					}
				}
				if deferred {
					guarded := engine.CutEdgesWhere(func(a engine.Atom) bool {
						if a.Op != "nil" {
							return false
						}
						for _, o := range engine.Origins(a.V) {
							if ld, ok := o.(*ssa.UnOp); ok {
								if _, isFree := ld.X.(*ssa.FreeVar); isFree {
									return true
								}
							}
						}
						return false
					})
					if r, _ := engine.PathExists(cl.Parent(), nil, engine.IsInstr(cl), engine.PathQuery{CutEdge: guarded, Shallow: true}); r {
						bad = "the writer is closed in a deferred function, which also runs when the copy failed"
					}
				}
			} else {
				for _, cp := range copies {
					if r, _ := engine.PathExists(fn, cp, engine.IsInstr(cl), engine.PathQuery{CutEdge: engine.NilErrEdgesOf(cp), Shallow: true}); r {
						bad = "the writer is closed on the path taken when the copy failed"
					}
				}
				if _, isDefer := cl.(*ssa.Defer); isDefer {
					bad = "the writer's Close is deferred, so it also runs when the copy failed"
				}
			}
			c.Require(bad == "", rule, key, "the upload is committed only after the whole content was copied", bad+": the object store commits whatever arrived, i.e. a truncated or empty blob under a content digest; `Exists` answers true from then on, later builds skip the upload, and every machine restores the damaged content", c.P.InstrPos(cl))
		}
	}
	if n == 0 {
		c.Unknown(rule, "commit-after-copy", "no object-writer Close found in the remote backends", "-")
	}
}

// R07m: the 'digest exists' memo never outlives the blob. Wherever the CAS removes a digest from the backend it
// also forgets it, or a later write of the same digest is skipped as "already there".
func ruleMemoInvalidatedOnDelete(c *Check, rule string) {
	c.Rule(rule, "every function of the CAS that deletes a digest from the backend also removes it from the exists-memo (sync.Map Delete / Clear, or a Store of false) before it returns successfully", 0)
	n := 0
	for _, fn := range c.P.Funcs {
		if !engine.InPackage(fn, "caching") || fn.Signature.Recv() == nil || engine.TypeKey(fn.Signature.Recv().Type()) != "caching.Cas" {
			continue
		}
		for _, s := range engine.SitesIn(fn) {
			cc := s.Common()
			if !cc.IsInvoke() || cc.Method.Name() != "Delete" || engine.TypeKey(cc.Value.Type()) != "caching/backends.CacheBackend" {
				continue
			}
			n++
			forgets := func(in ssa.Instruction) bool {
				call, ok := in.(ssa.CallInstruction)
				if !ok {
					return false
				}
				switch engine.CalleeName(call) {
				case "(*sync.Map).Delete", "(*sync.Map).Clear", "(*sync.Map).LoadAndDelete", "(*sync.Map).CompareAndDelete":
					return true
				case "(*sync.Map).Store":
					args := call.Common().Args
					if k, isK := engine.BoolConst(args[len(args)-1]); isK && !k {
						return true
					}
					if mi, ok := args[len(args)-1].(*ssa.MakeInterface); ok {
						if k, isK := engine.BoolConst(mi.X); isK && !k {
							return true
						}
					}
				}
				return false
			}
			reach, _ := nilReturnReachable(fn, engine.PathQuery{CutInstr: forgets, Shallow: true}, 0)
			c.Require(!reach, rule, "memo-invalidated-on-delete/"+c.P.FuncName(fn), "the digest is forgotten wherever it is deleted", "the CAS deletes a digest from the backend but keeps it in its 'exists' memo: the next write of the same content in this build is skipped as already stored, and the target result that is written afterwards references a blob that no longer exists", c.P.InstrPos(s))
		}
	}
	if n == 0 {
		c.OK(rule, "memo-invalidated-on-delete", "the CAS never deletes from its backend", "-")
	}
}

// R07n: every blob a record names is handed to the store. A loop that starts one upload per listed file has to
// run to the end of the list; leaving it early (a break on cancellation, a cap) and still reporting success
// produces a tree whose blobs were never stored.
func ruleUploadLoopComplete(c *Check, rule string) {
	c.Rule(rule, "in the output handlers every loop that starts uploads (a CAS write, directly or in a goroutine it spawns) is a full range that is never left early on a path to a successful return", 1)
	casWrite := c.P.Func("caching", "Cas", "Write")
	n := 0
	for _, fn := range c.P.Funcs {
		if !engine.InPackage(fn, "output/handlers") || fn.Parent() != nil {
			continue
		}
		for _, lp := range engine.LoopsOf(fn) {
			starts := false
			for b := range lp.Body {
				for _, in := range b.Instrs {
					cs, ok := in.(ssa.CallInstruction)
					if !ok {
						continue
					}
					targets := c.G.CalleesOf(cs)
					if _, isGo := in.(*ssa.Go); isGo || len(spawnedAt(c, cs)) > 0 {
						targets = append(targets, spawnedAt(c, cs)...)
						for f := range c.G.ReachableFuncs(targets, func(g *ssa.Function) bool { return !engine.InPackage(g, "output/handlers") && g != casWrite }) {
							if f == casWrite {
								starts = true
							}
						}
					} else {
						for _, f := range targets {
							if f == casWrite {
								starts = true
							}
						}
					}
				}
			}
			if !starts {
				continue
			}
			n++
			key := "upload-loop-complete/" + c.P.FuncName(fn)
			if !lp.IsFullRange() {
				c.Bad(rule, key, "the loop that starts the uploads is not a full range over the list of files", c.P.Pos(fn.Pos()))
				continue
			}
			why := lp.EarlyExitReaches(successReturn)
			c.Require(why == "", rule, key, "the loop runs over every listed file; leaving it early leads to an error", "the loop that starts the uploads can be left before the end of the list ("+why+") and the function still returns success: the record is stored although some of the blobs it names were never uploaded — an interrupted or throttled build leaves a cache entry that cannot be restored", c.P.Pos(fn.Pos()))
		}
	}
	if n == 0 {
		c.Unknown(rule, "upload-loop-complete", "no loop that starts CAS writes found in the output handlers", "-")
	}
}

// shareOrigin: the two values have the same single definition (a value that travelled through a result object
// of a helper resolves to what the helper stored there).
func shareOrigin(a, b ssa.Value) bool {
	oa, ob := engine.Origins(a), engine.Origins(b)
	if len(oa) != 1 || len(ob) != 1 || oa[0] == nil {
		return false
	}
	if _, isConst := oa[0].(*ssa.Const); isConst {
		return false
	}
	return oa[0] == ob[0]
}
