package rules

import (
	"fmt"
	"go/types"
	"sort"
	"strings"

	"golang.org/x/tools/go/ssa"

	"grogverif/engine"
)

// Round 7: rules that the seventh round of independently seeded changes led to (and rules written for one
// property that a second property relies on as well).

// contentReaders: first-party functions that (transitively, through static and resolved calls) open a file
// for reading — the functions whose result depends on what currently sits in the workspace.
func contentReaders(c *Check) map[*ssa.Function]bool {
	direct := map[*ssa.Function]bool{}
	for _, s := range c.G.CallsTo("os.Open", "os.ReadFile", "os.OpenFile") {
		direct[engine.TopFunc(s.Parent())] = true
		direct[s.Parent()] = true
	}
	out := map[*ssa.Function]bool{}
	for _, fn := range c.P.Funcs {
		if len(fn.Blocks) == 0 {
			continue
		}
		for f := range c.G.ReachableFuncs([]*ssa.Function{fn}, nil) {
			if direct[f] {
				out[fn] = true
				break
			}
		}
	}
	return out
}

// keyContentHashers: the functions of internal/hashing that read file contents (HashFile, HashFiles and
// whatever they are split into).
func keyContentHashers(c *Check) map[*ssa.Function]bool {
	out := map[*ssa.Function]bool{}
	for _, s := range c.G.CallsTo("os.Open", "os.ReadFile", "os.OpenFile") {
		if engine.InPackage(s.Parent(), "hashing") {
			out[engine.TopFunc(s.Parent())] = true
		}
	}
	return out
}

// R02q: input contents are read for the key only inside the walk callback. The walker releases a node when
// its dependencies have completed; an input that a dependency generates has its final content only then.
// Anything that hashes input contents earlier (a prefetch started before the walk, a hash computed while
// the graph is analysed) computes the key of a state that the target never ran in.
func ruleKeyContentReadInsideCallback(c *Check, rule string) {
	c.Rule(rule, "from the build's entry point (Executor.Execute) the functions of internal/hashing that read input file contents are reachable only through the walk callback (which the walker invokes after the node's dependencies completed): no goroutine or call outside the callback hashes input contents", 1)
	root := anchor(c, rule, "execution", "Executor", "Execute")
	w := findWalker(c, rule)
	if root == nil || w == nil {
		return
	}
	cbs := map[*ssa.Function]bool{}
	for _, f := range c.G.CalleesOf(w.CallbackCall) {
		cbs[f] = true
	}
	// what the callback hands to the worker pool runs on its behalf: the pool's workers invoke the submitted
	// task through a function value; that edge belongs to whoever submitted the task, not to Execute
	poolDynamic := func(fn *ssa.Function, s ssa.CallInstruction) bool {
		return engine.InPackage(fn, "worker") && s.Common().StaticCallee() == nil && !s.Common().IsInvoke()
	}
	readers := keyContentHashers(c)
	if len(readers) == 0 {
		c.Unknown(rule, "anchor/content-hashers", "anchor-unresolved: no function of internal/hashing opens a file", "-")
		return
	}
	// reachability with the callback removed; remember one parent per function for the witness
	parent := map[*ssa.Function]*ssa.Function{root: nil}
	work := []*ssa.Function{root}
	for len(work) > 0 {
		fn := work[0]
		work = work[1:]
		if cbs[fn] {
			continue
		}
		for _, s := range engine.SitesIn(fn) {
			if poolDynamic(fn, s) {
				continue
			}
			for _, cal := range c.G.CalleesOf(s) {
				if _, seen := parent[cal]; !seen {
					parent[cal] = fn
					work = append(work, cal)
				}
			}
		}
	}
	var rs []*ssa.Function
	for r := range readers {
		rs = append(rs, r)
	}
	sort.Slice(rs, func(i, j int) bool { return c.P.FuncName(rs[i]) < c.P.FuncName(rs[j]) })
	for _, r := range rs {
		_, reached := parent[r]
		path := ""
		if reached {
			var chain []string
			for f := r; f != nil; f = parent[f] {
				chain = append([]string{c.P.FuncName(f)}, chain...)
			}
			path = strings.Join(chain, " -> ")
		}
		c.Require(!reached, rule, "key-content-read-inside-callback/"+c.P.FuncName(r), "reachable from the build only through the walk callback", "input file contents are hashed outside the walk callback ("+path+"): a target's inputs are read before its dependencies have completed, so an input that a dependency (re)generates enters the key with its old content — the result is stored under a key of a state the target never ran in, and the next no-op build executes it again (or restores a stale result)", c.P.Pos(r.Pos()))
	}
}

// R02r: no memo of workspace file contents on the build path. The content of a workspace file is not a
// function of anything a table key can name (path, size and time stamps included): dependencies rewrite
// inputs during a build and users between builds.
func ruleNoContentMemo(c *Check, rule string, pkgs ...string) {
	c.Rule(rule, "no function of "+strings.Join(pkgs, ", ")+" remembers, in a table that outlives the call (struct field, package variable, sync.Map), a value computed by reading workspace files: a digest is recomputed from the bytes each time it is needed", 0)
	inScope := func(fn *ssa.Function) bool {
		for _, p := range pkgs {
			if engine.InPackage(fn, p) {
				return true
			}
		}
		return false
	}
	readers := contentReaders(c)
	n := 0
	for _, m := range findMemoSites(c, inScope) {
		if m.local {
			continue
		}
		// SSA data dependence of the stored value on the result of a call that reads files
		seen := map[ssa.Value]bool{}
		var via ssa.CallInstruction
		var walk func(v ssa.Value, d int)
		walk = func(v ssa.Value, d int) {
			if v == nil || seen[v] || d > 16 || via != nil {
				return
			}
			seen[v] = true
			switch x := v.(type) {
			case *ssa.Call:
				for _, cal := range c.G.CalleesOf(x) {
					if readers[cal] {
						via = x
						return
					}
				}
				for _, a := range x.Call.Args {
					walk(a, d+1)
				}
			case *ssa.Extract:
				walk(x.Tuple, d+1)
			case *ssa.Phi:
				for _, e := range x.Edges {
					walk(e, d+1)
				}
			case *ssa.BinOp:
				walk(x.X, d+1)
				walk(x.Y, d+1)
			case *ssa.MakeInterface:
				walk(x.X, d+1)
			case *ssa.ChangeType:
				walk(x.X, d+1)
			case *ssa.Convert:
				walk(x.X, d+1)
			case *ssa.Slice:
				walk(x.X, d+1)
			case *ssa.UnOp:
				for _, o := range engine.Origins(x) {
					if o != nil && o != ssa.Value(x) {
						walk(o, d+1)
					}
				}
				if al, ok := x.X.(*ssa.Alloc); ok {
					// a struct built in place: its fields
					for _, r := range *al.Referrers() {
						if fa, ok := r.(*ssa.FieldAddr); ok {
							for _, u := range *fa.Referrers() {
								if st, ok := u.(*ssa.Store); ok && st.Addr == ssa.Value(fa) {
									walk(st.Val, d+1)
								}
							}
						}
					}
				}
			case *ssa.Alloc:
				for _, r := range *x.Referrers() {
					if fa, ok := r.(*ssa.FieldAddr); ok {
						for _, u := range *fa.Referrers() {
							if st, ok := u.(*ssa.Store); ok && st.Addr == ssa.Value(fa) {
								walk(st.Val, d+1)
							}
						}
					}
				}
			}
		}
		walk(m.val, 0)
		n++
		tname := strings.TrimPrefix(engine.ExprKey(m.table), "var:")
		key := "no-content-memo/" + c.P.FuncName(m.fn) + "/" + tname
		if via != nil {
			c.Bad(rule, key, "the value remembered in "+tname+" is computed by "+calleeLabel(c, via)+", which reads workspace files: what is served on the next lookup is the content the file had then — a dependency that regenerates the file during the build, or an edit that keeps size and time stamp, is not seen, and the target's key (or an output digest) describes bytes that are no longer there", c.P.InstrPos(m.at))
		} else {
			c.OK(rule, key, "the remembered value is not computed from file contents", c.P.InstrPos(m.at))
		}
	}
	if n == 0 {
		c.OK(rule, "no-content-memo/none", "no long-lived memo table in "+strings.Join(pkgs, ", "), "-")
	}
}

func calleeLabel(c *Check, s ssa.CallInstruction) string {
	if n := engine.CalleeName(s); n != "" {
		return strings.ReplaceAll(n, "grog/internal/", "")
	}
	for _, f := range c.G.CalleesOf(s) {
		return c.P.FuncName(f)
	}
	return "a call"
}

// sortsParam: first-party functions that sort (in place) a slice they receive, with the parameter index.
func sortingFuncs(c *Check) map[*ssa.Function]int {
	isSort := func(n string) bool {
		switch n {
		case "sort.Strings", "sort.Slice", "sort.SliceStable", "sort.Sort", "sort.Stable", "slices.Sort", "slices.SortFunc", "slices.SortStableFunc":
			return true
		}
		return false
	}
	out := map[*ssa.Function]int{}
	for _, s := range c.G.Sites {
		if !isSort(engine.CalleeName(s)) || len(s.Common().Args) == 0 {
			continue
		}
		fn := s.Parent()
		for _, o := range engine.Origins(s.Common().Args[0]) {
			if p, ok := o.(*ssa.Parameter); ok {
				for i, q := range fn.Params {
					if q == p {
						out[fn] = i
					}
				}
			}
		}
	}
	return out
}

// R09n: content digests keep their place. A list of per-file digests is an ordered companion of the list of
// paths; sorting it (or handing it to a helper that sorts) keeps the multiset of contents and forgets which
// path has which content.
func ruleContentDigestsNotSorted(c *Check, rule string) {
	c.Rule(rule, "in internal/hashing a collection whose elements are content digests of files (results of the file-hashing functions) never reaches a sort (sort.*, slices.Sort*, or a first-party function that sorts its argument): the association of a path with its content survives into the key", 0)
	readers := keyContentHashers(c)
	sorters := sortingFuncs(c)
	// values derived from a file digest, through locals, closures, containers and parameters — not through
	// struct fields (the output hash kept in Target.OutputHash is a different, path-carrying record)
	var srcs []Node
	for _, s := range c.G.Sites {
		if !engine.InPackage(s.Parent(), "hashing") {
			continue // digests of outputs are combined as path-carrying records elsewhere (R09a)
		}
		for _, cal := range c.G.CalleesOf(s) {
			if readers[cal] {
				if v := s.Value(); v != nil {
					srcs = append(srcs, Node(v))
				}
			}
		}
	}
	fwd := c.G.Forward(srcs, func(e *engine.Edge) bool {
		if _, isField := e.To.(engine.FieldKey); isField {
			return false
		}
		if _, isField := e.From.(engine.FieldKey); isField {
			return false
		}
		if e.Kind == engine.EField || isContentEdge(e) {
			return false
		}
		if call, ok := e.Via.(ssa.CallInstruction); ok && (e.Kind == engine.EExtArg || e.Kind == engine.EExtWrite) && isLogOrErrCall(engine.CalleeName(call)) {
			return false
		}
		return true
	})
	n := 0
	for _, s := range c.G.Sites {
		if !engine.InPackage(s.Parent(), "hashing") {
			continue
		}
		idx := -1
		switch engine.CalleeName(s) {
		case "sort.Strings", "sort.Slice", "sort.SliceStable", "sort.Sort", "sort.Stable", "slices.Sort", "slices.SortFunc", "slices.SortStableFunc":
			idx = 0
		default:
			for _, cal := range c.G.CalleesOf(s) {
				if i, ok := sorters[cal]; ok {
					idx = i
					if cal.Signature.Recv() != nil {
						idx = i // Params include the receiver; Args of a static method call do too
					}
				}
			}
		}
		if idx < 0 || idx >= len(s.Common().Args) {
			continue
		}
		arg := s.Common().Args[idx]
		if _, isSlice := arg.Type().Underlying().(*types.Slice); !isSlice {
			continue
		}
		n++
		key := "content-digests-not-sorted/" + siteKey(c, s)
		c.Require(!fwd.Has(arg), rule, key, "the sorted collection does not hold file content digests", "a collection of per-file content digests is sorted (here or in the helper called here) before it enters the key: the key then depends on the multiset of file contents only — two inputs that exchange their contents, or a file renamed onto another's content, leave it unchanged, and a stale result is served", c.P.InstrPos(s))
	}
	if n == 0 {
		c.OK(rule, "content-digests-not-sorted/none", "no sort of a slice in internal/hashing", "-")
	}
}

// R12o (also filed as R17j): pattern membership is decided by the pattern algebra's own matcher.
func rulePatternsDecidedByMatcher(c *Check, rule string) {
	c.Rule(rule, "a Selector filter that consults the selector's patterns answers true only past a true answer of label.TargetPattern.Matches for one of them, or past the test that there are no patterns: no index, prefix table or shortcut of the selector decides membership in a pattern by itself", 2)
	matches := c.P.Func("label", "TargetPattern", "Matches")
	if matches == nil {
		c.Unknown(rule, "anchor/label.TargetPattern.Matches", "anchor-unresolved", "-")
		return
	}
	fPat := fk("selection.Selector", "Patterns")
	predSeen := map[*ssa.Function]bool{}
	var cutRef func(b *ssa.BasicBlock, succ int) bool
	var matchTrue func(a engine.Atom) bool
	matchTrue = func(a engine.Atom) bool {
		if a.Op != "true" {
			return false
		}
		call, ok := a.V.(*ssa.Call)
		if !ok {
			return false
		}
		for _, cal := range c.G.CalleesOf(call) {
			if cal == matches {
				return true
			}
		}
		// slices.ContainsFunc(patterns, func(p) bool { return p.Matches(l) }): true only when the predicate was
		if n := engine.CalleeName(call); (n == "slices.ContainsFunc" || n == "slices.IndexFunc") && len(call.Call.Args) == 2 && a.Op == "true" {
			var pred *ssa.Function
			switch f := call.Call.Args[1].(type) {
			case *ssa.MakeClosure:
				pred, _ = f.Fn.(*ssa.Function)
			case *ssa.Function:
				pred = f
			}
			if pred != nil && len(pred.Blocks) > 0 && !predSeen[pred] {
				predSeen[pred] = true
				may := engine.MayReturnBool(pred, 0, true, engine.PathQuery{CutEdge: cutRef})
				delete(predSeen, pred)
				return !may
			}
		}
		return false
	}
	noPatterns := func(a engine.Atom) bool {
		if a.Op != "eq" && a.Op != "le" {
			return false
		}
		for _, pair := range [][2]ssa.Value{{a.V, a.Other}, {a.Other, a.V}} {
			if arg, ok := lenArg(pair[0]); ok && isZeroInt(pair[1]) && isFieldVal(arg, fPat) {
				return true
			}
		}
		return false
	}
	cut := engine.CutEdgesWhere(func(a engine.Atom) bool { return matchTrue(a) || noPatterns(a) })
	cutRef = cut
	n := 0
	for _, fn := range c.P.Funcs {
		if !engine.InPackage(fn, "selection") || fn.Parent() != nil || fn.Signature.Recv() == nil || engine.TypeKey(fn.Signature.Recv().Type()) != "selection.Selector" {
			continue
		}
		res := fn.Signature.Results()
		if res.Len() != 1 {
			continue
		}
		if bt, ok := res.At(0).Type().Underlying().(*types.Basic); !ok || bt.Kind() != types.Bool {
			continue
		}
		if !readsFieldDeep(c, fn, fPat) {
			continue
		}
		// the filter proper: it takes a node or a target (helpers that take a label are reached through it)
		takesNode := false
		for i := 0; i < fn.Signature.Params().Len(); i++ {
			k := engine.TypeKey(fn.Signature.Params().At(i).Type())
			if k == "model.BuildNode" || k == "model.Target" {
				takesNode = true
			}
		}
		if !takesNode {
			continue
		}
		n++
		may := engine.MayReturnBool(fn, 0, true, engine.PathQuery{CutEdge: cut})
		c.Require(!may, rule, "patterns-decided-by-matcher/"+c.P.FuncName(fn), "every path that answers true crosses a true answer of TargetPattern.Matches or the no-patterns test", "the filter can accept a node without label.TargetPattern.Matches having answered true for one of the selector's patterns (and without the pattern list being empty): some other table or shortcut decides membership, and whatever it leaves out of the pattern — the name part of `//p/...:x`, the component boundary — is ignored, so targets outside the patterns are selected, built and listed", c.P.Pos(fn.Pos()))
	}
	if n == 0 {
		c.Unknown(rule, "patterns-decided-by-matcher", "anchor-unresolved: no Selector filter over nodes consults Selector.Patterns", "-")
	}
}

// R14n: the command text is delivered to the shell as an argument, not on a stream the command can read.
// A script fed to the shell on standard input shares that stream with the user's command: a command that
// reads stdin swallows the rest of the wrapper — the lines that carry its exit status to grog.
func ruleCommandNotOnStdin(c *Check, rule string) {
	c.Rule(rule, "nothing derived from the target's command (or an output check's command) is stored into the Stdin of the child process: the wrapper script reaches the shell on argv, where the user's command cannot consume it", 1)
	ex := findExec(c, rule)
	if ex == nil {
		return
	}
	srcs := []Node{fk("model.Target", "Command"), fk("model.OutputCheck", "Command")}
	fwd := c.G.Forward(srcs, func(e *engine.Edge) bool {
		if isContentEdge(e) {
			return false
		}
		if call, ok := e.Via.(ssa.CallInstruction); ok && (e.Kind == engine.EExtArg || e.Kind == engine.EExtWrite) && isLogOrErrCall(engine.CalleeName(call)) {
			return false
		}
		return true
	})
	n, bad := 0, 0
	for _, fn := range c.P.Funcs {
		if !engine.InPackage(fn, "execution") {
			continue
		}
		for _, b := range fn.Blocks {
			for _, in := range b.Instrs {
				st, ok := in.(*ssa.Store)
				if !ok {
					continue
				}
				fa, ok := st.Addr.(*ssa.FieldAddr)
				if !ok {
					continue
				}
				k := engine.FieldKeyOf(fa.X.Type(), fa.Field)
				if !strings.HasSuffix(k.T, "exec.Cmd") || k.F != "Stdin" {
					continue
				}
				n++
				// the value-flow graph is field-based: a command that travels inside a struct handed to a
				// template is followed locally instead — through the operands and call arguments of this
				// function back to a parameter that carries the command text
				derived := fwd.Has(st.Val)
				seen := map[ssa.Value]bool{}
				var walk func(v ssa.Value, d int)
				walk = func(v ssa.Value, d int) {
					if v == nil || seen[v] || d > 14 || derived {
						return
					}
					seen[v] = true
					if fwd.Has(v) {
						derived = true
						return
					}
					switch x := v.(type) {
					case *ssa.Call:
						for _, a := range x.Call.Args {
							walk(a, d+1)
						}
					case *ssa.Extract:
						walk(x.Tuple, d+1)
					case *ssa.MakeInterface:
						walk(x.X, d+1)
					case *ssa.ChangeType:
						walk(x.X, d+1)
					case *ssa.Convert:
						walk(x.X, d+1)
					case *ssa.BinOp:
						walk(x.X, d+1)
						walk(x.Y, d+1)
					case *ssa.Phi:
						for _, e := range x.Edges {
							walk(e, d+1)
						}
					case *ssa.UnOp:
						for _, o := range engine.Origins(x) {
							if o != nil && o != ssa.Value(x) {
								walk(o, d+1)
							}
						}
					}
				}
				walk(st.Val, 0)
				if derived {
					bad++
					c.Bad(rule, "command-not-on-stdin/"+c.P.FuncName(fn), "the child's standard input is a stream derived from the target's command text: the shell reads the wrapper script from the very stream the user's command inherits, so a command that reads stdin (ssh, docker run -i, cat) consumes the rest of the script and the lines that report its exit status never run — a failing command or check is recorded as a success and cached", c.P.InstrPos(st))
				}
			}
		}
	}
	if bad == 0 {
		c.OK(rule, "command-not-on-stdin/"+c.P.FuncName(ex.RunCommand), fmt.Sprintf("%d assignments of a child's Stdin, none derived from the command text", n), c.P.Pos(ex.RunCommand.Pos()))
	}
}

// R16s: what a Starlark module evaluation produced is remembered for one BUILD file only. The builtins a
// module calls at its top level (target, alias, environment) register into the package being loaded; a
// table of evaluated modules that is shared between package loads runs those statements for the first
// package only.
func ruleModuleCachePerLoad(c *Check, rule string) {
	c.Rule(rule, "every table in internal/loading that remembers the globals of an evaluated Starlark module is allocated inside the call tree of the loader's Load method (one table per BUILD file), never in a constructor or a package variable shared by all package loads", 1)
	load := c.P.Func("loading", "StarlarkLoader", "Load")
	if load == nil {
		c.Unknown(rule, "anchor/loading.StarlarkLoader.Load", "anchor-unresolved", "-")
		return
	}
	inLoad := c.G.ReachableFuncs([]*ssa.Function{load}, nil)
	isDict := func(t types.Type) bool { return strings.HasSuffix(t.String(), "go.starlark.net/starlark.StringDict") }
	n := 0
	for _, fn := range c.P.Funcs {
		if !engine.InPackage(fn, "loading") {
			continue
		}
		for _, b := range fn.Blocks {
			for _, in := range b.Instrs {
				var table ssa.Value
				switch x := in.(type) {
				case *ssa.MapUpdate:
					if isDict(x.Value.Type()) {
						table = x.Map
					}
				case *ssa.Call:
					nme := engine.CalleeName(x)
					if (nme == "(*sync.Map).Store" || nme == "(*sync.Map).LoadOrStore") && len(x.Call.Args) == 3 {
						if mi, ok := x.Call.Args[2].(*ssa.MakeInterface); ok && isDict(mi.X.Type()) {
							table = x.Call.Args[0]
						}
					}
				}
				if table == nil {
					continue
				}
				n++
				key := "module-table-per-load/" + c.P.FuncName(fn)
				// where is the table allocated? follow the map value to its MakeMap sites through the field it
				// is kept in
				var allocs []ssa.Instruction
				bad := ""
				for _, o := range engine.Origins(table) {
					switch t := o.(type) {
					case *ssa.MakeMap:
						allocs = append(allocs, t)
					case *ssa.Global:
						bad = "a package variable"
					case *ssa.UnOp:
						if fa, ok := t.X.(*ssa.FieldAddr); ok {
							fkey := engine.FieldKeyOf(fa.X.Type(), fa.Field)
							for _, st := range storesToField(c, fkey) {
								for _, so := range engine.Origins(st.Val) {
									if mm, ok := so.(*ssa.MakeMap); ok {
										allocs = append(allocs, mm)
									}
								}
							}
						} else if _, isG := t.X.(*ssa.Global); isG {
							bad = "a package variable"
						}
					case *ssa.FieldAddr:
						// sync.Map embedded by value in a struct: the struct's allocation decides
						if al, ok := t.X.(*ssa.Alloc); ok {
							allocs = append(allocs, al)
						} else {
							st := engine.TypeKey(t.X.Type())
							for _, g := range c.P.Funcs {
								if !engine.InPackage(g, "loading") {
									continue
								}
								for _, gb := range g.Blocks {
									for _, gi := range gb.Instrs {
										if al, ok := gi.(*ssa.Alloc); ok && engine.TypeKey(al.Type()) == st {
											allocs = append(allocs, al)
										}
									}
								}
							}
						}
					}
				}
				if bad == "" {
					for _, a := range allocs {
						host := engine.TopFunc(a.Parent())
						if !inLoad[host] && !inLoad[a.Parent()] {
							bad = "allocated in " + c.P.FuncName(host) + ", outside the Load call tree"
						} else {
							// reachable from Load, but also from elsewhere (a constructor): shared
							for _, cf := range c.G.CallerFuncs(host) {
								if host != load && !inLoad[engine.TopFunc(cf)] {
									bad = "allocated in " + c.P.FuncName(host) + ", which " + c.P.FuncName(engine.TopFunc(cf)) + " calls outside the Load call tree"
								}
							}
						}
					}
				}
				if bad == "" && len(allocs) == 0 {
					c.Unknown(rule, key, "the allocation of the table that remembers module globals was not found", c.P.InstrPos(in))
					continue
				}
				c.Require(bad == "", rule, key, "the table of evaluated modules is allocated per Load call", "the table that remembers the globals of evaluated Starlark modules is "+bad+": it is shared by every BUILD file of the run, so the top-level statements of a module (target(), alias() calls) execute for the first package that loads it only — the same package described in another format keeps those targets, and which package gets them depends on the directory walk", c.P.InstrPos(in))
			}
		}
	}
	if n == 0 {
		c.OK(rule, "module-table-per-load/none", "no table of evaluated Starlark modules", "-")
	}
}

// R18r: no descriptor is opened that the target shells would inherit. os.Open/OpenFile/Create set O_CLOEXEC;
// a raw syscall.Open does not, and a descriptor inherited by a target's shell (and by whatever that shell
// leaves running after an interrupt) keeps a lock held through it — flock — or a pipe's write end open after
// grog has exited.
func ruleNoInheritableDescriptors(c *Check, rule string) {
	c.Rule(rule, "every raw open in first-party code (syscall.Open/Openat, unix.Open/Openat) passes O_CLOEXEC in its flags, and no first-party code clears close-on-exec or fills exec.Cmd.ExtraFiles with a lock or cache file: target shells inherit no descriptor of grog's", 0)
	n := 0
	for _, s := range c.G.CallsTo("syscall.Open", "syscall.Openat", "golang.org/x/sys/unix.Open", "golang.org/x/sys/unix.Openat") {
		args := s.Common().Args
		idx := 1
		if strings.HasSuffix(engine.CalleeName(s), "Openat") {
			idx = 2
		}
		if idx >= len(args) {
			continue
		}
		n++
		ok := false
		var walk func(v ssa.Value, d int) bool
		walk = func(v ssa.Value, d int) bool {
			if v == nil || d > 8 {
				return false
			}
			switch x := v.(type) {
			case *ssa.Const:
				if x.Value != nil {
					if iv, exact := constantInt64(x); exact && iv&0x80000 != 0 { // O_CLOEXEC on linux
						return true
					}
				}
			case *ssa.BinOp:
				return walk(x.X, d+1) || walk(x.Y, d+1)
			case *ssa.Convert:
				return walk(x.X, d+1)
			}
			return false
		}
		ok = walk(args[idx], 0)
		c.Require(ok, rule, "raw-open-cloexec/"+siteKey(c, s), "the raw open passes O_CLOEXEC", "a file is opened with a raw system call without O_CLOEXEC: the descriptor is inherited by every target shell and by the processes those leave behind — a lock held through it (flock) stays held after grog was interrupted and exited, and the next build cannot acquire the workspace lock until the last orphan ends", c.P.InstrPos(s))
	}
	if n == 0 {
		c.OK(rule, "raw-open-cloexec/none", "no raw open system call in first-party code (os.Open* sets O_CLOEXEC)", "-")
	}
}

func constantInt64(k *ssa.Const) (int64, bool) {
	if k.Value == nil {
		return 0, false
	}
	defer func() { _ = recover() }()
	return k.Int64(), true
}

// R20n: a traversal with one shared visited set has one result — the set reachable from its start. What it
// has accumulated "since it entered node n" is not the closure of n: nodes that an earlier sibling already
// visited are missing from it. Remembering such a suffix of the accumulator as the closure of n serves a
// wrong (too small) answer to the next query about n.
func ruleNoMemoOfPartialTraversal(c *Check, rule string, pkgs ...string) {
	c.Rule(rule, "no function of "+strings.Join(pkgs, ", ")+" stores into a table it consults a sub-range `acc[k:]` of a slice it also appends to (the part of a shared-visited traversal's accumulator gathered below one node): only complete results are remembered", 0)
	n := 0
	for _, fn := range c.P.Funcs {
		ok := false
		for _, p := range pkgs {
			if engine.InPackage(fn, p) {
				ok = true
			}
		}
		if !ok {
			continue
		}
		// slices this function (or the closure) appends to
		appended := map[string]bool{}
		for _, s := range engine.SitesIn(fn) {
			if b, isB := s.Common().Value.(*ssa.Builtin); isB && b.Name() == "append" && len(s.Common().Args) > 0 {
				for _, o := range engine.Origins(s.Common().Args[0]) {
					if o != nil {
						appended[engine.ExprKey(o)] = true
					}
				}
				appended[engine.ExprKey(s.Common().Args[0])] = true
			}
		}
		for _, b := range fn.Blocks {
			for _, in := range b.Instrs {
				mu, isMU := in.(*ssa.MapUpdate)
				if !isMU {
					continue
				}
				// the table is consulted in this function or its parent (a memo, not an output)
				consulted := false
				for _, host := range []*ssa.Function{fn, fn.Parent()} {
					if host == nil {
						continue
					}
					for _, hb := range host.Blocks {
						for _, hi := range hb.Instrs {
							if lk, isLk := hi.(*ssa.Lookup); isLk && (sameVar(lk.X, mu.Map) || engine.ExprKey(lk.X) == engine.ExprKey(mu.Map)) {
								consulted = true
							}
						}
					}
				}
				if !consulted {
					continue
				}
				seen := map[ssa.Value]bool{}
				var partial ssa.Instruction
				var walk func(v ssa.Value, d int)
				walk = func(v ssa.Value, d int) {
					if v == nil || seen[v] || d > 10 || partial != nil {
						return
					}
					seen[v] = true
					switch x := v.(type) {
					case *ssa.Slice:
						if x.Low != nil {
							if k, isK := x.Low.(*ssa.Const); !isK || k.Int64() != 0 {
								for _, o := range append(engine.Origins(x.X), x.X) {
									if o != nil && appended[engine.ExprKey(o)] {
										partial = x
										return
									}
								}
							}
						}
						walk(x.X, d+1)
					case *ssa.Call:
						for _, a := range x.Call.Args {
							walk(a, d+1)
						}
					case *ssa.Phi:
						for _, e := range x.Edges {
							walk(e, d+1)
						}
					case *ssa.ChangeType:
						walk(x.X, d+1)
					case *ssa.MakeInterface:
						walk(x.X, d+1)
					case *ssa.UnOp:
						for _, o := range engine.Origins(x) {
							if o != nil && o != ssa.Value(x) {
								walk(o, d+1)
							}
						}
					}
				}
				walk(mu.Value, 0)
				if _, isSlice := mu.Value.Type().Underlying().(*types.Slice); !isSlice {
					continue
				}
				n++
				key := "no-memo-of-partial-traversal/" + c.P.FuncName(fn)
				if partial != nil {
					c.Bad(rule, key, "the value remembered in the table is a sub-range of a slice this traversal is still appending to — what was gathered since some node was entered. With one visited set for the whole traversal that range lacks every node an earlier branch had already visited, so it is not that node's closure: a later query served from the table prints too few labels (deps/rdeps stop being inverses, a failure is propagated to too few dependants)", c.P.InstrPos(mu))
				} else {
					c.OK(rule, key, "the remembered slice is not a sub-range of the traversal's accumulator", c.P.InstrPos(mu))
				}
			}
		}
	}
	if n == 0 {
		c.OK(rule, "no-memo-of-partial-traversal/none", "no function remembers a slice in a table it consults", "-")
	}
}

// R06t (D29): a restore never goes through a symlink that sits at a file output's path. Hashing the path
// follows the link (and compares the file it points to), creating it follows the link (and overwrites that
// file): the restore has to look at the path itself first and clear whatever is not a regular file.
func ruleFileRestoreLooksAtThePathItself(c *Check, rule string) {
	c.Rule(rule, "in the restore of a file output, hashing the local path and creating it are reachable only past a call that inspects the path itself (os.Lstat) and removes what it finds when that is not a regular file: a symlink (or directory) at the output path is replaced, never read or written through", 2)
	impls, _ := handlerFuncs(c, "Load")
	hashers := hashComposing(c)
	n := 0
	for _, fn := range impls {
		fname := c.P.FuncName(fn)
		if !strings.Contains(fname, "FileOutputHandler") {
			continue
		}
		region := regionOf(c, fn)
		lst := map[*ssa.Function]bool{}
		for _, s := range c.G.CallsTo("os.Lstat") {
			lst[s.Parent()] = true
		}
		rem := map[*ssa.Function]bool{}
		for _, s := range c.G.CallsTo("os.Remove", "os.RemoveAll") {
			rem[s.Parent()] = true
		}
		// the inspection: an os.Lstat in a function that also removes, or a call that reaches both
		inspect := map[ssa.Instruction]bool{}
		for f := range region {
			for _, s := range engine.SitesIn(f) {
				if engine.CalleeName(s) == "os.Lstat" && rem[f] {
					inspect[s] = true
					continue
				}
				if len(sitesReaching1(c, s, lst)) > 0 && len(sitesReaching1(c, s, rem)) > 0 {
					if cs, ok := s.(*ssa.Call); !ok || cs.Call.StaticCallee() == nil || !region[cs.Call.StaticCallee()] || cs.Call.StaticCallee() != fn {
						inspect[s] = true
					}
				}
			}
		}
		isInspect := func(in ssa.Instruction) bool { return inspect[in] }
		var fns []*ssa.Function
		for f := range region {
			fns = append(fns, f)
		}
		sort.Slice(fns, func(i, j int) bool { return c.P.FuncName(fns[i]) < c.P.FuncName(fns[j]) })
		for _, f := range fns {
			for _, s := range engine.SitesIn(f) {
				what := ""
				switch engine.CalleeName(s) {
				case "os.Create", "os.OpenFile", "os.WriteFile":
					what = "create"
				default:
					if calleeInSet(c, s, hashers) {
						if cs, ok := s.(*ssa.Call); ok && cs.Call.StaticCallee() != nil && region[cs.Call.StaticCallee()] {
							continue // a region helper that hashes: its own site is judged
						}
						what = "local-hash"
					}
				}
				if what == "" {
					continue
				}
				n++
				// a call that contains an inspection is not itself a cut for sites inside it: cut only the
				// inspections proper (an Lstat next to a removal) while the search descends
				reach, _ := engine.PathExists(fn, nil, engine.IsInstr(s), engine.PathQuery{CutInstr: isInspect, DeepTo: true})
				c.Require(!reach, rule, "path-inspected-before-"+what+"/"+fname, "reachable only past the Lstat-and-clear of the output path", "the restore of a file output can "+map[string]string{"create": "create", "local-hash": "hash"}[what]+" the output path without having looked at the path itself (os.Lstat) and cleared a non-regular entry: when a symlink sits there the restore compares and overwrites the file the link points to — another file of the workspace is clobbered with the cached bytes and the output stays a symlink", c.P.InstrPos(s))
			}
		}
	}
	if n == 0 {
		c.Unknown(rule, "path-inspected", "anchor-unresolved: the file output handler's Load neither hashes nor creates a path", "-")
	}
}
