package rules

import (
	"fmt"
	"go/token"
	"go/types"
	"sort"
	"strings"

	"golang.org/x/tools/go/ssa"

	"grogverif/engine"
)

type (
	Check = engine.Check
	Node  = engine.Node
)

// anchor resolves a first-party function; an unresolved anchor is an undecided
// obligation (the rule can no longer see its subject), never a silent pass.
func anchor(c *Check, rule, pkgRel, recv, name string) *ssa.Function {
	fn := c.P.Func(pkgRel, recv, name)
	if fn == nil || fn.Blocks == nil {
		c.Unknown(rule, fmt.Sprintf("anchor/%s.%s.%s", pkgRel, recv, name), "anchor-unresolved: function not found in the current tree", "-")
		return nil
	}
	return fn
}

// contentCalls are external calls whose result is the *content or metadata*
// behind a path argument, not the path: a path flowing in does not make the
// result location-dependent.
var contentCalls = map[string]bool{
	"os.Open": true, "os.OpenFile": true, "os.ReadFile": true, "os.ReadDir": true,
	"os.Stat": true, "os.Lstat": true, "os.Readlink": true, "os.Create": true,
	"os.DirFS": true, "os.CreateTemp": true, "os.MkdirTemp": true,
}

func isContentEdge(e *engine.Edge) bool {
	if e.Kind != engine.EExtArg && e.Kind != engine.EExtWrite {
		return false
	}
	c, ok := e.Via.(ssa.CallInstruction)
	return ok && contentCalls[engine.CalleeName(c)]
}

// noContent is an edge filter that does not cross path->content calls.
func noContent(e *engine.Edge) bool { return !isContentEdge(e) }

// isErrorEdge: flows into error values / log calls are never key material.
func isLogOrErrCall(name string) bool {
	return strings.HasPrefix(name, "fmt.Errorf") || strings.HasPrefix(name, "errors.") ||
		strings.Contains(name, "zap.SugaredLogger") || strings.Contains(name, "console.Logger")
}

// hasherType returns the first-party hashing.Hasher interface.
func hasherType(c *Check) *types.Named { return c.P.Type("hashing", "Hasher") }

// isHasherValue: the static type of v (through interface conversions) is hashing.Hasher
// or one of its first-party implementers.
func isHasherValue(c *Check, v ssa.Value) bool {
	h := hasherType(c)
	if h == nil {
		return false
	}
	iface := h.Underlying().(*types.Interface)
	for _, o := range append(engine.Origins(v), v) {
		if o == nil {
			continue
		}
		t := o.Type()
		if types.Identical(t, h) {
			return true
		}
		if n := engine.NamedOf(t); n != nil && n.Obj().Pkg() != nil && engine.IsFirstParty(n.Obj().Pkg().Path()) {
			if types.Implements(t, iface) || types.Implements(types.NewPointer(t), iface) {
				return true
			}
		}
	}
	return false
}

// HasherSink is a point where bytes enter a hasher.
type HasherSink struct {
	Call   ssa.CallInstruction
	Val    ssa.Value // the value whose bytes are hashed
	Hasher ssa.Value
	How    string
}

// hasherSinks lists every first-party call that feeds a hashing.Hasher:
// h.Write(b), h.WriteString(s), io.Copy(h, r), io.WriteString(h, s), fmt.Fprint*(h, ...).
func hasherSinks(c *Check) []HasherSink {
	var out []HasherSink
	for _, site := range c.G.Sites {
		cc := site.Common()
		// skip the hasher implementations themselves (they forward to the library hasher)
		if engine.InPackage(site.Parent(), "hashing") {
			if recv := site.Parent().Signature.Recv(); recv != nil {
				continue
			}
		}
		if cc.IsInvoke() {
			if (cc.Method.Name() == "Write" || cc.Method.Name() == "WriteString") && isHasherValue(c, cc.Value) && len(cc.Args) == 1 {
				out = append(out, HasherSink{site, cc.Args[0], cc.Value, cc.Method.Name()})
			}
			continue
		}
		name := engine.CalleeName(site)
		switch name {
		case "io.Copy", "io.CopyN", "io.CopyBuffer", "io.WriteString":
			if len(cc.Args) >= 2 && isHasherValue(c, cc.Args[0]) {
				out = append(out, HasherSink{site, cc.Args[1], cc.Args[0], name})
			}
		case "fmt.Fprintf", "fmt.Fprint", "fmt.Fprintln":
			if len(cc.Args) >= 2 && isHasherValue(c, cc.Args[0]) {
				for _, a := range cc.Args[1:] {
					out = append(out, HasherSink{site, a, cc.Args[0], name})
				}
			}
		}
	}
	sort.Slice(out, func(i, j int) bool {
		a, b := c.P.FuncName(out[i].Call.Parent()), c.P.FuncName(out[j].Call.Parent())
		if a != b {
			return a < b
		}
		return out[i].Call.Pos() < out[j].Call.Pos()
	})
	return out
}

// siteKey names a call site without a line number: function + callee + ordinal is added by Check.
func siteKey(c *Check, site ssa.CallInstruction) string {
	name := engine.CalleeName(site)
	if name == "" {
		name = "dynamic-call"
	}
	name = strings.ReplaceAll(name, "grog/internal/", "")
	return c.P.FuncName(site.Parent()) + "/" + name
}

// callsNamed returns the calls in fn (not nested literals) to the given callee names.
func callsNamed(fn *ssa.Function, names ...string) []ssa.CallInstruction {
	set := map[string]bool{}
	for _, n := range names {
		set[n] = true
	}
	return engine.Calls(fn, func(c ssa.CallInstruction) bool { return set[engine.CalleeName(c)] })
}

// callsToFn returns the call sites in `in` that may invoke target (directly).
func callsToFn(c *Check, in *ssa.Function, target *ssa.Function) []ssa.CallInstruction {
	return engine.Calls(in, func(s ssa.CallInstruction) bool {
		for _, f := range c.G.CalleesOf(s) {
			if f == target {
				return true
			}
		}
		return false
	})
}

// sitesReaching returns the call sites of `in` whose (transitive) first-party
// callees include any function of the set.
func sitesReaching(c *Check, in *ssa.Function, set map[*ssa.Function]bool) []ssa.CallInstruction {
	var out []ssa.CallInstruction
	for _, s := range engine.SitesIn(in) {
		callees := c.G.CalleesOf(s)
		if len(callees) == 0 {
			continue
		}
		reach := c.G.ReachableFuncs(callees, nil)
		for f := range set {
			if reach[f] {
				out = append(out, s)
				break
			}
		}
	}
	return out
}

// shareRule runs a rule written for another property in a scratch check and re-files the obligations it
// produces (optionally only some of them) under a rule id of this property: two properties that state the
// same clause are decided by the same rule, each under its own name.
func shareRule(c *Check, newID, doc string, min int, oldID string, run func(sub *Check), keep func(key string) bool) {
	c.Rule(newID, doc, min)
	sub := newSubCheck(c)
	run(sub)
	for _, o := range sub.Obls {
		if !strings.HasPrefix(o.Key, oldID+"/") || (keep != nil && !keep(o.Key)) {
			continue
		}
		refile(c, newID, strings.TrimPrefix(o.Key, oldID+"/"), o)
	}
}

func newSubCheck(c *Check) *Check { return engine.NewCheck("tmp", c.P, c.G) }

func refile(c *Check, newID, k string, o *engine.Obligation) {
	switch o.Status {
	case engine.Discharged:
		c.OK(newID, k, o.Witness, o.Pos)
	case engine.Violated:
		c.Bad(newID, k, o.Witness, o.Pos)
	default:
		c.Unknown(newID, k, o.Witness, o.Pos)
	}
}

// regionOf: root plus the functions of root's own package reachable from it through statically resolved calls
// (a function and the private helpers it was split into).
func regionOf(c *Check, root *ssa.Function) map[*ssa.Function]bool {
	out := map[*ssa.Function]bool{root: true}
	work := []*ssa.Function{root}
	for len(work) > 0 {
		f := work[len(work)-1]
		work = work[:len(work)-1]
		for _, s := range engine.SitesIn(f) {
			call, ok := s.(*ssa.Call)
			if !ok {
				continue
			}
			h := call.Call.StaticCallee()
			if h == nil || len(h.Blocks) == 0 || h.Pkg != root.Pkg || out[h] {
				continue
			}
			// exported methods of other receivers are interfaces of their own, not helpers
			if h.Signature.Recv() != nil && root.Signature.Recv() != nil && !types.Identical(h.Signature.Recv().Type(), root.Signature.Recv().Type()) {
				continue
			}
			out[h] = true
			work = append(work, h)
		}
	}
	return out
}

// regionEntrants: functions outside the region that call a region helper other than the root
// (empty when the helpers are private to the root).
func regionEntrants(c *Check, region map[*ssa.Function]bool, root *ssa.Function) []*ssa.Function {
	var out []*ssa.Function
	for f := range region {
		if f == root {
			continue
		}
		for _, cf := range c.G.CallerFuncs(f) {
			if !region[engine.TopFunc(cf)] && !region[cf] {
				out = append(out, cf)
			}
		}
	}
	sort.Slice(out, func(i, j int) bool { return c.P.FuncName(out[i]) < c.P.FuncName(out[j]) })
	return out
}

// regionSites lists the call sites inside the region that leave it.
func regionSites(c *Check, region map[*ssa.Function]bool) []ssa.CallInstruction {
	var fns []*ssa.Function
	for f := range region {
		fns = append(fns, f)
	}
	sort.Slice(fns, func(i, j int) bool { return c.P.FuncName(fns[i]) < c.P.FuncName(fns[j]) })
	var out []ssa.CallInstruction
	for _, f := range fns {
		for _, s := range engine.SitesIn(f) {
			if call, ok := s.(*ssa.Call); ok {
				if h := call.Call.StaticCallee(); h != nil && region[h] {
					continue
				}
			}
			out = append(out, s)
		}
	}
	return out
}

// nilReturnReachable: fn can return a nil error along a path that avoids the cuts — through a constant-nil
// return, or through a return that hands on the result of a first-party helper which itself can
// (`return combine(collect(ch))`), to depth 3.
func nilReturnReachable(fn *ssa.Function, q engine.PathQuery, depth int) (bool, ssa.Instruction) {
	return nilReturnReachableAfter(fn, nil, q, depth)
}

// nilReturnReachableFrom: the same question asked for the paths that start right after `from`.
func nilReturnReachableFrom(fn *ssa.Function, from ssa.Instruction, q engine.PathQuery) (bool, ssa.Instruction) {
	return nilReturnReachableAfter(fn, from, q, 0)
}

func nilReturnReachableAfter(fn *ssa.Function, from ssa.Instruction, q engine.PathQuery, depth int) (bool, ssa.Instruction) {
	idx := engine.ErrResultIndex(fn.Signature)
	if idx < 0 {
		return false, nil
	}
	for _, r := range engine.Returns(fn) {
		if idx >= len(r.Results) {
			continue
		}
		mayNil := false
		var helpers []*ssa.Function
		for _, o := range engine.Origins(r.Results[idx]) {
			if o == nil {
				mayNil = true
				continue
			}
			if k, ok := o.(*ssa.Const); ok && k.Value == nil {
				mayNil = true
				continue
			}
			if call, ri := engine.CallOf(o); call != nil {
				if h := call.Common().StaticCallee(); h != nil && len(h.Blocks) > 0 {
					if depth < 3 && engine.ErrResultIndex(h.Signature) == ri {
						helpers = append(helpers, h)
					}
					continue
				}
				// an interface method or a function outside the analysed code: it may well return nil,
				// unless it is one of the constructors of a fresh error
				if n := engine.CalleeName(call); n != "fmt.Errorf" && n != "errors.New" && ri == engine.ErrResultIndex(call.Common().Signature()) {
					mayNil = true
				}
			}
		}
		if !mayNil && len(helpers) == 0 {
			continue
		}
		// a return that sits behind the non-nil branch of the very value it returns is not a nil return
		rq := q
		rv := r.Results[idx]
		var spilled ssa.Value // defer-spilled result: `*r = v; rundefers; t = *r; return t`
		if ld, ok := rv.(*ssa.UnOp); ok && ld.Op == token.MUL {
			if sts, zero := engine.ReachingStores(ld); len(sts) == 1 && !zero {
				spilled = sts[0].Val
			}
		}
		behind := engine.CutEdgesWhere(func(a engine.Atom) bool {
			return a.Op == "nonnil" && (a.V == rv || sameVar(a.V, rv) || (spilled != nil && (a.V == spilled || sameVar(a.V, spilled))))
		})
		rq.CutEdge = func(b *ssa.BasicBlock, i int) bool { return (q.CutEdge != nil && q.CutEdge(b, i)) || behind(b, i) }
		if ok, _ := engine.PathExists(fn, from, engine.IsInstr(r), rq); !ok {
			continue
		}
		if mayNil {
			return true, r
		}
		for _, h := range helpers {
			if ok, at := nilReturnReachable(h, q, depth+1); ok {
				return true, at
			}
		}
	}
	return false, nil
}

// forwardsError: whenever call p (inside h) fails, h does not return a nil error — every return of h
// reachable from p without taking p's err == nil branch yields p's own error or a freshly built one.
func forwardsError(h *ssa.Function, p ssa.CallInstruction) bool {
	hi := engine.ErrResultIndex(h.Signature)
	pi := engine.ErrResultIndex(p.Common().Signature())
	if hi < 0 || pi < 0 {
		return false
	}
	ok := true
	engine.PathExists(h, p, func(in ssa.Instruction) bool {
		r, isRet := in.(*ssa.Return)
		if !isRet || in.Parent() != h || hi >= len(r.Results) {
			return false
		}
		orig := engine.Origins(r.Results[hi])
		if len(orig) == 0 {
			ok = false
		}
		for _, o := range orig {
			if o == nil {
				ok = false
				continue
			}
			if call, idx := engine.CallOf(o); call != nil {
				if call == p && idx == pi {
					continue
				}
				if n := engine.CalleeName(call); n == "fmt.Errorf" || n == "errors.New" || n == "errors.Join" {
					continue
				}
			}
			// another error that is known to be non-nil on this path
			if definitelyNonNilReturn(h, r) {
				continue
			}
			ok = false
		}
		return false // keep searching: every such return must qualify
	}, engine.PathQuery{CutEdge: engine.NilErrEdgesOf(p), Shallow: true})
	return ok
}

// liftedSites returns the call sites of fn that satisfy prim, or that statically call a first-party
// helper containing such sites (recursively) and forwarding each of their errors. Helpers that contain
// a primitive site without forwarding its error are reported in leaks.
func liftedSites(c *Check, fn *ssa.Function, prim func(ssa.CallInstruction) bool, depth int) (sites []ssa.CallInstruction, leaks []string) {
	for _, s := range engine.SitesIn(fn) {
		if prim(s) {
			sites = append(sites, s)
			continue
		}
		call, ok := s.(*ssa.Call)
		if !ok || depth >= 3 {
			continue
		}
		h := call.Call.StaticCallee()
		if h == nil || len(h.Blocks) == 0 || h == fn {
			continue
		}
		// inside the helper its parameters stand for the arguments of this call (so a predicate about the
		// caller's file / target recognises it there)
		var inner []ssa.CallInstruction
		var innerLeaks []string
		fwd := true
		engine.WithCtx(append(engine.CurrentCtx(), call), func() {
			inner, innerLeaks = liftedSites(c, h, prim, depth+1)
			for _, p := range inner {
				if !forwardsError(h, p) {
					fwd = false
					innerLeaks = append(innerLeaks, c.P.FuncName(h)+" can return a nil error after "+engine.CalleeName(p)+" failed ("+c.P.InstrPos(p)+")")
				}
			}
		})
		leaks = append(leaks, innerLeaks...)
		if len(inner) == 0 {
			continue
		}
		if fwd {
			sites = append(sites, s)
		}
	}
	return sites, leaks
}

// onlyAfterSuccess: in fn, `b` can only be reached after `a` ran and its error
// result was tested nil. Returns "" when it holds, else a description.
func onlyAfterSuccess(fn *ssa.Function, a, b ssa.CallInstruction) string {
	if ok, _ := engine.PathExists(fn, nil, engine.IsInstr(b), engine.PathQuery{CutInstr: engine.IsInstr(a)}); ok {
		return "reachable from function entry without passing the guarding call"
	}
	if engine.ErrResultIndex(a.Common().Signature()) < 0 {
		return "guarding call has no error result"
	}
	if ok, _ := engine.PathExists(fn, a, engine.IsInstr(b), engine.PathQuery{CutEdge: engine.NilErrEdgesOf(a)}); ok {
		return "reachable after the guarding call without taking the err == nil branch of its result"
	}
	return ""
}

// methodImpls returns the first-party implementations of an interface method.
func methodImpls(c *Check, iface *types.Named, method string) []*ssa.Function {
	if iface == nil {
		return nil
	}
	it, ok := iface.Underlying().(*types.Interface)
	if !ok {
		return nil
	}
	var out []*ssa.Function
	for _, t := range c.P.Implementers(it) {
		ms := c.P.SSA.MethodSets.MethodSet(t)
		for i := 0; i < ms.Len(); i++ {
			if ms.At(i).Obj().Name() == method {
				if fn := c.P.SSA.MethodValue(ms.At(i)); fn != nil {
					fn = engine.Unwrap(fn)
					if c.P.FuncSet[fn] {
						out = append(out, fn)
					}
				}
			}
		}
	}
	sort.Slice(out, func(i, j int) bool { return c.P.FuncName(out[i]) < c.P.FuncName(out[j]) })
	return out
}

func fnSet(fns ...*ssa.Function) map[*ssa.Function]bool {
	m := map[*ssa.Function]bool{}
	for _, f := range fns {
		if f != nil {
			m[f] = true
		}
	}
	return m
}

func names(c *Check, fns []*ssa.Function) string {
	var out []string
	for _, f := range fns {
		out = append(out, c.P.FuncName(f))
	}
	sort.Strings(out)
	return strings.Join(out, ", ")
}

// isNilErrReturn: the return's trailing error result is the nil constant.
func isNilErrReturn(r *ssa.Return) bool {
	if len(r.Results) == 0 {
		return true
	}
	last := r.Results[len(r.Results)-1]
	// functions with defers spill their results into locals: look through the load
	orig := engine.Origins(last)
	if len(orig) == 0 {
		return false
	}
	for _, o := range orig {
		if o == nil {
			continue
		}
		cst, ok := o.(*ssa.Const)
		if !ok || cst.Value != nil {
			return false
		}
	}
	return true
}

// constIs reports whether v is the given named constant.
func constIs(v ssa.Value, k *types.Const) bool {
	cst, ok := v.(*ssa.Const)
	if !ok || k == nil || cst.Value == nil {
		return false
	}
	return types.Identical(cst.Type(), k.Type()) && cst.Value.ExactString() == k.Val().ExactString()
}

// fieldReadOn: v is a read of field `name` (through FieldAddr+load or Field); returns the base.
func fieldReadOn(v ssa.Value, name string) (ssa.Value, bool) {
	switch x := v.(type) {
	case *ssa.UnOp:
		if fa, ok := x.X.(*ssa.FieldAddr); ok {
			if engine.FieldKeyOf(fa.X.Type(), fa.Field).F == name {
				return fa.X, true
			}
		}
	case *ssa.Field:
		if engine.FieldKeyOf(x.X.Type(), x.Field).F == name {
			return x.X, true
		}
	}
	return nil, false
}

// sameVar: two SSA values denote the same variable (identical, or loads of the same cell).
func sameVar(a, b ssa.Value) bool {
	a, b = engine.ResolveCtx(a), engine.ResolveCtx(b)
	if a == b {
		return true
	}
	la, ok1 := a.(*ssa.UnOp)
	lb, ok2 := b.(*ssa.UnOp)
	if ok1 && ok2 && la.X == lb.X {
		return true
	}
	return false
}
