package rules

import (
	"go/types"
	"strings"

	"golang.org/x/tools/go/ssa"

	"grogverif/engine"
)

// Round 6, fourth batch.

// readerRoots: the *os.File (or other opened stream) values a reader value is a view of, looking through the
// wrapping constructors (LimitReader, TeeReader, NewReader, NopCloser, a progress wrapper, interface boxing).
func readerRoots(v ssa.Value, depth int, out map[ssa.Value]bool) {
	if depth > 6 {
		return
	}
	for _, o := range engine.Origins(v) {
		if o == nil {
			continue
		}
		if call, idx := engine.CallOf(o); call != nil {
			n := engine.CalleeName(call)
			if (n == "os.Open" || n == "os.OpenFile" || n == "os.Create") && idx == 0 {
				out[call.Value()] = true
				out[o] = true
				continue
			}
			// a wrapper: any call that takes a reader and gives a reader
			for _, a := range call.Common().Args {
				if implementsReader(a.Type()) {
					readerRoots(a, depth+1, out)
				}
			}
			if call.Common().IsInvoke() && implementsReader(call.Common().Value.Type()) {
				readerRoots(call.Common().Value, depth+1, out)
			}
			continue
		}
		out[o] = true
	}
}

func implementsReader(t types.Type) bool {
	ms := types.NewMethodSet(t)
	for i := 0; i < ms.Len(); i++ {
		if ms.At(i).Obj().Name() == "Read" {
			if sig, ok := ms.At(i).Type().(*types.Signature); ok && sig.Params().Len() == 1 && sig.Results().Len() == 2 {
				return true
			}
		}
	}
	return false
}

var consumingCalls = map[string]int{ // callee -> index of the reader argument that is drained
	"io.ReadAll": 0, "io.Copy": 1, "io.CopyN": 1, "io.CopyBuffer": 1, "io.ReadFull": 0, "io.ReadAtLeast": 0,
	"io/ioutil.ReadAll": 0, "(*os.File).Read": 0, "(*bufio.Reader).Read": 0, "(*bufio.Reader).ReadString": 0,
	"(*bufio.Reader).ReadBytes": 0, "(*bufio.Reader).Peek": 0, "(*bufio.Scanner).Scan": 0,
}

// R01v (also R07r, R08o): what is stored is the whole content. The stream handed to the store for a digest
// starts at the beginning of the file the digest was computed from: between opening the file and handing it
// (or a view of it) to the store nothing reads from it, unless it is rewound.
func ruleStoreReaderFresh(c *Check, rule string) {
	c.Rule(rule, "in the output handlers, a file that is handed (directly or wrapped) to the store as the content of a digest has not been read from since it was opened, unless Seek rewound it", 2)
	n := 0
	for _, fn := range c.P.Funcs {
		if !engine.InPackage(fn, "output/handlers") || isTestFunc(c, fn) {
			continue
		}
		for _, s := range engine.SitesIn(fn) {
			if !strings.Contains(engine.CalleeName(s), "caching.Cas).Write") || strings.HasSuffix(engine.CalleeName(s), "WriteBytes") {
				continue
			}
			args := s.Common().Args
			content := args[len(args)-1]
			roots := map[ssa.Value]bool{}
			readerRoots(content, 0, roots)
			var files []ssa.Value
			for r := range roots {
				if strings.HasSuffix(r.Type().String(), "*os.File") {
					files = append(files, r)
				}
			}
			if len(files) == 0 {
				continue
			}
			n++
			viewOf := func(v ssa.Value) bool {
				rs := map[ssa.Value]bool{}
				readerRoots(v, 0, rs)
				for _, f := range files {
					if rs[f] {
						return true
					}
				}
				return false
			}
			isSeek := func(in ssa.Instruction) bool {
				call, ok := in.(ssa.CallInstruction)
				return ok && engine.CalleeName(call) == "(*os.File).Seek" && viewOf(call.Common().Args[0])
			}
			bad := ""
			pos := c.P.InstrPos(s)
			for _, k := range engine.SitesIn(fn) {
				if k == s {
					continue
				}
				idx, isConsumer := consumingCalls[engine.CalleeName(k)]
				cargs := k.Common().Args
				if !isConsumer {
					// a first-party function that is given the stream reads it
					if h := k.Common().StaticCallee(); h != nil && engine.IsFirstParty(pkgPathOf(h)) && !strings.Contains(engine.CalleeName(k), "WrapReader") && !strings.Contains(engine.CalleeName(k), "caching.Cas).Write") {
						for _, a := range cargs {
							if implementsReader(a.Type()) && viewOf(a) {
								if r, _ := engine.PathExists(fn, k, engine.IsInstr(s), engine.PathQuery{CutInstr: isSeek, Shallow: true}); r {
									bad = "the stream is first handed to " + engine.CalleeName(k) + " (" + c.P.InstrPos(k) + ")"
								}
							}
						}
					}
					continue
				}
				if idx >= len(cargs) || !viewOf(cargs[idx]) {
					continue
				}
				if r, _ := engine.PathExists(fn, k, engine.IsInstr(s), engine.PathQuery{CutInstr: isSeek, Shallow: true}); r {
					bad = engine.CalleeName(k) + " (" + c.P.InstrPos(k) + ") has already read from the file"
				}
			}
			c.Require(bad == "", rule, "store-reader-fresh/"+c.P.FuncName(fn), "the stored stream starts at the beginning of the file", bad+" when it is handed to the store: the blob kept under the digest of the whole file lacks what was read before — a later restore writes a truncated file (or fails its digest check) although the record says it is cached", pos)
		}
	}
	if n == 0 {
		c.Unknown(rule, "store-reader-fresh", "no handler hands an opened file to the store", "-")
	}
}

// R04p: a pending entry is always released. A function that publishes a channel it has just made in a shared
// table (so that others wait on it) closes it — or hands it to the function that does — on every way out,
// the error returns included; otherwise the second reader of an entry whose first download failed waits forever.
func rulePendingEntryReleased(c *Check, rule string, pkgs ...string) {
	c.Rule(rule, "in "+strings.Join(pkgs, ", ")+": after a freshly made channel was stored in a map held in a struct field or package variable, every return of the function is preceded by a close of that channel or by a (deferred) call that is handed it", 0)
	n := 0
	for _, fn := range c.P.Funcs {
		in := false
		for _, p := range pkgs {
			if engine.InPackage(fn, p) {
				in = true
			}
		}
		if !in || isTestFunc(c, fn) {
			continue
		}
		for _, b := range fn.Blocks {
			for _, ins := range b.Instrs {
				mu, ok := ins.(*ssa.MapUpdate)
				if !ok {
					continue
				}
				if _, isChan := mu.Value.Type().Underlying().(*types.Chan); !isChan {
					continue
				}
				var mk *ssa.MakeChan
				for _, o := range engine.Origins(mu.Value) {
					if m, isMk := o.(*ssa.MakeChan); isMk && m.Parent() == fn {
						mk = m
					}
				}
				shared := false
				for _, o := range engine.Origins(mu.Map) {
					if ld, isLd := o.(*ssa.UnOp); isLd {
						switch ld.X.(type) {
						case *ssa.FieldAddr, *ssa.Global:
							shared = true
						}
					}
				}
				if mk == nil || !shared {
					continue
				}
				n++
				isCh := func(v ssa.Value) bool {
					for _, o := range engine.Origins(v) {
						if o == ssa.Value(mk) {
							return true
						}
					}
					return v == ssa.Value(mk)
				}
				release := func(in ssa.Instruction) bool {
					call, ok := in.(ssa.CallInstruction)
					if !ok {
						return false
					}
					for _, a := range call.Common().Args {
						if isCh(a) {
							return true
						}
					}
					// a deferred closure that captures the channel
					if mc, isMC := call.Common().Value.(*ssa.MakeClosure); isMC {
						for _, bnd := range mc.Bindings {
							if isCh(bnd) {
								return true
							}
							if al, isAl := bnd.(*ssa.Alloc); isAl {
								for _, ref := range *al.Referrers() {
									if st, isSt := ref.(*ssa.Store); isSt && isCh(st.Val) {
										return true
									}
								}
							}
						}
					}
					return false
				}
				isRet := func(in ssa.Instruction) bool { _, r := in.(*ssa.Return); return r && in.Parent() == fn }
				reach, at := engine.PathExists(fn, mu, isRet, engine.PathQuery{CutInstr: release, Shallow: true})
				pos := c.P.InstrPos(mu)
				if at != nil {
					pos = c.P.InstrPos(at)
				}
				c.Require(!reach, rule, "pending-entry-released/"+c.P.FuncName(fn), "every way out closes (or hands on) the published channel", "the function can return after publishing a pending channel in the shared table without closing it or arranging for that (the release is registered only after an early error return): the entry stays in the table, and every later reader of the same key waits on a channel nobody will ever close — one failed download blocks the next restore of that blob for good", pos)
			}
		}
	}
	if n == 0 {
		c.OK(rule, "pending-entry-released/none", "no function publishes a pending channel in a shared table", "-")
	}
}

// R07s: a pooled buffer is empty when it is used. A buffer taken from a sync.Pool is Reset before anything is
// written into it, or it is Reset on every path before it goes back; a `defer pool.Put(buf)` next to a Reset
// at the end of the normal path returns a half-filled buffer on the error path, and the next upload that gets
// it sends the leftovers in front of its own content.
func rulePooledBufferReset(c *Check, rule string) {
	c.Rule(rule, "a value taken from a sync.Pool that has a Reset method is Reset after Get before any other use, or before every Put on every path (a deferred Put counts as executed at every return)", 0)
	n := 0
	for _, g := range c.G.CallsTo("(*sync.Pool).Get") {
		fn := g.Parent()
		if fn == nil || isTestFunc(c, fn) || !engine.IsFirstParty(pkgPathOf(fn)) {
			continue
		}
		// the typed value
		var buf ssa.Value
		if v := g.Value(); v != nil {
			for _, ref := range *v.Referrers() {
				if ta, ok := ref.(*ssa.TypeAssert); ok {
					buf = ta
					if ta.CommaOk {
						for _, r2 := range *ta.Referrers() {
							if ex, isEx := r2.(*ssa.Extract); isEx && ex.Index == 0 {
								buf = ex
							}
						}
					}
				}
			}
		}
		if buf == nil {
			continue
		}
		hasReset := false
		ms := types.NewMethodSet(buf.Type())
		for i := 0; i < ms.Len(); i++ {
			if ms.At(i).Obj().Name() == "Reset" {
				hasReset = true
			}
		}
		if !hasReset {
			continue
		}
		n++
		is := func(v ssa.Value) bool {
			if v == buf {
				return true
			}
			for _, o := range engine.Origins(v) {
				if o == buf {
					return true
				}
			}
			return false
		}
		isReset := func(in ssa.Instruction) bool {
			call, ok := in.(ssa.CallInstruction)
			return ok && strings.HasSuffix(engine.CalleeName(call), ").Reset") && len(call.Common().Args) > 0 && is(call.Common().Args[0])
		}
		isUse := func(in ssa.Instruction) bool {
			call, ok := in.(ssa.CallInstruction)
			if !ok || isReset(in) {
				return false
			}
			if _, isDefer := in.(*ssa.Defer); isDefer {
				return false
			}
			if strings.HasSuffix(engine.CalleeName(call), "sync.Pool).Put") {
				return false
			}
			for _, a := range call.Common().Args {
				if is(a) {
					return true
				}
			}
			return false
		}
		// (a) reset on get
		dirtyUse, _ := engine.PathExists(fn, g, isUse, engine.PathQuery{CutInstr: isReset, Shallow: true})
		if !dirtyUse {
			c.OK(rule, "pooled-buffer-reset/"+c.P.FuncName(fn), "the buffer is Reset before its first use", c.P.InstrPos(g))
			continue
		}
		// (b) reset before every put: a deferred Put runs at every return
		bad := ""
		for _, f := range engine.AnonFuncsDeep(fn) {
			for _, s := range engine.SitesIn(f) {
				if !strings.HasSuffix(engine.CalleeName(s), "sync.Pool).Put") {
					continue
				}
				if _, isDefer := s.(*ssa.Defer); isDefer && f == fn {
					isRet := func(in ssa.Instruction) bool { _, r := in.(*ssa.Return); return r && in.Parent() == fn }
					if r, at := engine.PathExists(fn, g, isRet, engine.PathQuery{CutInstr: isReset, Shallow: true}); r {
						bad = "the deferred Put runs at a return (" + c.P.InstrPos(at) + ") that no Reset precedes"
					}
					continue
				}
				if f != fn {
					// Put inside a (deferred) literal: Reset must precede it there
					if r, _ := engine.PathExists(f, nil, engine.IsInstr(s), engine.PathQuery{CutInstr: func(in ssa.Instruction) bool {
						call, ok := in.(ssa.CallInstruction)
						return ok && strings.HasSuffix(engine.CalleeName(call), ").Reset")
					}, Shallow: true}); r {
						bad = "the literal that puts the buffer back does not Reset it first (" + c.P.InstrPos(s) + ")"
					}
					continue
				}
				if r, _ := engine.PathExists(fn, g, engine.IsInstr(s), engine.PathQuery{CutInstr: isReset, Shallow: true}); r {
					bad = "Put (" + c.P.InstrPos(s) + ") is reachable without a Reset"
				}
			}
		}
		c.Require(bad == "", rule, "pooled-buffer-reset/"+c.P.FuncName(fn), "the buffer is Reset before it is put back on every path", "a pooled buffer is written to without being Reset first, and "+bad+": after a failed upload the half-filled buffer goes back into the pool, and the next upload that takes it sends those leftover bytes in front of its own content — a blob whose bytes do not match its digest becomes visible in the remote cache", c.P.InstrPos(g))
	}
	if n == 0 {
		c.OK(rule, "pooled-buffer-reset/none", "no sync.Pool of resettable buffers", "-")
	}
}

// R09m: the glob pattern is the declared pattern. The string handed to the glob function as the pattern is what
// the BUILD file says (the directory is supplied as the file system to glob in); a pattern that is glued to a
// directory name at run time lets the metacharacters of that name — a checkout under `build[1]/` or `{tmp}` —
// take part in the match, so the resolved inputs depend on where the workspace lives.
func ruleGlobPatternNotComposed(c *Check, rule string) {
	c.Rule(rule, "in the loader, the pattern argument of every doublestar glob call is not built at run time from two or more non-constant parts (filepath.Join, path.Join, concatenation, Sprintf)", 1)
	n := 0
	for _, fn := range c.P.Funcs {
		if !engine.InPackage(fn, "loading") || isTestFunc(c, fn) {
			continue
		}
		for _, s := range engine.SitesIn(fn) {
			name := engine.CalleeName(s)
			if !strings.Contains(name, "doublestar") || !strings.Contains(name, "Glob") {
				continue
			}
			var pat ssa.Value
			for _, a := range s.Common().Args {
				if isStringType(a.Type()) {
					pat = a
					break
				}
			}
			if pat == nil {
				continue
			}
			n++
			bad := ""
			for _, o := range engine.Origins(pat) {
				if call, _ := engine.CallOf(o); call != nil {
					switch engine.CalleeName(call) {
					case "path/filepath.Join", "path.Join", "fmt.Sprintf":
						if variadicNonConst(call) >= 2 {
							bad = engine.CalleeName(call)
						}
					}
				}
				if bo, ok := o.(*ssa.BinOp); ok && bo.Op.String() == "+" && concatNonConst(bo) >= 2 {
					bad = "string concatenation"
				}
			}
			c.Require(bad == "", rule, "glob-pattern-not-composed/"+c.P.FuncName(fn), "the pattern is the declared one", "the pattern handed to the glob function is built with "+bad+" from a directory name and the declared pattern: metacharacters in the directory name (* ? [ { in the absolute path of the checkout) become part of the pattern, so the same BUILD file resolves to different inputs — and a different key — depending on where the workspace lives", c.P.InstrPos(s))
		}
	}
	if n == 0 {
		c.Unknown(rule, "glob-pattern-not-composed", "no glob call in the loader", "-")
	}
}

// R11q: the escape test judges the whole declared string. What reaches the escape predicate is the declared
// input or pattern itself (or its lexical cleaning) — not a prefix, a split-off base or a substring of it:
// `src/*/../../../x/*` escapes although its wildcard-free base `src` does not.
func ruleEscapeTestSeesWholePattern(c *Check, rule string) {
	c.Rule(rule, "every argument of the escape predicate in the constraint check is a declared input/pattern element itself, or filepath.Clean / path.Clean / ToSlash of it; never a result of splitting, cutting or slicing it", 2)
	ctc := c.P.Func("analysis", "", "CheckTargetConstraints")
	if ctc == nil {
		c.Unknown(rule, "anchor/analysis.CheckTargetConstraints", "anchor-unresolved", "-")
		return
	}
	reach := c.G.ReachableFuncs([]*ssa.Function{ctc}, func(f *ssa.Function) bool { return !engine.InPackage(f, "analysis") })
	preds := map[*ssa.Function]bool{}
	for f := range reach {
		sig := f.Signature
		if engine.InPackage(f, "analysis") && sig.Params().Len() == 1 && isStringType(sig.Params().At(0).Type()) && sig.Results().Len() == 1 && sig.Results().At(0).Type().String() == "bool" && len(f.Blocks) > 0 {
			preds[f] = true
		}
	}
	allowed := map[string]bool{"path/filepath.Clean": true, "path.Clean": true, "path/filepath.ToSlash": true, "path/filepath.FromSlash": true, "strings.TrimSpace": true}
	n := 0
	for fn := range reach {
		if !engine.InPackage(fn, "analysis") || preds[fn] {
			continue
		}
		for _, s := range engine.SitesIn(fn) {
			h := s.Common().StaticCallee()
			if h == nil || !preds[h] {
				continue
			}
			// only the sites that judge an input (the same predicate also judges outputs, whose paths are
			// made relative to the workspace first)
			if !readsField(c, fn, fk("model.Target", "Inputs")) && !readsField(c, fn, fk("model.Target", "UnresolvedInputs")) {
				continue
			}
			arg := s.Common().Args[0]
			n++
			bad := ""
			var walk func(v ssa.Value, d int)
			walk = func(v ssa.Value, d int) {
				if d > 5 {
					return
				}
				for _, o := range engine.Origins(v) {
					if o == nil {
						continue
					}
					if _, isSl := o.(*ssa.Slice); isSl {
						bad = "a substring"
						continue
					}
					if call, _ := engine.CallOf(o); call != nil {
						name := engine.CalleeName(call)
						if allowed[name] {
							for _, a := range call.Common().Args {
								walk(a, d+1)
							}
							continue
						}
						if sc := call.Common().StaticCallee(); sc != nil && engine.IsFirstParty(pkgPathOf(sc)) {
							continue // a getter of the model (GetPath…): judged by R11j/R11b
						}
						if call.Common().IsInvoke() {
							continue
						}
						bad = "the result of " + name
					}
				}
			}
			walk(arg, 0)
			c.Require(bad == "", rule, "escape-test-sees-whole/"+c.P.FuncName(fn), "the predicate is given the declared string (or its lexical cleaning)", "the escape predicate is given "+bad+" instead of the whole declared pattern: a climb out of the package that sits behind the part that was kept (`src/*/../../../other/*.txt`) is not seen, and a graph with an input escaping its package is accepted", c.P.InstrPos(s))
		}
	}
	if n == 0 {
		c.Unknown(rule, "escape-test-sees-whole", "no call of an escape predicate found in the constraint check", "-")
	}
}

// R12m: filter values and declared tags meet unchanged — or changed alike. The tag filters compare the strings
// given on the command line with the strings declared on targets; a case folding (or any other rewriting) that
// is applied to one side only makes `--tag GPU` miss the target tagged `GPU`.
func ruleTagSidesTreatedAlike(c *Check, rule string) {
	c.Rule(rule, "a case-folding call (strings.ToLower/ToUpper/ToTitle/EqualFold aside) whose result reaches the tag filter values (config Tags/ExcludeTags, Selector Tags/ExcludeTags) has a counterpart whose result reaches the declared tags (model.Target.Tags), and vice versa", 0)
	filterSide := []engine.FieldKey{fk("config.WorkspaceConfig", "Tags"), fk("config.WorkspaceConfig", "ExcludeTags"), fk("selection.Selector", "Tags"), fk("selection.Selector", "ExcludeTags")}
	declSide := []engine.FieldKey{fk("model.Target", "Tags"), fk("loading.TargetDTO", "Tags")}
	var toFilter, toDecl []ssa.CallInstruction
	nFold := 0
	for _, s := range c.G.CallsTo("strings.ToLower", "strings.ToUpper", "strings.ToTitle", "strings.Title") {
		fn := s.Parent()
		if fn == nil || isTestFunc(c, fn) || !engine.IsFirstParty(pkgPathOf(fn)) || len(s.Common().Args) == 0 {
			continue
		}
		nFold++
		// what is folded: where the argument comes from (the forward direction is useless here: handing both
		// sides to slices.Contains makes either "flow" into the other for a field-based graph)
		back := c.G.Backward([]Node{s.Common().Args[0]}, nil)
		for _, k := range filterSide {
			if back.Has(k) {
				toFilter = append(toFilter, s)
				break
			}
		}
		for _, k := range declSide {
			if back.Has(k) {
				toDecl = append(toDecl, s)
				break
			}
		}
	}
	if nFold == 0 {
		c.OK(rule, "tag-sides-alike/none", "no case folding in first-party code", "-")
		return
	}
	switch {
	case len(toFilter) > 0 && len(toDecl) == 0:
		c.Bad(rule, "tag-sides-alike", "the values of --tag/--exclude-tag are case-folded ("+c.P.InstrPos(toFilter[0])+") while the tags declared on targets are compared as written: `--tag GPU` no longer selects the target tagged `GPU`, and `--exclude-tag Slow` no longer keeps the target tagged `Slow` out of the build", c.P.InstrPos(toFilter[0]))
	case len(toDecl) > 0 && len(toFilter) == 0:
		c.Bad(rule, "tag-sides-alike", "the tags declared on targets are case-folded ("+c.P.InstrPos(toDecl[0])+") while the filter values are compared as typed: a filter that names a tag the way the BUILD file spells it no longer matches", c.P.InstrPos(toDecl[0]))
	default:
		c.OK(rule, "tag-sides-alike", "no one-sided rewriting of tags", "-")
	}
}
