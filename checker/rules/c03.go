package rules

import (
	"fmt"
	"go/token"
	"go/types"
	"os"
	"strconv"
	"strings"

	"golang.org/x/tools/go/ssa"

	"grogverif/engine"
)

func init() { register("C03", runC03) }

func runC03(c *Check, tier string) {
	c.Decides = "a dependant is released only when a ∀-loop over all its in-edges found a successful completion for each; the callback runs at most once per node routine, only after `ready`, and one routine exists per selected node; every command is started from inside a pool task; the pool starts exactly maxWorkers sequential workers (maxWorkers derived from num_workers) and a task runs only on a worker; per-target mutexes are released on every exit; adjacency lists handed out by the graph are not modified outside internal/dag."
	c.NotDec = "real-time overlap of commands, happens-before of the hashes read by dependants beyond lock/channel pairing, scheduler fairness."
	c.Rule("R03a", "∀-release: the release of a dependant is guarded by a flag that is true before a full range over inEdges[dependant], cleared on every missing/unsuccessful dependency, never set back, and the loop has no early exit on a satisfied dependency; a failed completion never releases", 2)
	c.Rule("R03b", "the callback is called at one site outside loops, only after the ready receive; routines are spawned once per selected node", 3)
	c.Rule("R03c", "every exec.Command* in internal/execution is reachable from the CLI entry points only through the pool worker's task invocation (tabled exception: `grog run` re-running dependencies after the build)", 1)
	c.Rule("R03d", "job.task is invoked at one site in the worker loop (not under go); workers are spawned only in a counted loop i < maxWorkers; each pool is started exactly once; maxWorkers derives from config NumWorkers", 4)
	c.Rule("R03e", "every keyed per-target Lock(k) is followed on all paths by a deferred Unlock(k) with the same key", 3)
	w := findWalker(c, "R03a")
	if w != nil {
		ruleRelease(c, "R03a", w)
		ruleOncePerNode(c, "R03b", w)
	}
	ruleR03c(c, "R03c")
	ruleR03d(c)
	ruleR03e(c)
	// the walker releases by the graph's in-edges: nothing outside the graph may rewrite them
	ruleAdjacencyNotAliased(c, "R03f")
	ruleNoSpawnInsideSlot(c, "R03g")
	ruleExecutedCountsAsLoaded(c, "R03h")
	// round 8: a task that panicked did not finish successfully
	ruleRecoveredPanicIsAnError(c, "R03o", "worker", "execution", "dag", "loading", "output", "caching")
	ruleRerunOnlyWhenNeeded(c, "R03i")
	ruleCommandWaitedFor(c, "R03j")
	ruleNoPoolReentry(c, "R03k")
	// "finished successfully" is decided from the wrapper script's exit status
	ruleWrapperStatus(c, "R03l")
	// a restore is complete when it says so: goroutines are counted before they start
	ruleAddBeforeSpawn(c, "R03m", "output", "caching", "execution", "dag", "worker")
	ruleCommandRunsOncePerExecution(c, "R03n")
}

// spawnedAt: the functions a site starts on another goroutine (go statement, or a function value handed to an
// errgroup / pool / WaitGroup / timer spawner outside the first-party code).
func spawnedAt(c *Check, s ssa.CallInstruction) []*ssa.Function {
	if _, isGo := s.(*ssa.Go); isGo {
		return c.G.CalleesOf(s)
	}
	cc := s.Common()
	if cc.IsInvoke() {
		n := engine.CalleeName(s)
		if !(strings.HasSuffix(n, ".Go") || strings.HasSuffix(n, ".TryGo") || strings.HasSuffix(n, ".Submit") || strings.HasSuffix(n, ".SubmitErr")) {
			return nil
		}
	} else {
		h := cc.StaticCallee()
		if h == nil || engine.IsFirstParty(pkgPathOf(h)) {
			return nil
		}
		n := h.Name()
		if !(n == "Go" || n == "TryGo" || n == "Submit" || n == "SubmitErr" || n == "AfterFunc") {
			return nil
		}
	}
	var out []*ssa.Function
	for _, a := range cc.Args {
		if _, ok := a.Type().Underlying().(*types.Signature); ok {
			out = append(out, c.G.FuncValuesReaching(a)...)
		}
	}
	return out
}

// R03g: one command per worker slot. The bound "at most num_workers commands at a time" is the pool's worker
// count times one task per worker; it holds only if nothing between the task invocation and the command starts
// further goroutines that run commands themselves.
func ruleNoSpawnInsideSlot(c *Check, rule string) {
	c.Rule(rule, "no goroutine started by first-party code (go statement, errgroup/WaitGroup .Go, pool Submit, time.AfterFunc) reaches the command runner except the pool's own workers: inside a worker slot commands are started one after the other", 1)
	ex := findExec(c, rule)
	p := findPool(c, rule)
	if ex == nil || p == nil {
		return
	}
	examined, bad := 0, 0
	for _, fn := range c.P.Funcs {
		for _, s := range engine.SitesIn(fn) {
			sp := spawnedAt(c, s)
			if len(sp) == 0 {
				continue
			}
			examined++
			for _, f := range sp {
				if f == p.Worker {
					continue
				}
				reach := c.G.ReachableFuncs([]*ssa.Function{f}, func(g *ssa.Function) bool { return g == p.Worker })
				if reach[ex.RunCommand] {
					bad++
					c.Bad(rule, "spawn-reaches-command/"+c.P.FuncName(fn), "a goroutine started here runs target commands ("+c.P.FuncName(f)+" reaches "+c.P.FuncName(ex.RunCommand)+") outside the pool's worker loop: several commands run at once inside one worker slot, so more than num_workers commands can be in flight", c.P.InstrPos(s))
				}
			}
		}
	}
	if bad == 0 {
		c.OK(rule, "spawn-reaches-command", "none of the "+strconv.Itoa(examined)+" goroutine spawn sites of the first-party code reaches the command runner other than through the pool worker", "-")
	}
}

type poolInfo struct {
	Worker   *ssa.Function       // runs tasks
	TaskCall ssa.CallInstruction // j.task(...)
	Start    *ssa.Function       // spawns workers
	New      *ssa.Function
	Run      *ssa.Function
}

func findPool(c *Check, rule string) *poolInfo {
	p := &poolInfo{}
	taskKey := fk("worker.job", "task")
	n := 0
	for _, s := range c.G.Sites {
		cc := s.Common()
		if cc.IsInvoke() || cc.StaticCallee() != nil {
			continue
		}
		if isLoadOfField(cc.Value, taskKey) || isFieldOf(cc.Value, taskKey) {
			p.TaskCall = s
			p.Worker = s.Parent()
			n++
		}
	}
	if n == 0 {
		c.Unknown(rule, "anchor/pool-task-invocation", "anchor-unresolved: no invocation of job.task found", "-")
		return nil
	}
	if n > 1 {
		var where []string
		for _, s := range c.G.Sites {
			cc := s.Common()
			if !cc.IsInvoke() && cc.StaticCallee() == nil && (isLoadOfField(cc.Value, taskKey) || isFieldOf(cc.Value, taskKey)) {
				where = append(where, c.P.InstrPos(s)+" in "+c.P.FuncName(s.Parent()))
			}
		}
		c.Bad(rule, "tasks-run-only-on-workers", fmt.Sprintf("a pool task is invoked at %d sites (%s): besides the worker loop, tasks can run on other goroutines, so more than num_workers commands can run at once", n, strings.Join(where, "; ")), "-")
		return nil
	}
	// the worker is the goroutine root that (synchronously, possibly through helpers) invokes the task
	for hop := 0; hop < 4; hop++ {
		sites := c.G.CallersOf(p.Worker)
		spawned, plain := false, 0
		var caller *ssa.Function
		for _, s := range sites {
			if _, isGo := s.(*ssa.Go); isGo {
				spawned = true
			} else if _, isCall := s.(*ssa.Call); isCall {
				plain++
				if caller != nil && caller != s.Parent() {
					plain = 99
				}
				caller = s.Parent()
			}
		}
		if spawned || plain == 0 || plain == 99 || len(sites) != plain {
			break
		}
		p.Worker = caller
	}
	p.New = anchor(c, rule, "worker", "", "NewTaskWorkerPool")
	p.Run = anchor(c, rule, "worker", "TaskWorkerPool", "Run")
	for _, s := range c.G.CallersOf(p.Worker) {
		if _, isGo := s.(*ssa.Go); isGo {
			p.Start = s.Parent()
		}
	}
	if p.New == nil || p.Run == nil || p.Start == nil {
		if p.Start == nil {
			c.Unknown(rule, "anchor/pool-start", "anchor-unresolved: no `go worker` site", "-")
		}
		return nil
	}
	return p
}

func isFieldOf(v ssa.Value, key engine.FieldKey) bool {
	f, ok := v.(*ssa.Field)
	return ok && engine.FieldKeyOf(f.X.Type(), f.Field) == key
}

func ruleR03c(c *Check, rule string) {
	ex := findExec(c, rule)
	p := findPool(c, rule)
	if ex == nil || p == nil {
		return
	}
	var roots []*ssa.Function
	for _, f := range c.G.CobraRunFuncs() {
		roots = append(roots, f)
	}
	if len(roots) == 0 {
		c.Unknown(rule, "anchor/entry-points", "anchor-unresolved: no cobra Run functions found", "-")
		return
	}
	key := "commands-only-in-pool-tasks"
	all := c.G.ReachableFuncs(roots, nil)
	if !all[ex.RunCommand] {
		c.Unknown(rule, key, "the command runner is not reachable from any CLI entry point in the call graph (function values escaped the recognised idioms)", "-")
		return
	}
	noWorker := c.G.ReachableFuncs(roots, func(f *ssa.Function) bool { return f == p.Worker })
	if !noWorker[ex.RunCommand] {
		c.OK(rule, key, "with the worker's task invocation removed from the call graph no CLI entry point reaches exec.CommandContext", "-")
		return
	}
	// tabled exception: cmds.loadDependencyOutputsIfNeeded (grog run, after the build; sequential)
	// located by role: the cmds function that calls Executor.LoadDependencyOutputs directly
	var exc *ssa.Function
	if ldo := c.P.Func("execution", "Executor", "LoadDependencyOutputs"); ldo != nil {
		for _, f := range c.G.CallerFuncs(ldo) {
			if engine.InPackage(f, "cmd/cmds") {
				exc = f
			}
		}
	}
	noExc := c.G.ReachableFuncs(roots, func(f *ssa.Function) bool { return f == p.Worker || (exc != nil && f == exc) })
	if !noExc[ex.RunCommand] {
		c.OK(rule, key, "outside pool tasks, commands are reachable only through cmds.loadDependencyOutputsIfNeeded (`grog run` re-running dependencies after the build finished; sequential)", "-")
		c.Note("O2: `grog run` can re-execute dependencies after RunBuild returned, outside the pool and outside the workspace lock (load_outputs=minimal only)")
		return
	}
	// find an offending caller chain (first function outside the worker that calls into the executing method)
	var offenders []string
	for f := range noExc {
		for _, s := range engine.SitesIn(f) {
			for _, cal := range c.G.CalleesOf(s) {
				if cal == ex.ExecMethod || cal == ex.ExecCommand || cal == ex.RunCommand {
					offenders = append(offenders, c.P.FuncName(f)+" -> "+c.P.FuncName(cal)+" ("+c.P.InstrPos(s)+")")
				}
			}
		}
	}
	c.Bad(rule, key, "a target command can start outside a pool task, so the num_workers bound does not cover it: "+strings.Join(offenders, "; "), "-")
}

func ruleR03d(c *Check) {
	p := findPool(c, "R03d")
	if p == nil {
		return
	}
	// task invoked synchronously on the worker
	_, isCall := p.TaskCall.(*ssa.Call)
	c.Require(isCall, "R03d", "task-runs-on-worker/"+c.P.FuncName(p.Worker), "job.task is called synchronously by the worker (one task at a time per worker)", "job.task is started with go/defer: tasks are no longer bounded by the number of workers", c.P.InstrPos(p.TaskCall))
	// worker spawn sites
	var spawns []*ssa.Go
	for _, s := range c.G.CallersOf(p.Worker) {
		if g, ok := s.(*ssa.Go); ok {
			spawns = append(spawns, g)
		} else {
			c.Bad("R03d", "worker-spawn/"+c.P.FuncName(s.Parent()), "the worker loop is entered by a plain call, outside the counted spawn", c.P.InstrPos(s))
		}
	}
	maxKey := fk("worker.TaskWorkerPool", "maxWorkers")
	for _, g := range spawns {
		key := "worker-spawn-bounded/" + c.P.FuncName(g.Parent())
		loops := engine.LoopsContaining(g)
		ok := false
		if len(loops) == 1 {
			h := loops[0].Header
			if ifi, isIf := lastIf(h); isIf {
				if cmp, isCmp := ifi.Cond.(*ssa.BinOp); isCmp && cmp.Op == token.LSS && isLoadOfField(cmp.Y, maxKey) {
					if phi, isPhi := cmp.X.(*ssa.Phi); isPhi && countedFromZero(phi) {
						ok = true
					}
				}
			}
		}
		c.Require(ok, "R03d", key, "workers are spawned in a single loop for i := 0; i < maxWorkers; i++", "worker goroutines are not spawned in a loop bounded by maxWorkers", c.P.InstrPos(g))
	}
	if len(spawns) == 0 {
		c.Bad("R03d", "worker-spawn-bounded", "no `go worker` site found", "-")
	}
	// each pool started exactly once, outside loops
	for _, nc := range c.G.CallersOf(p.New) {
		fn := nc.Parent()
		starts := callsToFn(c, fn, p.Start)
		ok := len(starts) == 1 && !engine.InLoop(starts[0])
		c.Require(ok, "R03d", "pool-started-once/"+c.P.FuncName(fn), "the pool created here is started exactly once, outside loops", fmt.Sprintf("the pool created here is started %d times (or in a loop): more than maxWorkers workers would run", len(starts)), c.P.InstrPos(nc))
	}
	// maxWorkers derives from NumWorkers
	back := c.G.Backward([]Node{maxKey}, func(e *engine.Edge) bool { return e.Kind != engine.EField })
	c.Require(back.Has(fk("config.WorkspaceConfig", "NumWorkers")), "R03d", "max-workers-from-config", "TaskWorkerPool.maxWorkers derives from config NumWorkers", "TaskWorkerPool.maxWorkers no longer derives from the configured num_workers", "-")
}

func countedFromZero(phi *ssa.Phi) bool {
	if len(phi.Edges) != 2 {
		return false
	}
	zero, step := false, false
	for _, e := range phi.Edges {
		if k, ok := e.(*ssa.Const); ok && k.Value != nil && k.Int64() == 0 {
			zero = true
		}
		if b, ok := e.(*ssa.BinOp); ok && b.Op == token.ADD && b.X == ssa.Value(phi) {
			if k, ok := b.Y.(*ssa.Const); ok && k.Int64() == 1 {
				step = true
			}
		}
	}
	return zero && step
}

func ruleR03e(c *Check) {
	for _, fn := range c.P.Funcs {
		for _, s := range engine.SitesIn(fn) {
			call, ok := s.(*ssa.Call)
			if !ok {
				continue
			}
			op, ok := engine.ClassifyLock(call)
			if !ok || !op.Acquire || !strings.Contains(engine.CalleeName(call), "MutexMap") {
				continue
			}
			if engine.InPackage(fn, "maps") {
				continue
			}
			// a deferred Unlock with the same key that every path from the Lock to a return passes
			var def ssa.Instruction
			for _, b := range fn.Blocks {
				for _, in := range b.Instrs {
					if d, ok := in.(*ssa.Defer); ok {
						if o2, ok := engine.ClassifyLock(d); ok && !o2.Acquire && o2.Key == op.Key {
							def = d
						}
					}
				}
			}
			okAll := false
			if def != nil {
				reach, _ := engine.PathExists(fn, call, func(in ssa.Instruction) bool { _, r := in.(*ssa.Return); return r }, engine.PathQuery{CutInstr: engine.IsInstr(def)})
				okAll = !reach
			}
			if ok, why := returnsItsUnlock(c, fn, op); ok && why == "" {
				okAll = true // an acquire helper whose callers defer the closure it returns
			}
			c.Require(okAll, "R03e", "keyed-lock-released/"+c.P.FuncName(fn), "Lock("+op.Key+") is followed on every path by a deferred Unlock with the same key", "the per-target lock taken here is not released on every exit (or with a different key): the next user of this target blocks forever", c.P.InstrPos(call))
		}
	}
	_ = types.Typ
}

// mustMarkCalls: the call sites in fn whose (statically resolved, first-party) callee performs a marking store
// on every path to a successful return.
func mustMarkCalls(c *Check, fn *ssa.Function, isMark func(ssa.Instruction) bool, depth int, memo map[*ssa.Function]int) map[ssa.Instruction]bool {
	out := map[ssa.Instruction]bool{}
	for _, s := range engine.SitesIn(fn) {
		call, ok := s.(*ssa.Call)
		if !ok {
			continue
		}
		h := call.Call.StaticCallee()
		if h == nil || len(h.Blocks) == 0 || !engine.IsFirstParty(pkgPathOf(h)) {
			continue
		}
		if alwaysMarks(c, h, isMark, depth, memo) {
			out[s] = true
		}
	}
	return out
}

func alwaysMarks(c *Check, h *ssa.Function, isMark func(ssa.Instruction) bool, depth int, memo map[*ssa.Function]int) bool {
	if v, ok := memo[h]; ok {
		return v == 1
	}
	memo[h] = 0
	if depth <= 0 {
		return false
	}
	inner := mustMarkCalls(c, h, isMark, depth-1, memo)
	cut := func(in ssa.Instruction) bool { return isMark(in) || inner[in] }
	has := false
	for _, b := range h.Blocks {
		for _, in := range b.Instrs {
			if cut(in) {
				has = true
			}
		}
	}
	if !has {
		return false
	}
	var reach bool
	if engine.ErrResultIndex(h.Signature) >= 0 {
		reach, _ = nilReturnReachable(h, engine.PathQuery{CutInstr: cut, Shallow: true}, 0)
	} else {
		reach, _ = engine.PathExists(h, nil, func(in ssa.Instruction) bool { _, r := in.(*ssa.Return); return r && in.Parent() == h }, engine.PathQuery{CutInstr: cut, Shallow: true})
	}
	if !reach {
		memo[h] = 1
	}
	return !reach
}

// R03h: an executed target counts as materialised. Under load_outputs=minimal a dependant loads the outputs of
// its dependencies before it runs and re-runs a dependency whose outputs cannot be loaded; the per-target
// OutputsLoaded mark is what tells it that a dependency executed in this build needs neither.
func ruleExecutedCountsAsLoaded(c *Check, rule string) {
	c.Rule(rule, "the completion function sets Target.OutputsLoaded on every path to success (whether or not the cache is written): a dependant that loads its dependencies' outputs finds an executed dependency materialised and does not run it a second time", 1)
	ex := findExec(c, rule)
	if ex == nil {
		return
	}
	fkey := fk("model.Target", "OutputsLoaded")
	isMark := func(in ssa.Instruction) bool {
		st, ok := in.(*ssa.Store)
		if !ok {
			return false
		}
		fa, ok := st.Addr.(*ssa.FieldAddr)
		if !ok || engine.FieldKeyOf(fa.X.Type(), fa.Field) != fkey {
			return false
		}
		k, isK := engine.BoolConst(st.Val)
		return isK && k
	}
	memo := map[*ssa.Function]int{}
	key := "executed-counts-as-loaded/" + c.P.FuncName(ex.Complete)
	// the mark may sit in the completion function or, after it returned nil, in the executing method
	for _, host := range []*ssa.Function{ex.Complete, ex.ExecMethod} {
		inner := mustMarkCalls(c, host, isMark, 3, memo)
		cut := func(in ssa.Instruction) bool { return isMark(in) || inner[in] }
		reach, at := nilReturnReachable(host, engine.PathQuery{CutInstr: cut, Shallow: true}, 0)
		if os.Getenv("GROGDBG") != "" {
			for in := range inner {
				println("inner", c.P.InstrPos(in))
			}
			println("host", host.Name(), reach)
		}
		if !reach {
			c.OK(rule, key, "every successful return of "+c.P.FuncName(host)+" is preceded by OutputsLoaded = true", c.P.Pos(host.Pos()))
			return
		}
		if host == ex.ExecMethod {
			pos := c.P.Pos(ex.Complete.Pos())
			if at != nil {
				pos = c.P.InstrPos(at)
			}
			c.Bad(rule, key, "a target can complete successfully without being marked OutputsLoaded (for instance when the cache is disabled or the target is tagged no-cache and the mark is only set where the cache is written): under load_outputs=minimal every dependant then fails to load its outputs and runs it again, so one build executes the target more than once", pos)
		}
	}
}

// R03j: the worker slot is held until the command is gone. The bound counts tasks, and a task stands for a
// running command only if the command runner does not return before it has waited for the command.
func ruleCommandWaitedFor(c *Check, rule string) {
	c.Rule(rule, "the command runner starts the command with (*exec.Cmd).Run, or with Start followed on every path to its return by (*exec.Cmd).Wait in the same function (not in a goroutine): it never returns while the command can still be running", 1)
	ex := findExec(c, rule)
	if ex == nil {
		return
	}
	fn := ex.RunCommand
	key := "command-waited-for/" + c.P.FuncName(fn)
	starts := callsNamed(fn, "(*os/exec.Cmd).Start")
	runs := callsNamed(fn, "(*os/exec.Cmd).Run", "(*os/exec.Cmd).Output", "(*os/exec.Cmd).CombinedOutput")
	if len(starts) == 0 {
		if len(runs) > 0 {
			c.OK(rule, key, "the command is run synchronously (Run waits for it)", c.P.InstrPos(runs[0]))
		} else {
			c.Unknown(rule, key, "neither Run nor Start found in the command runner", c.P.Pos(fn.Pos()))
		}
		return
	}
	isWait := func(in ssa.Instruction) bool {
		call, ok := in.(*ssa.Call)
		return ok && engine.CalleeName(call) == "(*os/exec.Cmd).Wait"
	}
	isRet := func(in ssa.Instruction) bool { _, r := in.(*ssa.Return); return r && in.Parent() == fn }
	bad := ""
	for _, st := range starts {
		nonNil := engine.CutEdgesWhere(func(a engine.Atom) bool {
			if a.Op != "nonnil" {
				return false
			}
			for _, o := range engine.Origins(a.V) {
				if call, _ := engine.CallOf(o); call == st {
					return true
				}
			}
			return false
		})
		if r, at := engine.PathExists(fn, st, isRet, engine.PathQuery{CutInstr: isWait, CutEdge: nonNil, Shallow: true}); r {
			bad = "after Start succeeded the runner can return (" + c.P.InstrPos(at) + ") without having waited for the command"
		}
	}
	c.Require(bad == "", rule, key, "every return after a successful Start is preceded by Wait in the runner itself", bad+": the worker takes the next task while the command is still running (cleaning up after a timeout or an interrupt, say), so more than num_workers commands run at once", c.P.InstrPos(starts[0]))
}

// R03k: a task never waits for another task of its own pool. A task that submits work to the pool it runs on and
// waits for the result holds a worker while waiting for a free one; with every worker in that state the build
// never ends (and the nested command would not be counted by the bound the way the caller thinks).
func ruleNoPoolReentry(c *Check, rule string) {
	c.Rule(rule, "the pool's submit-and-wait function is not reachable from the tasks the pool's workers run", 1)
	p := findPool(c, rule)
	if p == nil || p.Run == nil || p.TaskCall == nil {
		return
	}
	tasks := c.G.CalleesOf(p.TaskCall)
	if len(tasks) == 0 {
		c.Unknown(rule, "no-pool-reentry", "the functions the worker invokes as tasks could not be resolved", c.P.InstrPos(p.TaskCall))
		return
	}
	reach := c.G.ReachableFuncs(tasks, nil)
	via := ""
	if reach[p.Run] {
		for f := range reach {
			for _, s := range engine.SitesIn(f) {
				for _, cal := range c.G.CalleesOf(s) {
					if cal == p.Run {
						via = c.P.FuncName(f) + " (" + c.P.InstrPos(s) + ")"
					}
				}
			}
		}
	}
	c.Require(!reach[p.Run], rule, "no-pool-reentry/"+c.P.FuncName(p.Run), "no task submits to the pool it runs on", "a task can submit another task to its own pool and wait for it (via "+via+"): the submitting worker is blocked until some other worker is free; once every worker is in that state the build hangs forever", c.P.Pos(p.Run.Pos()))
}
