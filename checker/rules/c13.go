package rules

import (
	"fmt"
	"go/constant"
	"strings"

	"golang.org/x/tools/go/ssa"

	"grogverif/engine"
)

func init() { register("C13", runC13) }

func runC13(c *Check, tier string) {
	c.Decides = "a cache hit is returned only on paths where the result was found, the taint query for this very target answered false, the target is not no-cache and the cache is enabled; the taint is cleared only after a successful completion of a tainted execution and only for that target; taints are written only by the taint command; when the cache is bypassed the output hash comes from the local outputs and is propagated; script targets always carry the no-cache tag."
	c.NotDec = "multi-invocation histories, the asynchronous taint removal racing the next build, whether outputs actually changed."
	g := analyseGate(c, "R13a")
	ruleR13a(c, g)
	ruleR13b(c, g, "R13b")
	ruleR13c(c, "R13c")
	ruleR13d(c)
	ruleRecordCacheIndependent(c, "R13e")
	// "dependants are invalidated only if the outputs changed": the output digest of a target does not depend
	// on the order in which its outputs were hashed
	shareRule(c, "R13f", "digests that are combined into an output hash are sorted before they are joined or written to a hasher (same obligations as R09a, output package)", 1, "R09a", func(sub *Check) { ruleR09a(sub) }, func(k string) bool {
		return strings.Contains(k, "/output.") || strings.Contains(k, "output.Registry") || strings.Contains(k, "output/handlers")
	})
	// a forced execution is an execution: its success is decided like any other
	// `grog taint` marks every selected target: a "seen" set must be keyed by the whole label
	ruleSkipSetKeyComplete(c, "R13i", "cmd/cmds", "caching")
	ruleTaintClearDeletes(c, "R13j")
	useFamily(c, "R13g", famExec, 10)
	shareRule(c, "R13h", "the output hash describes the outputs in their final state: the bin output is made executable before the registry call that hashes and stores the outputs (same obligation as R06i), so a re-execution that reproduces the same outputs reproduces the same hash", 1, "R06i", func(sub *Check) { ruleR06i(sub) }, nil)
	// round 7: a no-cache target (or any target of a cache-disabled build) that executed is never restored over
	shareRule(c, "R13k", "the completion function marks an executed target as materialised on every path to success, cached or not (same obligation as R03h): the dependency loader neither restores a stored record over what was just built nor runs it again", 1, "R03h", func(sub *Check) { ruleExecutedCountsAsLoaded(sub, "R03h") }, nil)
	// round 8: re-executing a target that reproduces its outputs reproduces its output hash: record lists are filled in a deterministic order
	shareRule(c, "R13l", "the lists of a persisted output record are filled sequentially, never from goroutines in completion order (same obligations as R09j): the digest of an unchanged directory output does not depend on scheduling", 1, "R09j", func(sub *Check) { ruleRecordListsFilledSequentially(sub, "R09j") }, nil)
	ruleRecordEntriesNotFromCompletionOrder(c, "R13m")
}

// ruleRecordCacheIndependent: nothing that is stored into the (hashed) output
// record may depend — by data or by control — on whether a blob already exists
// in the cache: re-executing a target that reproduces identical outputs must
// reproduce the identical output hash (early cut-off for its dependants).
func ruleRecordCacheIndependent(c *Check, rule string) {
	c.Rule(rule, "values stored into fields of the persisted output records by the file/directory handlers do not depend, by data flow or by being computed only on one branch of a cache-existence test, on the state of the cache (Cas.Exists / backend.Exists)", 6)
	_, wreach := handlerFuncs(c, "Write")
	inScope := func(fn *ssa.Function) bool {
		return wreach[fn] && engine.InPackage(fn, "output/handlers") && !strings.Contains(c.P.FuncName(engine.TopFunc(fn)), "Docker")
	}
	isExistsCall := func(call ssa.CallInstruction) bool {
		n := engine.CalleeName(call)
		return strings.HasSuffix(n, "caching.Cas).Exists") || strings.HasSuffix(n, "CacheBackend).Exists") || strings.HasSuffix(n, "TargetResultCache).Has")
	}
	existsAtom := func(a engine.Atom) bool {
		for _, o := range engine.Origins(a.V) {
			if call, _ := engine.CallOf(o); call != nil && isExistsCall(call) {
				return true
			}
		}
		return false
	}
	// control dependence on an existence test: some branch on an Exists-derived value has one
	// successor from which the instruction is unavoidable and another from which it can be avoided
	ctrlDep := func(in ssa.Instruction) bool {
		fn := in.Parent()
		isRet := func(x ssa.Instruction) bool { _, r := x.(*ssa.Return); return r }
		for _, b := range fn.Blocks {
			if len(b.Succs) != 2 {
				continue
			}
			a, ok := engine.EdgeAtom(b, 0)
			if !ok || !existsAtom(a) {
				continue
			}
			unavoidable := [2]bool{}
			reaches := [2]bool{}
			for i, sb := range b.Succs {
				first := sb.Instrs[0]
				canAvoid, _ := engine.PathExists(fn, first, isRet, engine.PathQuery{CutInstr: engine.IsInstr(in)})
				if isRet(first) {
					canAvoid = true
				}
				r, _ := engine.PathExists(fn, first, engine.IsInstr(in), engine.PathQuery{})
				reaches[i] = r || first == in
				unavoidable[i] = !canAvoid && reaches[i]
			}
			if (unavoidable[0] && !unavoidable[1]) || (unavoidable[1] && !unavoidable[0]) {
				return true
			}
		}
		return false
	}
	types_ := []string{"FileOutput", "DirectoryOutput", "Digest", "FileNode", "DirectoryNode", "SymlinkNode", "Tree", "Directory"}
	for _, tn := range types_ {
		t := c.P.Type("proto/gen", tn)
		if t == nil {
			continue
		}
		for _, key := range flattenFields(t) {
			for _, st := range storesToField(c, key) {
				if !inScope(st.Parent()) {
					continue
				}
				okey := "record-independent-of-cache/" + key.String() + "/" + c.P.FuncName(st.Parent())
				back := c.G.Backward([]Node{st.Val}, func(e *engine.Edge) bool {
					return e.Via != nil && inScope(e.Via.Parent()) && e.Kind != engine.EField && !isContentEdge(e)
				})
				bad := ""
				if ctrlDep(st) {
					bad = "the field is only stored on one branch of a cache-existence test"
				}
				for n, e := range back.Parent {
					if call, ok := n.(*ssa.Call); ok && isExistsCall(call) {
						bad = "the value derives from the result of " + engine.CalleeName(call)
					}
					if e != nil && e.Via != nil && inScope(e.Via.Parent()) && (e.Kind == engine.EExtWrite || e.Kind == engine.EStore || e.Kind == engine.EAssign) {
						if ctrlDep(e.Via) {
							bad = "a contribution to the value (" + c.P.InstrPos(e.Via) + ") is only made on one branch of a cache-existence test"
						}
					}
				}
				c.Require(bad == "", rule, okey, "independent of cache state", "the recorded (and hashed) value depends on whether blobs already exist in the cache — "+bad+": a re-executed target that reproduces identical outputs gets a different output hash, so its dependants are re-executed needlessly", c.P.InstrPos(st))
			}
		}
	}
}

func ruleR13a(c *Check, g *gateInfo) {
	c.Rule("R13a", "every path to `return dag.CacheHit` in the gate takes the branches: looked-up result non-nil, IsTainted(label of this target) false, SkipsCache() false, cache enabled (value derived from config EnableCache)", 5)
	if g == nil {
		return
	}
	gname := c.P.FuncName(g.Fn)
	if len(g.Hits) == 0 {
		c.Unknown("R13a", "hits/"+gname, "gate has no `return dag.CacheHit`", "-")
		return
	}
	type conj struct {
		name string
		pred func(engine.Atom) bool
		bad  string
	}
	skips := anchor(c, "R13a", "model", "Target", "SkipsCache")
	var conjs []conj
	conjs = append(conjs, conj{"result-found", atomFromCall("nonnil", 0, g.Lookup), "a cache hit can be returned although no result was loaded for the target's change hash"})
	if len(g.Tainted) > 0 {
		conjs = append(conjs, conj{"not-tainted", atomFromCall("false", 0, g.Tainted...), "a cache hit can be returned for a tainted target (the IsTainted answer is not on every hit path)"})
	} else {
		c.Bad("R13a", "not-tainted/"+gname, "the gate never asks the taint cache", c.P.Pos(g.Fn.Pos()))
	}
	if skips != nil {
		conjs = append(conjs, conj{"not-no-cache", atomCallTo(c, "false", skips, g.Target), "a cache hit can be returned for a target tagged no-cache"})
	}
	conjs = append(conjs, conj{"cache-enabled", atomDerivedFrom(c, "true", fk("config.WorkspaceConfig", "EnableCache")), "a cache hit can be returned although the cache is disabled (enable_cache=false)"})
	for _, cj := range conjs {
		ok, at := g.hitRequires(cj.pred)
		pos := c.P.Pos(g.Fn.Pos())
		if at != nil {
			pos = c.P.InstrPos(at)
		}
		c.Require(ok, "R13a", cj.name+"/"+gname, fmt.Sprintf("all %d hit returns are dominated by the %s branch", len(g.Hits), cj.name), cj.bad, pos)
	}
	// the taint query is about this target
	for _, t := range g.Tainted {
		args := t.Common().Args
		base, ok := fieldReadOn(args[len(args)-1], "Label")
		c.Require(ok && g.Target != nil && sameVar(base, g.Target), "R13a", "taint-query-own-label/"+gname,
			"IsTainted is asked about the label of the gate's own target", "IsTainted is asked about something other than the gate's own target label", c.P.InstrPos(t))
	}
}

func ruleR13b(c *Check, g *gateInfo, rule string) {
	c.Rule(rule, "TaintCache.Clear is reachable only from the executing method, only after the completion call returned nil, only when the target was tainted, and for the executed target's label; TaintCache.Taint is called only by the taint command on selected targets", 4)
	if g == nil {
		return
	}
	ex := g.Ex
	clear := anchor(c, rule, "caching", "TaintCache", "Clear")
	taint := anchor(c, rule, "caching", "TaintCache", "Taint")
	if clear == nil || taint == nil {
		return
	}
	callers := c.G.CallerFuncs(clear)
	okOwner := len(callers) > 0
	// the executing method itself, or a helper of its package that only the executing method (or such a
	// helper) calls
	var ownedBy func(f *ssa.Function, depth int) bool
	ownedBy = func(f *ssa.Function, depth int) bool {
		if engine.TopFunc(f) == ex.ExecMethod {
			return true
		}
		if depth > 2 || f.Pkg != ex.ExecMethod.Pkg {
			return false
		}
		cs := c.G.CallerFuncs(engine.TopFunc(f))
		if len(cs) == 0 {
			return false
		}
		for _, g := range cs {
			if !ownedBy(g, depth+1) {
				return false
			}
		}
		return true
	}
	for _, f := range callers {
		if !ownedBy(f, 0) {
			okOwner = false
		}
	}
	c.Require(okOwner, rule, "clear-owner", "TaintCache.Clear is called only inside "+c.P.FuncName(ex.ExecMethod), "TaintCache.Clear is called from "+names(c, callers)+" (expected only the executing method)", "-")
	// the site in ExecMethod leading to Clear
	sites := sitesReaching(c, ex.ExecMethod, fnSet(clear))
	completes := callsToFn(c, ex.ExecMethod, ex.Complete)
	if len(sites) == 0 || len(completes) == 0 {
		c.Unknown(rule, "clear-after-success", "no site leading to Clear, or no completion call, in the executing method", "-")
	}
	for _, s := range sites {
		_, isGo := s.(*ssa.Go)
		c.Require(!isGo, rule, "clear-synchronous/"+c.P.FuncName(ex.ExecMethod), "the taint is removed before the executing method returns", "the taint is removed in a goroutine that nothing waits for: when the build returns (and the process exits) before it ran, the taint survives the successful execution and the target is executed again by the next build", c.P.InstrPos(s))
		why := ""
		for _, cp := range completes {
			if w := onlyAfterSuccess(ex.ExecMethod, cp, s); w != "" {
				why = w
			}
		}
		c.Require(why == "", rule, "clear-after-success/"+c.P.FuncName(ex.ExecMethod), "the taint is cleared only after the completion (outputs + result stored) returned nil", "taint removal is "+why, c.P.InstrPos(s))
		// only when tainted: dominated by a true-branch on a bool parameter / IsTainted result
		okT := true
		taintedEdge := engine.CutEdgesWhere(func(a engine.Atom) bool {
			if a.Op != "true" {
				return false
			}
			for _, o := range engine.Origins(a.V) {
				if _, isParam := o.(*ssa.Parameter); isParam {
					return true
				}
				if call, _ := engine.CallOf(o); call != nil && strings.HasSuffix(engine.CalleeName(call), "TaintCache).IsTainted") {
					return true
				}
			}
			return false
		})
		if ok, _ := engine.PathExists(ex.ExecMethod, nil, engine.IsInstr(s), engine.PathQuery{CutEdge: taintedEdge}); ok {
			okT = false
			// the guard may sit in the helper that is handed the flag (`consumeTaint(ctx, target, wasTainted)`)
			if hc, isCall := s.(*ssa.Call); isCall {
				if h := hc.Call.StaticCallee(); h != nil && h != clear && len(h.Blocks) > 0 {
					inner := callsToFn(c, h, clear)
					guarded := len(inner) > 0
					for _, ic := range inner {
						if r, _ := engine.PathExists(h, nil, engine.IsInstr(ic), engine.PathQuery{CutEdge: taintedEdge, Shallow: true}); r {
							guarded = false
						}
					}
					okT = guarded
				}
			}
		}
		c.Require(okT, rule, "clear-only-if-tainted/"+c.P.FuncName(ex.ExecMethod), "the removal is guarded by the tainted flag", "the taint entry is removed even when the target was not tainted", c.P.InstrPos(s))
	}
	// Clear's label argument is the executed target's label
	for _, cs := range c.G.CallersOf(clear) {
		args := cs.Common().Args
		_, ok := fieldReadOn(args[len(args)-1], "Label")
		c.Require(ok, rule, "clear-own-label/"+c.P.FuncName(cs.Parent()), "Clear is given a target's .Label", "Clear is not given the label of the executed target", c.P.InstrPos(cs))
	}
	// who may taint
	runs := c.G.CobraRunFuncs()
	tcallers := c.G.CallerFuncs(taint)
	okTaint := len(tcallers) == 1
	for _, f := range tcallers {
		if _, isCmd := runs[c.P.FuncName(f)]; !isCmd {
			// a helper of the command: a function of the commands package that only command entry points call
			helper := engine.InPackage(f, "cmd/cmds")
			ups := c.G.CallerFuncs(f)
			if len(ups) == 0 {
				helper = false
			}
			for _, u := range ups {
				_, upIsCmd := runs[c.P.FuncName(u)]
				_, topIsCmd := runs[c.P.FuncName(engine.TopFunc(u))]
				if !upIsCmd && !topIsCmd {
					helper = false
				}
			}
			if !helper {
				okTaint = false
			}
		}
	}
	c.Require(okTaint, rule, "taint-owner", "TaintCache.Taint is called only from a command entry point ("+names(c, tcallers)+")", "TaintCache.Taint is called from "+names(c, tcallers)+"; only the taint command may write taints", "-")
}

// R13c: bypassing the cache still yields a local output hash that is propagated.
func ruleR13c(c *Check, rule string) {
	c.Rule(rule, "in the completion function the no-cache/disabled arm obtains the result from local hashing only (no blob upload reachable), and Target.OutputHash is assigned from the result on every path that reaches the result write", 2)
	ex := findExec(c, rule)
	if ex == nil {
		return
	}
	h := c.P.Type("output/handlers", "Handler")
	casWrite := c.P.Func("caching", "Cas", "Write")
	hashImpls := fnSet(methodImpls(c, h, "Hash")...)
	writeImpls := fnSet(methodImpls(c, h, "Write")...)
	skips := c.P.Func("model", "Target", "SkipsCache")
	var bypass []ssa.CallInstruction
	region := regionOf(c, ex.Complete)
	sites := regionSites(c, region)
	for _, s := range sites {
		cal := c.G.Callees[s]
		if len(cal) == 0 {
			continue
		}
		r := c.G.ReachableFuncs(cal, nil)
		if reachesAny(r, hashImpls) && !reachesAny(r, writeImpls) && !r[casWrite] {
			bypass = append(bypass, s)
		}
	}
	key := "bypass-hashes-locally/" + c.P.FuncName(ex.Complete)
	if len(bypass) == 0 {
		c.Bad(rule, key, "no call in the completion function computes the output hash from local outputs without uploading", "-")
	} else {
		// it must be the call taken when SkipsCache() is true or the cache is disabled
		ok1 := true
		if skips != nil {
			for _, b := range bypass {
				// cutting the SkipsCache-true and cache-disabled edges must make the bypass unreachable
				pred1 := atomCallTo(c, "true", skips, nil)
				pred2 := atomDerivedFrom(c, "false", fk("config.WorkspaceConfig", "EnableCache"))
				if ok, _ := engine.PathExists(ex.Complete, nil, engine.IsInstr(b), engine.PathQuery{DeepTo: true, CutEdge: engine.CutEdgesWhere(func(a engine.Atom) bool { return pred1(a) || pred2(a) })}); ok {
					ok1 = false
				}
				// and on the SkipsCache-true edge no uploading producer may be reachable before the write
			}
		}
		c.Require(ok1, rule, key, "the local-hash producer is reached exactly when SkipsCache() or the cache is disabled", "the local-hash producer is reachable on other paths than no-cache/disabled", c.P.InstrPos(bypass[0]))
		// uploading producers must not be reachable when the target skips the cache
		bad := ""
		for _, s := range sites {
			cal := c.G.Callees[s]
			if len(cal) == 0 {
				continue
			}
			r := c.G.ReachableFuncs(cal, nil)
			if !reachesAny(r, writeImpls) {
				continue
			}
			pred1 := atomCallTo(c, "false", skips, nil)
			pred2 := atomDerivedFrom(c, "true", fk("config.WorkspaceConfig", "EnableCache"))
			for _, p := range []func(engine.Atom) bool{pred1, pred2} {
				if ok, _ := engine.PathExists(ex.Complete, nil, engine.IsInstr(s), engine.PathQuery{DeepTo: true, CutEdge: engine.CutEdgesWhere(p)}); ok {
					bad = "outputs can be uploaded for a no-cache target or with the cache disabled (" + c.P.InstrPos(s) + ")"
				}
			}
		}
		c.Require(bad == "", rule, "no-upload-when-bypassed/"+c.P.FuncName(ex.Complete), "the uploading producer is only reachable when the target is cacheable and the cache is enabled", bad, "-")
	}
	// OutputHash propagated before the result write
	var writes []ssa.CallInstruction
	for _, s := range sites {
		for _, cal := range c.G.CalleesOf(s) {
			if cal == ex.Write {
				writes = append(writes, s)
			}
		}
	}
	if len(writes) == 0 {
		c.Unknown(rule, "output-hash-propagated/"+c.P.FuncName(ex.Complete), "no result write found in the completion function or its helpers", "-")
	}
	for _, w := range writes {
		isStore := func(in ssa.Instruction) bool {
			st, ok := in.(*ssa.Store)
			if !ok {
				return false
			}
			fa, ok := st.Addr.(*ssa.FieldAddr)
			if !ok || engine.FieldKeyOf(fa.X.Type(), fa.Field) != fk("model.Target", "OutputHash") {
				return false
			}
			_, fromResult := fieldReadOn(st.Val, "OutputHash")
			return fromResult
		}
		ok, _ := engine.PathExists(ex.Complete, nil, engine.IsInstr(w), engine.PathQuery{DeepTo: true, CutInstr: isStore})
		c.Require(!ok, rule, "output-hash-propagated/"+c.P.FuncName(ex.Complete), "every path to the result write first assigns Target.OutputHash from the result's OutputHash", "the result can be written without assigning Target.OutputHash from it: dependants would key on a stale or empty digest", c.P.InstrPos(w))
	}
}

func ruleR13d(c *Check) {
	c.Rule("R13d", "the script loader always puts the no-cache tag into the Tags of the target it builds", 1)
	load := anchor(c, "R13d", "loading", "ScriptLoader", "Load")
	k := c.P.Const("model", "TagNoCache")
	if load == nil || k == nil {
		return
	}
	want := constant.StringVal(k.Val())
	reach := c.G.ReachableFuncs([]*ssa.Function{load}, nil)
	found := false
	for _, st := range storesToField(c, fk("loading.TargetDTO", "Tags")) {
		if !reach[st.Parent()] {
			continue
		}
		found = true
		back := c.G.Backward([]Node{st.Val}, func(e *engine.Edge) bool { return e.Via != nil && reach[e.Via.Parent()] && e.Kind != engine.EField })
		has := false
		for n := range back.Parent {
			if cst, ok := n.(*ssa.Const); ok && cst.Value != nil && cst.Value.Kind() == constant.String && constant.StringVal(cst.Value) == want {
				has = true
			}
		}
		c.Require(has, "R13d", "script-no-cache/"+c.P.FuncName(st.Parent()), "the constant \""+want+"\" flows into the script target's Tags", "script targets are no longer forced to no-cache: the constant \""+want+"\" does not flow into their Tags", c.P.InstrPos(st))
	}
	if !found {
		c.Bad("R13d", "script-no-cache", "the script loader never sets Tags on the target it builds", "-")
	}
}
