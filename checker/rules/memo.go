package rules

import (
	"fmt"
	"go/types"
	"sort"
	"strings"

	"golang.org/x/tools/go/ssa"

	"grogverif/engine"
)

// Memo-key completeness (shared by several properties): where a function remembers a computed value in a
// long-lived table (`if v, ok := memo[k]; ok { return v }; ...; memo[k] = v`), every datum the remembered
// value is computed from must also be part of the key — otherwise the answer computed for one input is
// served for another. The rule compares, at the granularity of parameters and of fields read off
// parameters, what flows (SSA data dependence inside the function) into the stored value with what flows
// into the key. Ambient objects (contexts, loggers, the graph, caches, the memo itself) are not inputs.

type memoSite struct {
	local bool // the table is created by this call (a memo across the iterations of its loops)
	fn    *ssa.Function
	at    ssa.Instruction
	table ssa.Value
	key   ssa.Value
	val   ssa.Value
}

func ambientType(t types.Type) bool {
	// a value of a field-less struct type (a stateless loader used as a method namespace) carries no datum
	if st, ok := engine.Deref(t).Underlying().(*types.Struct); ok && st.NumFields() == 0 {
		return true
	}
	s := t.String()
	for _, a := range []string{"context.Context", "console.Logger", "zap.", "dag.DirectedTargetGraph", "sync.", "caching.", "backends.", "worker.", "func(", "testing."} {
		if strings.Contains(s, a) {
			return true
		}
	}
	return false
}

// elemCollections: for every "element of X" source seen by dataSources, the value X (analysis is sequential).
var elemCollections = map[string]ssa.Value{}

// dataSources: parameters (and fields read off parameters) the value depends on through SSA operands in fn.
func dataSources(fn *ssa.Function, v ssa.Value) map[string]bool {
	out := map[string]bool{}
	seen := map[ssa.Value]bool{}
	var walk func(v ssa.Value, d int)
	paramOf := func(x ssa.Value) *ssa.Parameter {
		for i := 0; i < 4; i++ {
			switch y := x.(type) {
			case *ssa.Parameter:
				return y
			case *ssa.UnOp:
				x = y.X
			case *ssa.FieldAddr:
				return nil
			default:
				return nil
			}
		}
		return nil
	}
	// elemOf: the value is the element of a collection being ranged over (`for _, e := range xs`)
	elemOf := func(x ssa.Value) (string, bool) {
		for i := 0; i < 3; i++ {
			switch y := x.(type) {
			case *ssa.Extract:
				if nx, ok := y.Tuple.(*ssa.Next); ok {
					if rg, ok := nx.Iter.(*ssa.Range); ok {
						name := "element of " + strings.TrimPrefix(engine.ExprKey(rg.X), "var:")
						elemCollections[name] = rg.X
						return name, true
					}
				}
				return "", false
			case *ssa.UnOp:
				if ia, ok := y.X.(*ssa.IndexAddr); ok {
					name := "element of " + strings.TrimPrefix(engine.ExprKey(ia.X), "var:")
					if _, isPhi := ia.Index.(*ssa.Phi); isPhi {
						elemCollections[name] = ia.X
						return name, true
					}
					if b, isBin := ia.Index.(*ssa.BinOp); isBin {
						if _, isPhi := b.X.(*ssa.Phi); isPhi {
							elemCollections[name] = ia.X
							return name, true
						}
					}
					return "", false
				}
				x = y.X
			default:
				return "", false
			}
		}
		return "", false
	}
	walk = func(v ssa.Value, d int) {
		if v == nil || seen[v] || d > 40 {
			return
		}
		seen[v] = true
		if name, ok := elemOf(v); ok && !ambientType(v.Type()) {
			out[name] = true
			return
		}
		switch x := v.(type) {
		case *ssa.Parameter:
			// a whole parameter counts when it is a value (string, number, slice, map, struct value);
			// objects handed around by reference (pointers, interfaces) are judged by the fields read off them
			switch x.Type().Underlying().(type) {
			case *types.Pointer, *types.Interface, *types.Signature, *types.Chan:
				return
			}
			if !ambientType(x.Type()) {
				out[x.Name()] = true
			}
			return
		case *ssa.Const, *ssa.Global, *ssa.Function, *ssa.Builtin, *ssa.FreeVar:
			return
		case *ssa.FieldAddr:
			if p := paramOf(x.X); p != nil {
				if !ambientType(p.Type()) && !ambientType(x.Type()) {
					out[p.Name()+"."+engine.FieldKeyOf(x.X.Type(), x.Field).F] = true
				}
				return
			}
			if name, ok := elemOf(x.X); ok {
				if !ambientType(x.Type()) {
					out[name+"."+engine.FieldKeyOf(x.X.Type(), x.Field).F] = true
				}
				return
			}
		case *ssa.Field:
			if p := paramOf(x.X); p != nil {
				if !ambientType(p.Type()) && !ambientType(x.Type()) {
					out[p.Name()+"."+engine.FieldKeyOf(x.X.Type(), x.Field).F] = true
				}
				return
			}
			if name, ok := elemOf(x.X); ok {
				if !ambientType(x.Type()) {
					out[name+"."+engine.FieldKeyOf(x.X.Type(), x.Field).F] = true
				}
				return
			}
		case *ssa.UnOp:
			if _, isAlloc := x.X.(*ssa.Alloc); isAlloc {
				for _, o := range engine.Origins(x) {
					if o != nil && o != ssa.Value(x) {
						walk(o, d+1)
					}
				}
				return
			}
		}
		in, ok := v.(ssa.Instruction)
		if !ok {
			return
		}
		for _, op := range in.Operands(nil) {
			if op != nil && *op != nil {
				walk(*op, d+1)
			}
		}
		// values built up in a local map: the keys and values put into it
		if mk, ok := v.(*ssa.MakeMap); ok {
			for _, ref := range *mk.Referrers() {
				if mu, ok := ref.(*ssa.MapUpdate); ok && mu.Map == ssa.Value(mk) {
					walk(mu.Key, d+1)
					walk(mu.Value, d+1)
				}
			}
		}
		// values built up in a local slice/map/array: what was stored into it
		if al, ok := v.(*ssa.Alloc); ok {
			for _, ref := range *al.Referrers() {
				if st, ok := ref.(*ssa.Store); ok && st.Addr == ssa.Value(al) {
					walk(st.Val, d+1)
				}
				if ia, ok := ref.(*ssa.IndexAddr); ok {
					for _, r2 := range *ia.Referrers() {
						if st, ok := r2.(*ssa.Store); ok && st.Addr == ssa.Value(ia) {
							walk(st.Val, d+1)
						}
					}
				}
			}
		}
	}
	walk(v, 0)
	return out
}

func findMemoSites(c *Check, inScope func(*ssa.Function) bool) []memoSite {
	var out []memoSite
	longLived := func(fn *ssa.Function, m ssa.Value) bool {
		for _, o := range engine.Origins(m) {
			switch x := o.(type) {
			case nil:
				return false
			case *ssa.MakeMap:
				return false // a table of this call only (handled as a loop memo)
			case *ssa.Parameter, *ssa.Global, *ssa.FreeVar:
				_ = x
			case *ssa.UnOp:
				if _, isField := x.X.(*ssa.FieldAddr); !isField {
					if _, isGlobal := x.X.(*ssa.Global); !isGlobal {
						if _, isFree := x.X.(*ssa.FreeVar); !isFree {
							return false
						}
					}
				}
			case *ssa.FieldAddr:
			default:
				return false
			}
		}
		return true
	}
	trivial := func(v ssa.Value) bool {
		if mi, ok := v.(*ssa.MakeInterface); ok {
			v = mi.X
		}
		if _, ok := v.(*ssa.Const); ok {
			return true
		}
		if st, ok := v.Type().Underlying().(*types.Struct); ok && st.NumFields() == 0 {
			return true
		}
		return false
	}
	for _, fn := range c.P.Funcs {
		if !inScope(fn) {
			continue
		}
		// the memo pattern: what the function returns can come straight out of the table
		reads := func(table ssa.Value) bool {
			isTableRead := func(v ssa.Value) bool {
				switch x := v.(type) {
				case *ssa.Lookup:
					return sameVar(x.X, table) || engine.ExprKey(x.X) == engine.ExprKey(table)
				case *ssa.Call:
					n := engine.CalleeName(x)
					return (n == "(*sync.Map).Load" || n == "(*sync.Map).LoadOrStore") && engine.ExprKey(x.Call.Args[0]) == engine.ExprKey(table)
				}
				return false
			}
			for _, r := range engine.Returns(fn) {
				for _, res := range r.Results {
					seen := map[ssa.Value]bool{}
					var walk func(v ssa.Value, d int) bool
					walk = func(v ssa.Value, d int) bool {
						if v == nil || seen[v] || d > 12 {
							return false
						}
						seen[v] = true
						if isTableRead(v) {
							return true
						}
						switch x := v.(type) {
						case *ssa.Extract:
							return walk(x.Tuple, d+1)
						case *ssa.Phi:
							for _, e := range x.Edges {
								if walk(e, d+1) {
									return true
								}
							}
						case *ssa.TypeAssert:
							return walk(x.X, d+1)
						case *ssa.ChangeType:
							return walk(x.X, d+1)
						case *ssa.MakeInterface:
							return walk(x.X, d+1)
						case *ssa.UnOp:
							for _, o := range engine.Origins(x) {
								if o != nil && o != ssa.Value(x) && walk(o, d+1) {
									return true
								}
							}
						}
						return false
					}
					if walk(res, 0) {
						return true
					}
				}
			}
			return false
		}
		for _, b := range fn.Blocks {
			for _, in := range b.Instrs {
				switch x := in.(type) {
				case *ssa.MapUpdate:
					if longLived(fn, x.Map) && !trivial(x.Value) && reads(x.Map) {
						out = append(out, memoSite{false, fn, x, x.Map, x.Key, x.Value})
					} else if isLocalMap(x.Map) && !trivial(x.Value) && engine.InLoop(x) && loopMemo(fn, x) {
						out = append(out, memoSite{true, fn, x, x.Map, x.Key, x.Value})
					}
				case *ssa.Call:
					n := engine.CalleeName(x)
					if (n == "(*sync.Map).Store" || n == "(*sync.Map).LoadOrStore") && len(x.Call.Args) == 3 && !trivial(x.Call.Args[2]) && reads(x.Call.Args[0]) {
						out = append(out, memoSite{false, fn, x, x.Call.Args[0], x.Call.Args[1], x.Call.Args[2]})
					}
				}
			}
		}
	}
	sort.Slice(out, func(i, j int) bool { return out[i].at.Pos() < out[j].at.Pos() })
	return out
}

func isLocalMap(m ssa.Value) bool {
	orig := engine.Origins(m)
	if len(orig) == 0 {
		return false
	}
	for _, o := range orig {
		if _, ok := o.(*ssa.MakeMap); !ok {
			return false
		}
	}
	return true
}

// loopMemo: inside the same loop the table is consulted with a comma-ok lookup whose hit value is used in
// place of the computation that feeds the update (the stored value and the looked-up value merge in a phi
// or in one local variable).
func loopMemo(fn *ssa.Function, mu *ssa.MapUpdate) bool {
	lp := engine.LoopOf(mu)
	if lp == nil {
		return false
	}
	for b := range lp.Body {
		for _, in := range b.Instrs {
			lk, ok := in.(*ssa.Lookup)
			if !ok || !lk.CommaOk || !(sameVar(lk.X, mu.Map) || lk.X == mu.Map) {
				continue
			}
			// the hit value and the stored value meet: some phi (or local cell) has both among its origins
			var hit ssa.Value
			for _, ref := range *lk.Referrers() {
				if ex, ok := ref.(*ssa.Extract); ok && ex.Index == 0 {
					hit = ex
				}
			}
			if hit == nil {
				continue
			}
			for bb := range lp.Body {
				for _, in2 := range bb.Instrs {
					v, ok := in2.(ssa.Value)
					if !ok {
						continue
					}
					var hasHit, hasVal bool
					for _, o := range engine.Origins(v) {
						if o == hit {
							hasHit = true
						}
						for _, vo := range engine.Origins(mu.Value) {
							if o != nil && o == vo {
								hasVal = true
							}
						}
					}
					if hasHit && hasVal {
						return true
					}
				}
			}
		}
	}
	return false
}

// ruleMemoKeyComplete: scope = package predicate of the property that shares the rule.
func ruleMemoKeyComplete(c *Check, rule string, pkgs ...string) {
	c.Rule(rule, "wherever a function of "+strings.Join(pkgs, ", ")+" stores a computed value in a long-lived table that it also consults (a memo), every parameter (or field read off a parameter) the stored value is computed from also flows into the key", 0)
	inScope := func(fn *ssa.Function) bool {
		for _, p := range pkgs {
			if engine.InPackage(fn, p) {
				return true
			}
		}
		return false
	}
	sites := findMemoSites(c, inScope)
	for _, m := range sites {
		sv, sk := dataSources(m.fn, m.val), dataSources(m.fn, m.key)
		var missing []string
		for s := range sv {
			if sk[s] {
				continue
			}
			if m.local && !strings.HasPrefix(s, "element of ") {
				continue // a table of this call: what does not vary between its entries need not be in the key
			}
			tk := strings.TrimPrefix(engine.ExprKey(m.table), "var:")
			if tk == s || strings.Contains(s, "element of "+tk) || strings.Contains(s, "element of *"+tk) {
				continue // the table itself, or what was read out of it
			}
			if strings.Contains(s, "global:") {
				continue // process-wide configuration is ambient
			}
			// a field of the memo's own receiver that is only ever set when the object is constructed
			if m.fn.Signature.Recv() != nil && len(m.fn.Params) > 0 && strings.HasPrefix(s, m.fn.Params[0].Name()+".") {
				tkey := engine.TypeKey(m.fn.Params[0].Type())
				fname := strings.TrimPrefix(s, m.fn.Params[0].Name()+".")
				mutable := false
				for _, w := range storesToField(c, engine.FieldKey{T: tkey, F: fname}) {
					if !isConstructorOf(w.Parent(), tkey) {
						mutable = true
					}
				}
				if !mutable {
					continue
				}
			}
			if i := strings.Index(s, "."); i > 0 && sk[s[:i]] {
				continue // the whole parameter is in the key
			}
			// the whole parameter in the value but only some of its fields in the key is judged field by field:
			// a whole-parameter dependence that the key lacks entirely is reported
			missing = append(missing, s)
		}
		sort.Strings(missing)
		tname := strings.TrimPrefix(engine.ExprKey(m.table), "var:")
		if m.local {
			tname = "local-table"
		}
		key := "memo-key-complete/" + c.P.FuncName(m.fn) + "/" + tname
		c.Require(len(missing) == 0, rule, key, fmt.Sprintf("the remembered value depends on %v, all of which are part of the key", keysOf(sv)), fmt.Sprintf("the remembered value depends on %v but the key only on %v: a value computed for one %s is served for another", missing, keysOf(sk), strings.Join(missing, "/")), c.P.InstrPos(m.at))
	}
	if len(sites) == 0 {
		c.OK(rule, "memo-key-complete/none", "no memo table in "+strings.Join(pkgs, ", "), "-")
	}
}

func keysOf(m map[string]bool) []string {
	var out []string
	for k := range m {
		out = append(out, k)
	}
	sort.Strings(out)
	return out
}

// ruleDerivedFieldFresh: a method that fills a field of its receiver on first use from other fields of the
// same struct (`if w.platform == "" { w.platform = w.OS + "/" + w.Arch }`) returns a stale answer as soon
// as one of those source fields is assigned afterwards. Reported when a source field has an assignment
// outside the constructors of the struct (it is mutable configuration, not construction-time data).
func ruleDerivedFieldFresh(c *Check, rule string, pkgs ...string) {
	c.Rule(rule, "no method of "+strings.Join(pkgs, ", ")+" caches in a receiver field a value derived from other fields of the receiver that are assigned elsewhere after construction", 0)
	n := 0
	for _, fn := range c.P.Funcs {
		ok := false
		for _, p := range pkgs {
			if engine.InPackage(fn, p) {
				ok = true
			}
		}
		if !ok || fn.Signature.Recv() == nil || len(fn.Params) == 0 {
			continue
		}
		recv := fn.Params[0]
		if _, isPtr := recv.Type().Underlying().(*types.Pointer); !isPtr {
			continue
		}
		for _, b := range fn.Blocks {
			for _, in := range b.Instrs {
				st, ok := in.(*ssa.Store)
				if !ok {
					continue
				}
				fa, ok := st.Addr.(*ssa.FieldAddr)
				if !ok || fa.X != ssa.Value(recv) {
					continue
				}
				fkey := engine.FieldKeyOf(fa.X.Type(), fa.Field)
				// guarded by "this field is still empty"
				empty := engine.CutEdgesWhere(func(a engine.Atom) bool {
					if !isLoadOfField(a.V, fkey) {
						return false
					}
					switch a.Op {
					case "nil", "false":
						return true
					case "eq":
						k, isK := a.Other.(*ssa.Const)
						return isK && isZeroConst(k)
					}
					return false
				})
				if r, _ := engine.PathExists(fn, nil, engine.IsInstr(st), engine.PathQuery{CutEdge: empty, Shallow: true}); r {
					continue // an ordinary setter
				}
				// and the function hands the field's value out
				src := dataSources(fn, st.Val)
				var stale []string
				for s := range src {
					if !strings.HasPrefix(s, recv.Name()+".") {
						continue
					}
					g := strings.TrimPrefix(s, recv.Name()+".")
					if g == fkey.F {
						continue
					}
					gk := engine.FieldKey{T: fkey.T, F: g}
					for _, w := range storesToField(c, gk) {
						if w.Parent() != fn && !isConstructorOf(w.Parent(), fkey.T) {
							stale = append(stale, g+" (assigned in "+c.P.FuncName(w.Parent())+")")
							break
						}
					}
				}
				n++
				sort.Strings(stale)
				c.Require(len(stale) == 0, rule, "derived-field-fresh/"+c.P.FuncName(fn)+"/"+fkey.F, "the lazily filled field is derived only from construction-time data", "the field is filled once from "+strings.Join(stale, ", ")+": a later assignment of that source (a command-line override applied after the first call, say) is not reflected, callers keep getting the first answer", c.P.InstrPos(st))
			}
		}
	}
	if n == 0 {
		c.OK(rule, "derived-field-fresh/none", "no lazily derived receiver field in "+strings.Join(pkgs, ", "), "-")
	}
}

// ruleSkipSetKeyComplete: a loop that skips the rest of an iteration when a key is already in a set
// (`if _, done := seen[k]; done { continue }` ... `seen[k] = struct{}{}`) may only skip work that is a function
// of k: if the skipped part of the body also uses the element of an enclosing loop (or another datum that
// varies between iterations) that is not part of k, the verdict reached for one pair is reused for another.
func ruleSkipSetKeyComplete(c *Check, rule string, pkgs ...string) {
	c.Rule(rule, "in "+strings.Join(pkgs, ", ")+": where a loop iteration is skipped because its key is already in a set, everything the skipped part of the body computes from loop elements is computed from elements that are part of that key", 0)
	n := 0
	for _, fn := range c.P.Funcs {
		ok := false
		for _, p := range pkgs {
			if engine.InPackage(fn, p) {
				ok = true
			}
		}
		if !ok {
			continue
		}
		for _, lp := range engine.LoopsOf(fn) {
			for b := range lp.Body {
				ifi, isIf := lastIf(b)
				if !isIf {
					continue
				}
				// hit edge: comma-ok of a lookup is true and leads straight back to the loop header
				a := engine.CondAtom(ifi.Cond, true)
				var lk *ssa.Lookup
				if ex, isEx := a.V.(*ssa.Extract); isEx && ex.Index == 1 {
					if l, isLk := ex.Tuple.(*ssa.Lookup); isLk && l.CommaOk {
						lk = l
					}
				} else if l, isLk := a.V.(*ssa.Lookup); isLk && !l.CommaOk {
					// `if seen[key]` on a map[K]bool
					if m, ok := l.X.Type().Underlying().(*types.Map); ok {
						if b, ok := m.Elem().Underlying().(*types.Basic); ok && b.Kind() == types.Bool {
							lk = l
						}
					}
				}
				if lk == nil {
					continue
				}
				hitIdx := 0
				if a.Op == "false" {
					hitIdx = 1
				} else if a.Op != "true" {
					continue
				}
				hit, miss := b.Succs[hitIdx], b.Succs[1-hitIdx]
				if hit != lp.Header && !(len(hit.Instrs) == 1 && len(hit.Succs) == 1 && hit.Succs[0] == lp.Header) {
					continue
				}
				// the set is filled (with a trivial value) in the same loop
				filled := false
				for bb := range lp.Body {
					for _, in := range bb.Instrs {
						if mu, ok := in.(*ssa.MapUpdate); ok && (sameVar(mu.Map, lk.X) || mu.Map == lk.X) {
							if st, ok := mu.Value.Type().Underlying().(*types.Struct); ok && st.NumFields() == 0 {
								filled = true
							}
							if _, isConst := mu.Value.(*ssa.Const); isConst {
								filled = true
							}
						}
					}
				}
				if !filled {
					continue
				}
				n++
				keySrc := dataSources(fn, lk.Index)
				// the skipped region: blocks of the loop reachable from the miss edge without passing the header
				region := engine.ReachableWithin(miss, lp.Body, lp.Header)
				used := map[string]bool{}
				for rb := range region {
					for _, in := range rb.Instrs {
						switch x := in.(type) {
						case *ssa.If:
							for s := range dataSources(fn, x.Cond) {
								used[s] = true
							}
						case ssa.CallInstruction:
							if isLogOrErrCall(engine.CalleeName(x)) {
								continue
							}
							for _, arg := range x.Common().Args {
								for s := range dataSources(fn, arg) {
									used[s] = true
								}
							}
							if x.Common().IsInvoke() {
								for s := range dataSources(fn, x.Common().Value) {
									used[s] = true
								}
							}
						}
					}
				}
				// a set that is created inside an enclosing loop lives for one iteration of that loop: the
				// enclosing loop's element is a constant for the set, not part of what it has to be keyed by
				outerElems := map[string]bool{}
				for _, o := range engine.Origins(lk.X) {
					mk, isMk := o.(*ssa.MakeMap)
					if !isMk || lp.Body[mk.Block()] {
						continue
					}
					for _, ol := range engine.LoopsOf(fn) {
						if ol.Header != lp.Header && ol.Body[mk.Block()] && ol.Body[lp.Header] && ol.RangedValue() != nil {
							outerElems["element of "+strings.TrimPrefix(engine.ExprKey(ol.RangedValue()), "var:")] = true
						}
					}
				}
				var missing []string
				for s := range used {
					if !strings.HasPrefix(s, "element of ") || keySrc[s] {
						continue
					}
					isOuter := false
					for oe := range outerElems {
						if s == oe || strings.HasPrefix(s, oe+".") {
							isOuter = true
						}
					}
					if isOuter {
						continue
					}
					covered := false
					for k := range keySrc {
						if strings.HasPrefix(s, k+".") {
							covered = true
						}
						// a node's full label is its identity: a set keyed by it covers the node
						if strings.HasPrefix(k, s+".") && engine.TypeKey(lk.Index.Type()) == "label.TargetLabel" {
							covered = true
						}
					}
					tk := strings.TrimPrefix(engine.ExprKey(lk.X), "var:")
					if covered || strings.Contains(s, "element of "+tk) {
						continue
					}
					// an element of a collection that is itself a function of the key
					base := s
					if i := strings.Index(s[len("element of "):], "."); i >= 0 && elemCollections[s] == nil {
						base = s[:len("element of ")+i]
					}
					if coll := elemCollections[base]; coll != nil {
						// what another table holds under the very same key is a function of the key
						derived := false
						for _, o := range engine.Origins(coll) {
							var lk2 *ssa.Lookup
							switch x := o.(type) {
							case *ssa.Lookup:
								lk2 = x
							case *ssa.Extract:
								lk2, _ = x.Tuple.(*ssa.Lookup)
							}
							if lk2 != nil && engine.ExprKey(lk2.Index) == engine.ExprKey(lk.Index) {
								derived = true
							}
							// ... also when that table is read through an accessor: a call whose only
							// loop-variant argument is the key
							if call, _ := engine.CallOf(o); call != nil && lk2 == nil {
								if h := call.Common().StaticCallee(); h != nil && engine.IsFirstParty(pkgPathOf(h)) {
									keyed, others := false, true
									for _, arg := range call.Common().Args {
										if engine.ExprKey(arg) == engine.ExprKey(lk.Index) {
											keyed = true
											continue
										}
										if in, isInstr := arg.(ssa.Instruction); isInstr && lp.Body[in.Block()] {
											others = false
										}
									}
									if keyed && others {
										derived = true
									}
								}
							}
						}
						// ... and so is a collection computed from the keyed element itself (its descendants, say)
						if !derived {
							all, any := true, false
							for cs := range dataSources(fn, coll) {
								if !strings.HasPrefix(cs, "element of ") {
									continue
								}
								any = true
								ok := keySrc[cs]
								for k := range keySrc {
									if strings.HasPrefix(cs, k+".") || cs == k {
										ok = true
									}
									if strings.HasPrefix(k, cs+".") && engine.TypeKey(lk.Index.Type()) == "label.TargetLabel" {
										ok = true
									}
								}
								if !ok {
									all = false
								}
							}
							if any && all {
								derived = true
							}
						}
						if derived {
							continue
						}
					}
					missing = append(missing, s)
				}
				sort.Strings(missing)
				c.Require(len(missing) == 0, rule, "skip-set-key-complete/"+c.P.FuncName(fn), "what the skipped part of the iteration computes depends only on the key of the set", fmt.Sprintf("an iteration is skipped because %v is already in the set, but the skipped work also depends on %v: the outcome recorded for one combination is assumed for every other", keysOf(keySrc), missing), c.P.InstrPos(lk))
			}
		}
	}
	if n == 0 {
		c.OK(rule, "skip-set-key-complete/none", "no skip-if-seen set in a loop of "+strings.Join(pkgs, ", "), "-")
	}
}
