package rules

import (
	"fmt"
	"go/types"
	"sort"
	"strings"

	"golang.org/x/tools/go/ssa"

	"grogverif/engine"
)

func init() { register("C12", runC12) }

func runC12(c *Check, tier string) {
	c.Decides = "only the selection package (and the display-only graph command) marks nodes as selected; the build selector selects a matched node and then, for every element of its full dependency list (aliases included), either fails or selects it and recurses; the platform mismatch arm fails before selecting; the build command uses that closing selector before executing and treats its error as fatal; the walker spawns routines only for selected nodes; a target matches only if the type, pattern and tag filters hold and the exclude-tag filter does not."
	c.NotDec = "pattern/label string semantics (C17) and the platform string comparison itself."
	ruleR12a(c)
	ruleR12b(c)
	ruleR12c(c)
	c.Rule("R12d", "the walker spawns node routines only under GetIsSelected()", 1)
	if w := findWalker(c, "R12d"); w != nil {
		for _, g := range w.Spawns {
			reach := !spawnOnlyForSelected(g.Parent(), g)
			c.Require(!reach, "R12d", "run-only-selected/"+c.P.FuncName(g.Parent()), "routines are spawned only for selected nodes (GetIsSelected() branch, or membership in the registry that is filled only under it)", "a routine (and therefore the callback / command) can be started for a node that was not selected", c.P.InstrPos(g))
		}
	}
	ruleR12e(c)
	ruleR12f(c)
	// the platform filter reads the configuration through accessors: they must not cache stale answers
	ruleDerivedFieldFresh(c, "R12h", "config", "selection", "label")
	ruleMemoKeyComplete(c, "R12i", "config", "selection", "label")
	// every package file that is loaded takes part in the selection: none is lost in the loader's table
	shareRule(c, "R12j", "the loader's shared package table loses no package: lookup and insert are one critical section (same obligation as R16l)", 1, "R16l", func(sub *Check) { ruleTableInsertAtomic(sub, "R16l") }, nil)
	// the dependency lists the closure follows are the declared ones: nobody writes through them
	ruleAdjacencyNotAliased(c, "R12l")
	ruleTagSidesTreatedAlike(c, "R12m")
	// round 7: what matches a pattern is decided by the pattern's own matcher
	rulePatternsDecidedByMatcher(c, "R12o")
}

// R12f: the platform predicate is exact membership.
func ruleR12f(c *Check) {
	c.Rule("R12f", "the platform predicate compares the host platform with the target's platform selectors by equality / slices.Contains only (no prefix, substring or pattern matching: `linux/arm` must not match a `linux/arm64` host)", 1)
	found := false
	for _, fn := range c.P.Funcs {
		if !engine.InPackage(fn, "selection") || fn.Parent() != nil {
			continue
		}
		if !readsField(c, fn, fk("model.Target", "Platforms")) {
			continue
		}
		found = true
		reach := c.G.ReachableFuncs([]*ssa.Function{fn}, func(f *ssa.Function) bool { return !engine.InPackage(f, "selection") })
		var bad []string
		for f := range reach {
			if !engine.InPackage(f, "selection") {
				continue
			}
			for _, s := range engine.SitesIn(f) {
				n := engine.CalleeName(s)
				switch n {
				case "strings.HasPrefix", "strings.HasSuffix", "strings.Contains", "strings.EqualFold", "strings.Index", "path.Match", "path/filepath.Match", "strings.ContainsAny", "(*regexp.Regexp).MatchString", "regexp.MatchString":
					bad = append(bad, n+" at "+c.P.InstrPos(s))
				}
			}
		}
		sort.Strings(bad)
		c.Require(len(bad) == 0, "R12f", "platform-exact-match/"+c.P.FuncName(fn), "platform selectors are compared by equality only", "platform selectors are matched loosely ("+strings.Join(bad, ", ")+"): a selector can match a different platform that merely shares a prefix/substring, so an incompatible target is selected (and an incompatible dependency is not reported)", c.P.Pos(fn.Pos()))
	}
	if !found {
		c.Unknown("R12f", "platform-exact-match", "anchor-unresolved: no function in internal/selection reads Target.Platforms", "-")
	}
}

func ruleR12a(c *Check) {
	c.Rule("R12a", "BuildNode.Select() is called, and IsSelected fields are stored, only in internal/selection, the Select methods themselves and the display-only graph command", 3)
	allowed := func(fn *ssa.Function) (bool, string) {
		top := engine.TopFunc(fn)
		switch {
		case engine.InPackage(top, "selection"):
			return true, "selection package"
		case engine.InPackage(top, "model") && top.Name() == "Select":
			return true, "the Select method"
		case engine.InPackage(top, "cmd/cmds"):
			// display-only selection: no command from which this code is reachable can also start the executor
			if displayOnly(c, fn) {
				return true, "a command that never starts the executor (selection for display only)"
			}
		}
		return false, ""
	}
	for _, s := range c.G.Sites {
		cc := s.Common()
		isSel := false
		if cc.IsInvoke() && cc.Method.Name() == "Select" && engine.TypeKey(cc.Value.Type()) == "model.BuildNode" {
			isSel = true
		}
		if sc := cc.StaticCallee(); sc != nil && sc.Name() == "Select" && engine.InPackage(sc, "model") {
			isSel = true
		}
		if !isSel {
			continue
		}
		ok, why := allowed(s.Parent())
		c.Require(ok, "R12a", "select-owner/"+c.P.FuncName(s.Parent()), "selection performed by its owner: "+why, "a node is marked selected outside the selection package: it would be built although no pattern/closure selected it", c.P.InstrPos(s))
	}
	for _, key := range []engine.FieldKey{fk("model.Target", "IsSelected"), fk("model.Alias", "IsSelected")} {
		for _, st := range storesToField(c, key) {
			// composite literals in loaders copying a zero value are not selections
			if k, ok := engine.BoolConst(st.Val); ok && !k {
				continue
			}
			ok, why := allowed(st.Parent())
			c.Require(ok, "R12a", "select-owner/"+c.P.FuncName(st.Parent())+"/"+key.String(), "IsSelected stored by "+why, "IsSelected is set outside the selection package", c.P.InstrPos(st))
		}
	}
}

// displayOnly: every CLI entry point that can reach fn cannot reach Executor.Execute.
func displayOnly(c *Check, fn *ssa.Function) bool {
	exec := c.P.Func("execution", "Executor", "Execute")
	n := 0
	for _, root := range c.G.CobraRunFuncs() {
		r := c.G.ReachableFuncs([]*ssa.Function{root}, nil)
		if !r[fn] && !r[engine.TopFunc(fn)] && root != fn {
			continue
		}
		n++
		if exec != nil && r[exec] {
			return false
		}
	}
	return n > 0
}

func isGraphCommand(c *Check, fn *ssa.Function) bool {
	for name, f := range cobraCommands(c) {
		if f == fn && name == "graph" {
			return true
		}
	}
	return false
}

func ruleR12b(c *Check) {
	c.Rule("R12b", "in the build selector every Select() of a matched node is followed by the ancestor-selection call on the same node whose error is returned; the ancestor function ranges over the node's full dependency list (GetDependencies, not a type-filtered view) and on each iteration returns an error or selects the element and recurses (or finds it already selected); a platform mismatch returns before selecting", 3)
	getDeps := anchor(c, "R12b", "dag", "DirectedTargetGraph", "GetDependencies")
	if getDeps == nil {
		return
	}
	// the ancestor function: in selection, recursive, ranges over dependencies
	var anc *ssa.Function
	for _, t := range findTraversals(c) {
		if engine.InPackage(t.Fn, "selection") {
			anc = t.Fn
		}
	}
	if anc == nil {
		c.Unknown("R12b", "anchor/ancestor-selection", "anchor-unresolved: no recursive traversal over dependencies in internal/selection", "-")
		return
	}
	aname := c.P.FuncName(anc)
	// (1) the top-level selector
	var closers []*ssa.Function
	for _, fn := range c.P.Funcs {
		if engine.InPackage(fn, "selection") && fn != anc && len(sitesReaching(c, fn, fnSet(anc))) > 0 && len(selectCalls(fn)) > 0 {
			closers = append(closers, fn)
		}
	}
	sort.Slice(closers, func(i, j int) bool { return c.P.FuncName(closers[i]) < c.P.FuncName(closers[j]) })
	for _, fn := range closers {
		fname := c.P.FuncName(fn)
		for _, sel := range selectCalls(fn) {
			node := selReceiver(sel)
			okFollow := false
			for _, ac := range sitesReaching(c, fn, fnSet(anc)) {
				args := ac.Common().Args
				hasNode := false
				for _, a := range args {
					if sameVar(a, node) || engine.ExprKey(a) == engine.ExprKey(node) {
						hasNode = true
					}
				}
				if !hasNode {
					continue
				}
				// every path from the Select to a success return passes the ancestor call, and its error is not dropped
				r1, _ := engine.PathExists(fn, sel, successReturn, engine.PathQuery{CutInstr: engine.IsInstr(ac)})
				r2, _ := engine.PathExists(fn, ac, successReturn, engine.PathQuery{CutEdge: engine.NilErrEdgesOf(ac)})
				if !r1 && !r2 {
					okFollow = true
				}
			}
			c.Require(okFollow, "R12b", "select-then-close/"+fname, "a selected node's dependency closure is selected (or the selection fails) before success is returned", "a matched node can be selected without its dependency closure being selected: the build would run it with missing dependencies or block", c.P.InstrPos(sel))
		}
	}
	// (2) the ancestor function
	var lp *engine.Loop
	var recSite ssa.CallInstruction
	for _, t := range findTraversals(c) {
		if t.Fn == anc {
			lp = t.Loop
			recSite = t.Site.(ssa.CallInstruction)
		}
	}
	rng, _ := engine.CallOf(lp.RangedValue())
	fullDeps := false
	if rng != nil {
		for _, f := range c.G.Callees[rng] {
			if f == getDeps {
				fullDeps = true
			}
		}
	}
	if isLoadOfFieldDeep(lp.RangedValue(), fInEdges) {
		fullDeps = true
	}
	// an explicit stack of frames: the neighbour list kept in a pushed frame is GetDependencies(node)
	if app, ok := recSite.(*ssa.Call); ok && !fullDeps {
		for _, a := range app.Call.Args[1:] {
			for _, fv := range frameFieldValues(a) {
				if call, _ := engine.CallOf(fv); call != nil {
					for _, f := range c.G.Callees[call] {
						if f == getDeps {
							fullDeps = true
						}
					}
				}
			}
		}
	}
	c.Require(fullDeps, "R12b", "closure-over-all-dependencies/"+aname, "the closure ranges over GetDependencies(node): every dependency kind, aliases included", "the dependency closure ranges over a filtered view of the dependencies (e.g. targets only): a dependency reached through an alias is not selected and platform errors behind it are missed", c.P.InstrPos(recSite))
	// each iteration: error return, or Select(elem) + recursion, or already selected
	sels := selectCalls(anc)
	isSel := func(in ssa.Instruction) bool {
		for _, s := range sels {
			if in == ssa.Instruction(s) {
				return true
			}
		}
		return false
	}
	toHeader := func(in ssa.Instruction) bool { return in == lp.Header.Instrs[0] }
	seenCut := engine.CutEdgesWhere(func(a engine.Atom) bool {
		// a frame of an explicit stack is exhausted: nothing to select in this round
		if isListExhaustedAtom(a) && lp.RangedValue() == nil {
			return true
		}
		call, _ := engine.CallOf(a.V)
		return a.Op == "true" && call != nil && call.Common().IsInvoke() && call.Common().Method.Name() == "GetIsSelected"
	})
	r1 := lp.IterationCanSkip(isSel, seenCut)
	r2 := lp.IterationCanSkip(engine.IsInstr(recSite), seenCut)
	r3 := false
	if engine.ErrResultIndex(recSite.Common().Signature()) >= 0 {
		r3, _ = engine.PathExists(anc, recSite, toHeader, engine.PathQuery{CutEdge: engine.NilErrEdgesOf(recSite)})
	}
	c.Require(!r1 && !r2 && !r3, "R12b", "each-dependency-selected/"+aname, "every iteration selects the dependency and recurses (error propagated), unless it is already selected", fmt.Sprintf("an iteration over the dependencies can finish without selecting the dependency (%v), without recursing into it (%v) or ignoring the recursion's error (%v)", r1, r2, r3), c.P.InstrPos(recSite))
	// platform mismatch returns before selecting
	okPlat := true
	found := false
	for _, s := range engine.SitesIn(anc) {
		for _, f := range c.G.Callees[s] {
			if engine.InPackage(f, "selection") && readsFieldDeep(c, f, fk("model.Target", "Platforms")) && f.Signature.Results().Len() == 1 && f.Signature.Results().At(0).Type().String() == "bool" {
				found = true
				// on the false edge no Select is reachable
				for _, b := range anc.Blocks {
					for i := range b.Succs {
						a, ok := engine.EdgeAtom(b, i)
						if !ok || a.Op != "false" || a.V != s.Value() {
							continue
						}
						if r, _ := engine.PathExists(anc, b.Succs[i].Instrs[0], isSel, engine.PathQuery{CutEdge: func(bb *ssa.BasicBlock, si int) bool { return bb.Succs[si] == lp.Header }}); r || isSel(b.Succs[i].Instrs[0]) {
							okPlat = false
						}
						if r, _ := engine.PathExists(anc, b.Succs[i].Instrs[0], successReturn, engine.PathQuery{CutEdge: func(bb *ssa.BasicBlock, si int) bool { return bb.Succs[si] == lp.Header }}); r {
							okPlat = false
						}
					}
				}
			}
		}
	}
	c.Require(found && okPlat, "R12b", "platform-mismatch-is-error/"+aname, "a platform-incompatible dependency leads to an error return before anything is selected", "a platform-incompatible dependency is selected or skipped instead of failing the selection (partial build)", c.P.Pos(anc.Pos()))
}

func isLoadOfFieldDeep(v ssa.Value, key engine.FieldKey) bool {
	if lk, ok := v.(*ssa.Lookup); ok {
		return isLoadOfField(lk.X, key)
	}
	return isLoadOfField(v, key)
}

func readsFieldDeep(c *Check, fn *ssa.Function, key engine.FieldKey) bool {
	for f := range c.G.ReachableFuncs([]*ssa.Function{fn}, nil) {
		if readsField(c, f, key) {
			return true
		}
	}
	return false
}

func selectCalls(fn *ssa.Function) []ssa.CallInstruction {
	return engine.Calls(fn, func(s ssa.CallInstruction) bool {
		cc := s.Common()
		return cc.IsInvoke() && cc.Method.Name() == "Select"
	})
}

func selReceiver(s ssa.CallInstruction) ssa.Value { return s.Common().Value }

func ruleR12c(c *Check) {
	c.Rule("R12c", "every function that starts the executor first calls the closing build selector (the one that selects ancestors) and treats its error as fatal", 1)
	exec := anchor(c, "R12c", "execution", "Executor", "Execute")
	if exec == nil {
		return
	}
	var closing *ssa.Function
	for _, t := range findTraversals(c) {
		if !engine.InPackage(t.Fn, "selection") {
			continue
		}
		// the selection function called from outside the package through which the traversal is reached
		for _, f := range c.P.Funcs {
			if !engine.InPackage(f, "selection") || f == t.Fn || !c.G.ReachableFuncs([]*ssa.Function{f}, nil)[t.Fn] {
				continue
			}
			for _, cf := range c.G.CallerFuncs(f) {
				if !engine.InPackage(cf, "selection") {
					closing = f
				}
			}
		}
	}
	if closing == nil {
		c.Unknown("R12c", "anchor/closing-selector", "anchor-unresolved", "-")
		return
	}
	for _, fn := range c.G.CallerFuncs(exec) {
		fname := c.P.FuncName(fn)
		sels := callsToFn(c, fn, closing)
		execs := callsToFn(c, fn, exec)
		ok := len(sels) > 0
		noReturn := func(in ssa.Instruction) bool {
			if call, ok := in.(ssa.CallInstruction); ok {
				n := engine.CalleeName(call)
				return n == "os.Exit" || strings.HasSuffix(n, ".Fatalf") || strings.HasSuffix(n, ".Fatal")
			}
			return false
		}
		for _, e := range execs {
			for _, s := range sels {
				if r, _ := engine.PathExists(fn, nil, engine.IsInstr(e), engine.PathQuery{CutInstr: engine.IsInstr(s)}); r {
					ok = false
				}
				if r, _ := engine.PathExists(fn, s, engine.IsInstr(e), engine.PathQuery{CutEdge: engine.NilErrEdgesOf(s), CutInstr: noReturn}); r {
					ok = false
				}
			}
		}
		c.Require(ok, "R12c", "build-uses-closing-selector/"+fname, "Execute is reachable only after "+c.P.FuncName(closing)+" returned nil", "the executor can be started without the dependency-closing selection having succeeded (e.g. with the non-closing query selector): unselected dependencies would never run and dependants wait forever", c.P.Pos(fn.Pos()))
	}
}

// R12e: the filter conjunction
func ruleR12e(c *Check) {
	c.Rule("R12e", "the node filter returns true for a target only on a path where, for each of the selector's filters (type selection, patterns, tags, exclude-tags), the predicate computed from that filter answered with the accepting polarity (or the filter list is empty)", 4)
	fn := selectorFilterFunc(c, "R12e")
	if fn == nil {
		return
	}
	fname := c.P.FuncName(fn)
	selFields := map[string]bool{"TargetType": true, "Patterns": true, "Tags": true, "ExcludeTags": false} // field -> accepting polarity
	region := regionOf(c, fn)
	inRegion := func(e *engine.Edge) bool {
		return e.Via != nil && region[engine.TopFunc(e.Via.Parent())] && e.Kind != engine.EField
	}
	// fromField: the value is computed from Selector.<f> — it flows from the field inside the filter's
	// region, or it is the result of a call whose callee reads the field
	fromField := func(v ssa.Value, f string) bool {
		if v == nil {
			return false
		}
		key := fk("selection.Selector", f)
		for _, o := range engine.Origins(v) {
			if o == nil {
				continue
			}
			if c.G.Backward([]Node{o}, inRegion).Has(key) {
				return true
			}
			if call, _ := engine.CallOf(o); call != nil {
				for _, cal := range c.G.CalleesOf(call) {
					if readsFieldDeep(c, cal, key) {
						return true
					}
				}
				for _, a := range call.Common().Args {
					if c.G.Backward([]Node{a}, inRegion).Has(key) {
						return true
					}
				}
			}
		}
		return false
	}
	var fields []string
	for f := range selFields {
		fields = append(fields, f)
	}
	sort.Strings(fields)
	for _, f := range fields {
		pol := selFields[f]
		key := "filter-conjunct/" + f + "/" + fname
		if !readsFieldDeep(c, fn, fk("selection.Selector", f)) {
			c.Bad("R12e", key, "the target filter never consults Selector."+f, c.P.Pos(fn.Pos()))
			continue
		}
		op := "true"
		if !pol {
			op = "false"
		}
		accepting := func(a engine.Atom) bool {
			// the predicate computed from this filter answered with the accepting polarity
			if a.Op == op {
				if _, isBool := a.V.Type().Underlying().(*types.Basic); isBool && fromField(a.V, f) {
					if call, _ := engine.CallOf(firstOrigin(a.V)); call != nil {
						return true
					}
				}
			}
			// an empty filter list accepts everything
			if a.Op == "eq" || a.Op == "le" {
				if arg, ok := lenArg(a.V); ok {
					if k, isK := a.Other.(*ssa.Const); isK && k.Value != nil && k.Int64() == 0 && fromField(arg, f) {
						return true
					}
				}
			}
			return false
		}
		// a true answer for a target needs an accepting edge of this filter on its path; the answer for a node
		// that is not a target is R12k's business (the not-a-target edge of the type test is a cut here).
		// MayReturnBool follows the conjunction into a helper the filter was split into.
		notTarget := func(a engine.Atom) bool {
			if a.Op != "false" {
				return false
			}
			ex, isEx := a.V.(*ssa.Extract)
			if !isEx || ex.Index != 1 {
				return false
			}
			ta, isTA := ex.Tuple.(*ssa.TypeAssert)
			return isTA && engine.TypeKey(ta.AssertedType) == "model.Target"
		}
		ok := !engine.MayReturnBool(fn, 0, true, engine.PathQuery{CutEdge: engine.CutEdgesWhere(func(a engine.Atom) bool { return accepting(a) || notTarget(a) })})
		c.Require(ok, "R12e", key, "a true result for a target requires the "+f+" predicate == "+op+" (or an empty "+f+" filter)", "the filter can return true for a target although the "+f+" predicate did not hold (conjunction weakened): targets outside the requested set would be built", c.P.Pos(fn.Pos()))
	}
	// R12k: node kinds other than targets. An alias stands for a target; selecting it selects that target
	// through the dependency closure. If the answer for an alias is computed from the patterns alone, the
	// tag, exclude-tag and test/non-test filters do not apply to what it stands for.
	c.Rule("R12k", "the answer of the node filter for a node that is not a target (an alias) is computed from every filter of the selector (type selection, patterns, tags, exclude-tags), not from the patterns alone", 1)
	var missing []string
	seen := false
	for _, r := range engine.Returns(fn) {
		for _, lf := range engine.PhiLeaves(r.Results[0]) {
			var at ssa.Instruction
			if lf.Pred != nil {
				at = lf.Pred.Instrs[len(lf.Pred.Instrs)-1]
			} else {
				at = r
			}
			if !onNonTargetPath(fn, at) {
				continue
			}
			if k, isK := engine.BoolConst(lf.Val); isK && !k {
				seen = true
				continue
			}
			seen = true
			for _, f := range fields {
				if !fromField(lf.Val, f) {
					missing = append(missing, f)
				}
			}
		}
	}
	if !seen {
		c.Unknown("R12k", "non-target-nodes-filtered/"+fname, "no return of the node filter on the path for nodes that are not targets", c.P.Pos(fn.Pos()))
	} else {
		sort.Strings(missing)
		c.Require(len(missing) == 0, "R12k", "non-target-nodes-filtered/"+fname, "aliases are accepted only under all four filters", "for a node that is not a target (an alias) the filter answers without consulting Selector."+strings.Join(missing, ", Selector.")+": `grog test //...` or `--tag=x //...` selects every alias the pattern matches and, through the closure, builds the target behind it although that target does not pass the filter", c.P.Pos(fn.Pos()))
	}
}

// onNonTargetPath: the instruction is only reachable through the failed `node.(*model.Target)` assertion.
func onNonTargetPath(fn *ssa.Function, at ssa.Instruction) bool {
	reach, _ := engine.PathExists(fn, nil, engine.IsInstr(at), engine.PathQuery{CutEdge: engine.CutEdgesWhere(func(a engine.Atom) bool {
		if a.Op != "false" {
			return false
		}
		ex, ok := a.V.(*ssa.Extract)
		if !ok || ex.Index != 1 {
			return false
		}
		ta, ok := ex.Tuple.(*ssa.TypeAssert)
		return ok && engine.TypeKey(ta.AssertedType) == "model.Target"
	})})
	return !reach
}
