package rules

import (
	"fmt"
	"go/token"
	"go/types"
	"sort"
	"strings"

	"golang.org/x/tools/go/ssa"

	"grogverif/engine"
)

func init() { register("C01", runC01) }

func runC01(c *Check, tier string) {
	c.Decides = "every component of the target state named by the property (label, command, input paths, input contents, outputs, bin output, fingerprint keys and values, platform, dependency output digests) flows into the change hash; every kind of dependency node contributes; a cached result is served only through the keyed lookup of that very target and a validated restore; outputs are stored before the result that names them; the dependency resolver hands back every dependency that resolves to a target (de-duplication only by full label); a restored file is a copy (no link whose source lies in the cache directory); every existing input file is streamed into the key (an input is skipped only when it does not exist)."
	c.NotDec = "byte equality of restored outputs, glob resolution, command determinism, hash collisions, and anything about sequences of builds as histories."
	ruleR01a(c, "R01a")
	ruleR01b(c, "R01b")
	ruleR01c(c)
	ruleR01d(c, "R01d")
	ruleR01e(c)
	// the statement names "bytes moving from the end of one input file to the start of the next":
	// injective framing of the key stream is part of this property too
	ruleR09c(c, "R01f")
	// a restore must not leave files of an earlier build behind (they would end up in dependants' outputs)
	ruleR06c(c, "R01g")
	// the resolver the key composer relies on must hand back every dependency
	ruleResolverTotal(c, "R01h")
	// what is restored is a copy: the cache entry a later build will be served stays untouched
	ruleR07b(c, "R01i")
	// every existing input file contributes its bytes
	ruleR09f(c, "R01j")
	// a blob is published under its digest only whole (a truncated entry is later restored as if it were the output)
	shareRule(c, "R01l", "the fs backend publishes an entry only by renaming a fully copied and closed temp file (same obligations as R07a)", 2, "R07a", func(sub *Check) { ruleR07a(sub) }, nil)
	// incremental = clean rests on the gate, the store path and the restore path as a whole
	// dependency digests reach the key through alias chains of any length
	ruleAliasChainsFollowed(c, "R01p", "dag", "analysis")
	ruleDeclaredOrderKept(c, "R01q")
	ruleOutputHashCoversRecord(c, "R01s")
	shareRule(c, "R01r", "what is cached for a directory output is the whole directory: every entry adds a node to the stored tree (same obligation as R06h)", 1, "R06h", func(sub *Check) { ruleR06h(sub) }, nil)
	useFamily(c, "R01m", famGate, 8)
	useFamily(c, "R01n", famStore, 20)
	useFamily(c, "R01o", famRestore, 20)
	// round 7: the key describes the inputs as they are when the target runs
	ruleKeyContentReadInsideCallback(c, "R01w")
	ruleNoContentMemo(c, "R01x", "hashing", "execution", "output")
	ruleContentDigestsNotSorted(c, "R01y")
	// round 8: what the user declared reaches the key as declared (not a number's canonical spelling)
	shareRule(c, "R01z", "a declared scalar reaches the target description in the form it was written, not re-rendered through a parsed number or a display form (same obligations as R09i)", 1, "R09i", func(sub *Check) { ruleStarlarkDisplayFormNotStored(sub, "R09i") }, nil)
	ruleMemoKeyComplete(c, "R01k", "loading", "hashing", "execution", "output", "dag", "analysis", "selection", "config", "label", "model", "caching", "cmd")
	// every input the user declared is a key source: a pattern must be recognised as one
	ruleGlobMetaComplete(c, "R01t")
	// a record names only digests whose content was stored
	ruleRecordOnlyAfterStore(c, "R01u")
	ruleStoreReaderFresh(c, "R01v")
}

// ruleResolverTotal (shared with C02/C15): a function of internal/dag that turns a node's dependency list
// into a list of targets keeps every dependency — within its loop over the dependencies an iteration may
// skip the append only because the dependency did not resolve to a target (nil / failed type test) or
// because the very same target (membership keyed by its full label or identity) was already added.
func ruleResolverTotal(c *Check, rule string) {
	c.Rule(rule, "in every dag function that returns targets collected in a loop over a node's dependencies (GetDependencies / in-edges), an iteration skips the append only for a dependency that does not resolve to a target, or for a target already listed under its full label", 1)
	getDeps := c.P.Func("dag", "DirectedTargetGraph", "GetDependencies")
	for _, fn := range c.P.Funcs {
		if !engine.InPackage(fn, "dag") || fn.Signature.Results().Len() == 0 {
			continue
		}
		sl, ok := fn.Signature.Results().At(0).Type().Underlying().(*types.Slice)
		if !ok || engine.TypeKey(sl.Elem()) != "model.Target" {
			continue
		}
		for _, lp := range engine.LoopsOf(fn) {
			r := lp.RangedValue()
			if r == nil {
				continue
			}
			overDeps := false
			if call, _ := engine.CallOf(r); call != nil && getDeps != nil {
				for _, f := range c.G.CalleesOf(call) {
					if f == getDeps {
						overDeps = true
					}
				}
			}
			if lk, ok := r.(*ssa.Lookup); ok && isLoadOfField(lk.X, fInEdges) {
				overDeps = true
			}
			if !overDeps {
				continue
			}
			// the append that builds the result
			var app ssa.Instruction
			for b := range lp.Body {
				for _, in := range b.Instrs {
					if call, ok := in.(*ssa.Call); ok {
						if bi, ok := call.Call.Value.(*ssa.Builtin); ok && bi.Name() == "append" && types.Identical(call.Type(), fn.Signature.Results().At(0).Type()) {
							app = call
						}
					}
				}
			}
			key := "resolver-keeps-every-dependency/" + c.P.FuncName(fn)
			if app == nil {
				c.Unknown(rule, key, "the loop over the dependencies does not append to the returned list in a recognised way", c.P.Pos(fn.Pos()))
				continue
			}
			if !lp.IsFullRange() {
				c.Bad(rule, key, "the dependencies are not visited in a full range", c.P.InstrPos(app))
				continue
			}
			allowed := engine.CutEdgesWhere(func(a engine.Atom) bool {
				switch a.Op {
				case "nil":
					// the dependency did not resolve to a target
					return engine.TypeKey(a.V.Type()) == "model.Target"
				case "false":
					if ex, ok := a.V.(*ssa.Extract); ok && ex.Index == 1 {
						if ta, ok := ex.Tuple.(*ssa.TypeAssert); ok && engine.TypeKey(ta.X.Type()) == "model.BuildNode" {
							return true
						}
					}
				case "true":
					// already listed: membership in a set keyed by the full label (or the target itself)
					var lk *ssa.Lookup
					switch x := a.V.(type) {
					case *ssa.Lookup:
						lk = x
					case *ssa.Extract:
						if l, ok := x.Tuple.(*ssa.Lookup); ok && x.Index == 1 {
							lk = l
						}
					}
					if lk == nil {
						return false
					}
					return identifiesTarget(lk.Index)
				}
				return false
			})
			skip := lp.IterationCanSkip(engine.IsInstr(app), allowed)
			c.Require(!skip, rule, key, "every dependency that resolves to a target is appended (duplicates of the same label aside)", "some dependencies are dropped by the resolver (a `continue` that is not 'did not resolve' or 'this very target is already listed'): their digests would not enter the dependant's key and their outputs would not be loaded", c.P.InstrPos(app))
		}
	}
}

// identifiesTarget: a set key that names one target — its whole label value, the label's String(), or the
// target pointer itself; not a component of the label.
func identifiesTarget(k ssa.Value) bool {
	for _, o := range engine.Origins(k) {
		if o == nil {
			return false
		}
		switch engine.TypeKey(o.Type()) {
		case "label.TargetLabel", "model.Target":
			continue
		}
		if call, _ := engine.CallOf(o); call != nil {
			n := engine.CalleeName(call)
			if strings.HasSuffix(n, "label.TargetLabel).String") || strings.HasSuffix(n, ".GetLabel") {
				continue
			}
		}
		return false
	}
	return true
}

var changeHashKey = fk("model.Target", "ChangeHash")

// keyFuncs: the functions that compose the key — everything reachable in the
// call graph from the function(s) that assign Target.ChangeHash.
func keyFuncs(c *Check) map[*ssa.Function]bool {
	return c.G.ReachableFuncs(writersOfField(c, changeHashKey), nil)
}

// keyBackward: what flows into Target.ChangeHash inside the key-composing
// functions, with (all) and without (def) crossing path->content calls.
func keyBackward(c *Check) (all, def *engine.Reach) {
	kf := keyFuncs(c)
	inKey := func(e *engine.Edge) bool { return e.Via != nil && kf[e.Via.Parent()] }
	all = c.G.Backward([]Node{changeHashKey}, inKey)
	def = c.G.Backward([]Node{changeHashKey}, func(e *engine.Edge) bool { return inKey(e) && noContent(e) })
	return
}

// R01a: key-field coverage
func ruleR01a(c *Check, rule string) {
	c.Rule(rule, "every state component named by the property flows (value-flow graph, backward from Target.ChangeHash) into the change hash; input contents must flow through an os.Open whose path derives from Target.Inputs", 9)
	if len(c.G.In[changeHashKey]) == 0 {
		c.Unknown(rule, "anchor/model.Target.ChangeHash", "anchor-unresolved: no store to model.Target.ChangeHash", "-")
		return
	}
	all, def := keyBackward(c)
	need := []struct {
		key  engine.FieldKey
		what string
	}{
		{fk("model.Target", "Label"), "label"},
		{fk("model.Target", "Command"), "command"},
		{fk("model.Target", "Inputs"), "resolved input paths"},
		{fk("model.Target", "Outputs"), "declared outputs"},
		{fk("model.Target", "BinOutput"), "bin output"},
		{fk("model.Target", "Fingerprint"), "fingerprint"},
		{fk("model.Target", "OutputHash"), "dependency output digests"},
		{fk("config.WorkspaceConfig", "OS"), "platform OS"},
		{fk("config.WorkspaceConfig", "Arch"), "platform architecture"},
	}
	for _, n := range need {
		key := "key-source/" + n.key.String()
		if def.Has(n.key) {
			// may-flow holds; where the field is read and hashed in one function the flow must not be
			// conditional (a phi that substitutes another value on some path)
			if why := conditionalKeySource(c, n.key); why != "" {
				c.Bad(rule, key, n.what+" ("+n.key.String()+") enters the hashed component only on some paths ("+why+"): on the others the key does not depend on it, so a change to it can be served a stale cached result", "-")
				continue
			}
			path := c.G.Path(def, n.key, 6)
			c.OK(rule, key, n.what+" reaches Target.ChangeHash: "+strings.Join(path, " ; "), "-")
		} else {
			c.Bad(rule, key, n.what+" ("+n.key.String()+") does not flow into the change hash: a change to it would be served a stale cached result", "-")
		}
	}
	// input *contents*: an os.Open whose path derives from Target.Inputs and whose file reaches the key
	kf := keyFuncs(c)
	fwd := c.G.Forward([]Node{fk("model.Target", "Inputs")}, func(e *engine.Edge) bool { return noContent(e) && e.Via != nil && kf[e.Via.Parent()] })
	found := false
	var where string
	for _, s := range c.G.CallsTo("os.Open", "os.ReadFile", "os.OpenFile") {
		args := s.Common().Args
		if len(args) == 0 || !fwd.Has(args[0]) || !kf[s.Parent()] {
			continue
		}
		v := s.Value()
		if v == nil {
			continue
		}
		reached := def.Has(v)
		for _, r := range *v.Referrers() {
			if ex, ok := r.(*ssa.Extract); ok && def.Has(ex) {
				reached = true
			}
		}
		if reached {
			found = true
			where = c.P.InstrPos(s) + " in " + c.P.FuncName(s.Parent())
		}
	}
	c.Require(found, rule, "key-source/input-contents",
		"contents of the files named by Target.Inputs are read ("+where+") and flow into the change hash",
		"no file opened from a path derived from Target.Inputs flows into the change hash: editing an input file would not invalidate the target", "-")

	// fingerprint: both key and value of the map must be hashed
	fpf := c.G.Forward([]Node{fk("model.Target", "Fingerprint")}, noContent)
	var nexts []*ssa.Next
	for n := range fpf.Parent {
		if nx, ok := n.(*ssa.Next); ok && def.Has(nx) && kf[nx.Parent()] {
			nexts = append(nexts, nx)
		}
	}
	sort.Slice(nexts, func(i, j int) bool { return nexts[i].Pos() < nexts[j].Pos() })
	for _, nx := range nexts {
		var k, v bool
		for _, r := range *nx.Referrers() {
			if ex, ok := r.(*ssa.Extract); ok && def.Has(ex) && len(*ex.Referrers()) > 0 {
				if ex.Index == 1 {
					k = true
				}
				if ex.Index == 2 {
					v = true
				}
			}
		}
		c.Require(k && v, rule, "fingerprint-key-and-value/"+c.P.FuncName(nx.Parent()),
			"both the key and the value of each fingerprint entry flow into the change hash",
			fmt.Sprintf("fingerprint iteration hashes key=%v value=%v: entries that differ only in the other component collide", k, v), c.P.InstrPos(nx))
	}
	// informational: Target fields that are not key material
	if t := c.P.Type("model", "Target"); t != nil {
		st := t.Underlying().(*types.Struct)
		var unkeyed []string
		for i := 0; i < st.NumFields(); i++ {
			if !all.Has(fk("model.Target", st.Field(i).Name())) {
				unkeyed = append(unkeyed, st.Field(i).Name())
			}
		}
		sort.Strings(unkeyed)
		c.Note("model.Target fields that do not flow into the change hash (informational): %s", strings.Join(unkeyed, ", "))
	}
}

// conditionalKeySource: in a key-composing function that both reads the field and writes a value derived
// from that read into a hasher, no such write depends on the field on *every* path (each one merges it
// with an alternative in a phi). Returns "" when some write must-depends on the field, or when the field
// is not read and hashed within one function (the whole-program may-flow is all that is decided then).
func conditionalKeySource(c *Check, key engine.FieldKey) string {
	kf := keyFuncs(c)
	isRead := func(v ssa.Value) bool {
		switch x := v.(type) {
		case *ssa.FieldAddr:
			return engine.FieldKeyOf(x.X.Type(), x.Field) == key
		case *ssa.Field:
			return engine.FieldKeyOf(x.X.Type(), x.Field) == key
		}
		return false
	}
	var vals []ssa.Value
	for _, s := range hasherSinks(c) {
		if kf[s.Call.Parent()] {
			vals = append(vals, s.Val)
		}
	}
	return dilutedSource(c, isRead, vals)
}

// dilutedSource: of the sink values that depend (register-level) on a value isRead accepts, every one merges it
// with a non-constant alternative in a phi. Returns "" when some sink must-depends on it (or none depends).
func dilutedSource(c *Check, isRead func(v ssa.Value) bool, sinkVals []ssa.Value) string {
	// register-level dependence (operands only, no memory): does v depend on a read of the field?
	memo := map[ssa.Value]int{}
	var dep func(v ssa.Value, d int) bool
	dep = func(v ssa.Value, d int) bool {
		if v == nil || d > 40 {
			return false
		}
		switch memo[v] {
		case 1:
			return true
		case 2, 3:
			return false
		}
		memo[v] = 3
		res := isRead(v)
		if !res {
			if in, ok := v.(ssa.Instruction); ok {
				for _, op := range in.Operands(nil) {
					if op != nil && *op != nil && dep(*op, d+1) {
						res = true
						break
					}
				}
			}
		}
		if res {
			memo[v] = 1
		} else {
			memo[v] = 2
		}
		return res
	}
	// a diluting phi on the way: one incoming value carries the field, another (not a constant, not the
	// phi itself) does not — on that path something else is hashed in its place
	var diluted func(v ssa.Value, seen map[ssa.Value]bool, d int) (bool, string)
	diluted = func(v ssa.Value, seen map[ssa.Value]bool, d int) (bool, string) {
		if v == nil || d > 40 || seen[v] || !dep(v, 0) {
			return false, ""
		}
		seen[v] = true
		if phi, ok := v.(*ssa.Phi); ok {
			with, without := 0, 0
			for _, e := range phi.Edges {
				if e == ssa.Value(phi) {
					continue
				}
				if _, isConst := e.(*ssa.Const); isConst {
					continue
				}
				if dep(e, 0) {
					with++
				} else {
					without++
				}
			}
			if with > 0 && without > 0 {
				return true, c.P.InstrPos(phi)
			}
		}
		if in, ok := v.(ssa.Instruction); ok {
			// every operand route that carries the field must be diluted for the value to be diluted
			any, all := false, true
			where := ""
			for _, op := range in.Operands(nil) {
				if op == nil || *op == nil || !dep(*op, 0) {
					continue
				}
				any = true
				dl, w := diluted(*op, seen, d+1)
				if !dl {
					all = false
				} else {
					where = w
				}
			}
			if any && all {
				return true, where
			}
		}
		return false, ""
	}
	n, nd := 0, 0
	where := ""
	for _, sv := range sinkVals {
		if !dep(sv, 0) {
			continue
		}
		n++
		if dl, w := diluted(sv, map[ssa.Value]bool{}, 0); dl {
			nd++
			where = w
		}
	}
	if n > 0 && nd == n {
		return "every hasher write that takes it merges it with an alternative value at " + where
	}
	return ""
}

// R01b: every kind of dependency node contributes. Applied to each function
// that narrows dependency nodes (values derived from the graph's in-edges, in the
// function itself or handed to it by a caller) with a type test on model.BuildNode.
func ruleR01b(c *Check, rule string) {
	c.Rule(rule, "a function that narrows a node's dependencies (graph in-edges, directly or received from a caller that walks them) with a type assertion/switch on model.BuildNode handles every first-party implementer of model.BuildNode (a dependency reached through an alias must not be dropped); the key composer and the minimal-mode dependency loader obtain their dependencies through such a function", 2)
	impls := buildNodeImplementers(c)
	if len(impls) < 2 {
		c.Unknown(rule, "anchor/model.BuildNode", "anchor-unresolved: expected at least two implementers of model.BuildNode", "-")
		return
	}
	bn := c.P.Type("model", "BuildNode")
	getDeps := anchor(c, rule, "dag", "DirectedTargetGraph", "GetDependencies")
	if getDeps == nil {
		return
	}
	inEdges := fk("dag.DirectedTargetGraph", "inEdges")
	// dependency-derived values per function (one level of call-argument propagation)
	depVals := map[*ssa.Function][]Node{}
	inScope := func(fn *ssa.Function) bool {
		return engine.InPackage(fn, "hashing") || engine.InPackage(fn, "dag") || engine.InPackage(fn, "execution")
	}
	localFlow := func(fn *ssa.Function) engine.EdgeFilter {
		return func(e *engine.Edge) bool {
			if e.Via == nil || e.Via.Parent() != fn {
				return false
			}
			return e.Kind == engine.EAssign || e.Kind == engine.ELoad
		}
	}
	for _, fn := range c.P.Funcs {
		if !inScope(fn) {
			continue
		}
		for _, s := range callsToFn(c, fn, getDeps) {
			if v := s.Value(); v != nil {
				depVals[fn] = append(depVals[fn], v)
			}
		}
		for _, b := range fn.Blocks {
			for _, in := range b.Instrs {
				if fa, ok := in.(*ssa.FieldAddr); ok && engine.FieldKeyOf(fa.X.Type(), fa.Field) == inEdges {
					depVals[fn] = append(depVals[fn], fa)
				}
			}
		}
	}
	for _, fn := range c.P.Funcs {
		if len(depVals[fn]) == 0 {
			continue
		}
		reach := c.G.Forward(depVals[fn], localFlow(fn))
		for _, s := range engine.SitesIn(fn) {
			for _, cal := range c.G.Callees[s] {
				if !inScope(cal) || cal == fn {
					continue
				}
				args := s.Common().Args
				for i, a := range args {
					if reach.Has(a) && i < len(cal.Params) && types.Identical(a.Type(), bn) {
						depVals[cal] = append(depVals[cal], cal.Params[i])
					}
				}
			}
		}
	}
	var narrowers []*ssa.Function
	for _, fn := range c.P.Funcs {
		if len(depVals[fn]) == 0 || !inScope(fn) {
			continue
		}
		reach := c.G.Forward(depVals[fn], localFlow(fn))
		asserted := map[string]bool{}
		var first *ssa.TypeAssert
		for _, b := range fn.Blocks {
			for _, in := range b.Instrs {
				ta, ok := in.(*ssa.TypeAssert)
				if !ok || !types.Identical(ta.X.Type(), bn) || !reach.Has(ta.X) {
					continue
				}
				asserted[ta.AssertedType.String()] = true
				if first == nil {
					first = ta
				}
			}
		}
		if first == nil {
			continue
		}
		narrowers = append(narrowers, fn)
		var missing []string
		for _, im := range impls {
			if !asserted[im.String()] {
				missing = append(missing, strings.ReplaceAll(im.String(), "grog/internal/", ""))
			}
		}
		key := "dependency-kinds/" + c.P.FuncName(fn)
		if len(missing) == 0 {
			c.OK(rule, key, "dependencies are narrowed by type and every implementer of model.BuildNode has a branch", c.P.InstrPos(first))
		} else {
			c.Bad(rule, key, "dependencies of kind "+strings.Join(missing, ", ")+" are dropped by the type assertion: a dependency reached only through such a node contributes nothing here", c.P.InstrPos(first))
		}
	}
	// the key composer and the dependency loader must get their dependencies through a narrower
	// (or walk the raw list themselves and then be narrowers)
	consumers := append([]*ssa.Function{}, writersOfField(c, changeHashKey)...)
	if ldo := c.P.Func("execution", "Executor", "LoadDependencyOutputs"); ldo != nil {
		consumers = append(consumers, ldo)
	}
	for _, cons := range consumers {
		consRegion := regionOf(c, cons)
		reach := c.G.ReachableFuncs([]*ssa.Function{cons}, func(f *ssa.Function) bool { return !consRegion[f] && !engine.InPackage(f, "dag") })
		ok := false
		for _, n := range narrowers {
			if reach[n] {
				ok = true
			}
		}
		c.Require(ok, rule, "dependencies-through-narrower/"+c.P.FuncName(cons), "obtains its dependencies through a function that resolves every node kind", "does not obtain its dependencies through a function that resolves dependency nodes by kind: no dependency digests / outputs are taken into account", c.P.Pos(cons.Pos()))
	}
}

// R01c: keyed lookup
func ruleR01c(c *Check) {
	c.Rule("R01c", "the hit gate looks the result up under the ChangeHash of the same target it later restores, restores exactly the looked-up result, and the change hash is computed (successfully) before the gate is submitted", 3)
	gate := findGate(c, "R01c")
	if gate == nil {
		return
	}
	load := c.P.Func("caching", "TargetResultCache", "Load")
	loadOutputs := anchor(c, "R01c", "output", "Registry", "LoadOutputs")
	if loadOutputs == nil {
		return
	}
	loads := callsToFn(c, gate, load)
	restores := callsToFn(c, gate, loadOutputs)
	gname := c.P.FuncName(gate)
	if len(loads) != 1 {
		c.Unknown("R01c", "gate-lookup/"+gname, fmt.Sprintf("expected one result lookup in the gate, found %d", len(loads)), "-")
		return
	}
	lk := loads[0]
	keyArg := lk.Common().Args[len(lk.Common().Args)-1]
	base, ok := fieldReadOn(keyArg, "ChangeHash")
	if !ok || engine.TypeKey(base.Type()) != "model.Target" {
		c.Bad("R01c", "gate-lookup-key/"+gname, "the result cache is not looked up under Target.ChangeHash (key expression: "+keyArg.String()+")", c.P.InstrPos(lk))
	} else {
		c.OK("R01c", "gate-lookup-key/"+gname, "lookup key is .ChangeHash of the gate's target", c.P.InstrPos(lk))
		for _, r := range restores {
			args := r.Common().Args
			// LoadOutputs(recv, ctx, target, targetResult, progress)
			var tgt, res ssa.Value
			for _, a := range args {
				switch engine.TypeKey(a.Type()) {
				case "model.Target":
					tgt = a
				case "proto/gen.TargetResult":
					res = a
				}
			}
			okT := tgt != nil && sameVar(tgt, base)
			okR := false
			if res != nil {
				okR = engine.OriginsAllFromCall(res, map[ssa.CallInstruction]int{lk: 0}, false)
			}
			c.Require(okT && okR, "R01c", "gate-restore-same-target/"+gname,
				"the restore is given the same target whose ChangeHash was looked up and exactly the looked-up result",
				fmt.Sprintf("restore uses a different target (%v) or a result that is not the looked-up one (%v)", !okT, !okR), c.P.InstrPos(r))
		}
		// the restore inside a helper the hit handling was moved into: its parameters stand for the gate's
		// arguments at the call
		if len(restores) == 0 {
			for _, hs := range gateHelpersCalling(c, gate, loadOutputs) {
				// the helper that handles the hit answers whether it did (the dependency loader, which restores
				// other targets' outputs, returns an error and is judged by R15)
				if res := hs.Helper.Signature.Results(); res.Len() != 1 || res.At(0).Type().String() != "bool" {
					continue
				}
				for _, r := range callsToFn(c, hs.Helper, loadOutputs) {
					okT, okR := false, false
					engine.WithCtx([]*ssa.Call{hs.Call}, func() {
						for _, a := range r.Common().Args {
							switch engine.TypeKey(a.Type()) {
							case "model.Target":
								okT = sameVar(a, base)
							case "proto/gen.TargetResult":
								okR = engine.OriginsAllFromCall(a, map[ssa.CallInstruction]int{lk: 0}, false)
							}
						}
					})
					c.Require(okT && okR, "R01c", "gate-restore-same-target/"+gname,
						"the restore (in "+c.P.FuncName(hs.Helper)+") is given the same target whose ChangeHash was looked up and exactly the looked-up result",
						fmt.Sprintf("restore uses a different target (%v) or a result that is not the looked-up one (%v)", !okT, !okR), c.P.InstrPos(r))
				}
			}
		}
	}
	// change hash computed before submission, error aborts
	setters := writersOfField(c, changeHashKey)
	var gateMakers []*ssa.Function // functions that create the gate closure
	if gate.Parent() != nil {
		gateMakers = append(gateMakers, gate.Parent())
	}
	done := false
	for _, fn := range c.P.Funcs {
		var setCalls, makeCalls []ssa.CallInstruction
		for _, s := range setters {
			setCalls = append(setCalls, callsToFn(c, fn, s)...)
		}
		for _, m := range gateMakers {
			makeCalls = append(makeCalls, callsToFn(c, fn, m)...)
		}
		if len(setCalls) == 0 || len(makeCalls) == 0 {
			continue
		}
		for _, mk := range makeCalls {
			why := ""
			okAny := false
			for _, sc := range setCalls {
				if w := onlyAfterSuccess(fn, sc, mk); w == "" {
					okAny = true
				} else {
					why = w
				}
			}
			done = true
			c.Require(okAny, "R01c", "hash-before-gate/"+c.P.FuncName(fn),
				"the gate is created only after the change hash was computed without error",
				"the gate can be created without a successfully computed change hash: "+why, c.P.InstrPos(mk))
		}
	}
	if !done {
		c.Unknown("R01c", "hash-before-gate", "no function both computes the change hash and creates the gate", "-")
	}
}

// R01d: outputs are stored before the result that names them (shared with C07).
func ruleR01d(c *Check, rule string) {
	c.Rule(rule, "the target result is written only after the call that stored/hashed the outputs returned nil; the output writer returns a result only after every submitted output task was waited for without error; the directory tree blob is written only after its file blobs, and the output record only after the tree; the result writer has a single caller", 5)
	ex := findExec(c, rule)
	if ex == nil {
		return
	}
	complete := ex.Complete
	writes := sitesReaching(c, complete, fnSet(ex.Write))
	reg := c.P.Type("output", "Registry")
	// producers: calls on *output.Registry returning (*gen.TargetResult, error), in `complete` or in helpers
	// of it that forward the producer's error
	producers, leaks := liftedSites(c, complete, func(s ssa.CallInstruction) bool {
		sig := s.Common().Signature()
		return sig.Results().Len() == 2 && engine.TypeKey(sig.Results().At(0).Type()) == "proto/gen.TargetResult" && engine.ErrResultIndex(sig) == 1 &&
			sig.Recv() != nil && reg != nil && engine.TypeKey(sig.Recv().Type()) == "output.Registry"
	}, 0)
	for _, l := range leaks {
		c.Bad(rule, "result-after-outputs/"+c.P.FuncName(complete), "an output-producing helper loses the producer's error: "+l, "-")
	}
	if len(producers) == 0 || len(writes) == 0 {
		c.Unknown(rule, "result-after-outputs/"+c.P.FuncName(complete), "could not identify the output-producing calls or the result write", "-")
	} else {
		for _, w := range writes {
			bad := ""
			for _, p := range producers {
				if ok, _ := engine.PathExists(complete, p, engine.IsInstr(w), engine.PathQuery{CutEdge: engine.NilErrEdgesOf(producers...)}); ok {
					bad = "the result write is reachable after " + engine.CalleeName(p) + " without taking the err == nil branch"
				}
			}
			c.Require(bad == "", rule, "result-after-outputs/"+c.P.FuncName(complete),
				fmt.Sprintf("TargetResultCache.Write is reachable from each of the %d output-producing calls only through the err == nil branch of their error", len(producers)),
				bad, c.P.InstrPos(w))
		}
	}
	callers := c.G.CallerFuncs(ex.Write)
	c.Require(len(callers) == 1, rule, "result-writer-single-caller", "TargetResultCache.Write is called only from "+names(c, callers), "TargetResultCache.Write has several callers: "+names(c, callers), "-")

	// WriteOutputs-like functions: submit tasks to a pool, must wait for all of them
	for _, fn := range c.P.Funcs {
		if !engine.InPackage(fn, "output") || engine.InPackage(fn, "output/handlers") {
			continue
		}
		submits := engine.Calls(fn, func(s ssa.CallInstruction) bool { return strings.HasSuffix(engine.CalleeName(s), ".SubmitErr") })
		if len(submits) == 0 {
			continue
		}
		waitAllObligation(c, rule, fn, submits)
	}

	// directory handler: file blobs -> tree blob -> record
	dirWriteOrder(c, rule)
}

// waitAllObligation: every success return of fn is reachable from a submit only
// through a loop that waits on every task and leaves on error.
func waitAllObligation(c *Check, rule string, fn *ssa.Function, submits []ssa.CallInstruction) {
	key := "wait-all-tasks/" + c.P.FuncName(fn)
	var srcs []Node
	for _, s := range submits {
		if v := s.Value(); v != nil {
			srcs = append(srcs, v)
		}
	}
	reach := c.G.Forward(srcs, func(e *engine.Edge) bool { return e.Via != nil && e.Via.Parent() == fn })
	isWait := func(s ssa.CallInstruction) bool {
		return strings.HasSuffix(engine.CalleeName(s), ".Wait") && s.Common().IsInvoke()
	}
	// (a) the waiting loop is in fn itself
	var w ssa.CallInstruction
	waits := engine.Calls(fn, isWait)
	for _, x := range waits {
		if reach.Has(x.Common().Value) {
			w = x
		}
	}
	if w != nil {
		if bad, at := waitLoopProblem(c, fn, w); bad != "" {
			c.Bad(rule, key, bad, c.P.InstrPos(at))
		} else {
			c.OK(rule, key, "every submitted task is waited for in a full range loop; an error leaves without returning a result", c.P.InstrPos(w))
		}
		return
	}
	// (b) the submitted tasks are handed to a helper that waits for all of them and forwards the first error
	for _, s := range engine.SitesIn(fn) {
		call, ok := s.(*ssa.Call)
		if !ok {
			continue
		}
		h := call.Call.StaticCallee()
		if h == nil || len(h.Blocks) == 0 || engine.ErrResultIndex(h.Signature) < 0 {
			continue
		}
		for i, a := range call.Call.Args {
			if !reach.Has(a) || i >= len(h.Params) {
				continue
			}
			prm := h.Params[i]
			hreach := c.G.Forward([]Node{prm}, func(e *engine.Edge) bool { return e.Via != nil && e.Via.Parent() == h })
			var hw ssa.CallInstruction
			for _, x := range engine.Calls(h, isWait) {
				if hreach.Has(x.Common().Value) {
					hw = x
				}
			}
			if hw == nil {
				continue
			}
			if bad, at := waitLoopProblem(c, h, hw); bad != "" {
				c.Bad(rule, key, "in the waiting helper "+c.P.FuncName(h)+": "+bad, c.P.InstrPos(at))
				return
			}
			// the helper's loop ranges over the parameter itself
			if lp := engine.LoopOf(hw); lp == nil || !hreach.Has(lp.RangedValue()) {
				c.Bad(rule, key, "the waiting helper "+c.P.FuncName(h)+" does not range over the task list it is given", c.P.InstrPos(hw))
				return
			}
			isSuccess := func(in ssa.Instruction) bool {
				r, ok := in.(*ssa.Return)
				return ok && in.Parent() == fn && isNilErrReturn(r)
			}
			if ok, at := engine.PathExists(fn, s, isSuccess, engine.PathQuery{CutEdge: engine.NilErrEdgesOf(s)}); ok {
				c.Bad(rule, key, "a success return is reachable although the waiting helper reported a failed task", c.P.InstrPos(at))
				return
			}
			c.OK(rule, key, "the submitted tasks are handed to "+c.P.FuncName(h)+", which waits for every one of them in a full range loop and returns the first error; success is returned only when it returned nil", c.P.InstrPos(s))
			return
		}
	}
	if len(waits) == 0 {
		c.Bad(rule, key, "tasks are submitted but never waited for", c.P.InstrPos(submits[0]))
		return
	}
	c.Bad(rule, key, "the Wait call does not wait on the submitted tasks", c.P.InstrPos(waits[0]))
}

// waitLoopProblem: w is a Wait call on the tasks; it must sit in a full range loop that is left early only
// with an error, and no success return may follow a failed Wait. Returns "" when that holds.
func waitLoopProblem(c *Check, fn *ssa.Function, w ssa.CallInstruction) (string, ssa.Instruction) {
	if !engine.InLoop(w) {
		return "Wait is not called in a loop over the submitted tasks: only some tasks are awaited", w
	}
	lp := engine.LoopOf(w)
	if lp == nil || !lp.IsFullRange() {
		return "the loop around Wait is not a full range over the task slice (index from 0 to len, step 1)", w
	}
	// success returns: reachable from the Wait only via the nil-error edge, and loop exits
	// other than the range-exhausted edge may not reach a success return
	isSuccess := func(in ssa.Instruction) bool {
		r, ok := in.(*ssa.Return)
		return ok && in.Parent() == fn && isNilErrReturn(r)
	}
	if ok, at := engine.PathExists(fn, w, isSuccess, engine.PathQuery{CutEdge: engine.NilErrEdgesOf(w)}); ok {
		return "a success return is reachable after a task's Wait returned an error", at
	}
	if again, _ := engine.PathExists(fn, w, engine.IsInstr(w), engine.PathQuery{CutEdge: engine.NilErrEdgesOf(w)}); again {
		return "the error of one task's Wait is overwritten by the next iteration before it is tested: only the last task's failure is noticed, so a missing or unwritable earlier output still yields a result", w
	}
	if why := lp.EarlyExitReaches(isSuccess); why != "" {
		return "the wait loop can be left early towards a success return: " + why, w
	}
	return "", nil
}

func dirWriteOrder(c *Check, rule string) {
	h := c.P.Type("output/handlers", "Handler")
	casWrite := anchor(c, rule, "caching", "Cas", "Write")
	if h == nil || casWrite == nil {
		return
	}
	for _, fn := range methodImpls(c, h, "Write") {
		// functions that upload several blobs through a helper and then write a summarising blob
		direct := callsToFn(c, fn, casWrite)
		var helpers []ssa.CallInstruction
		for _, s := range engine.SitesIn(fn) {
			for _, cal := range c.G.Callees[s] {
				if cal != casWrite && engine.InPackage(cal, "output/handlers") && c.G.ReachableFuncs([]*ssa.Function{cal}, nil)[casWrite] && engine.ErrResultIndex(s.Common().Signature()) >= 0 {
					helpers = append(helpers, s)
				}
			}
		}
		if len(direct) == 0 || len(helpers) == 0 {
			continue
		}
		key := "blobs-before-tree/" + c.P.FuncName(fn)
		bad := ""
		for _, d := range direct {
			for _, hp := range helpers {
				if w := onlyAfterSuccess(fn, hp, d); w != "" {
					bad = "the summarising blob write is " + w + " (" + engine.CalleeName(hp) + ")"
				}
			}
		}
		c.Require(bad == "", rule, key, "the tree blob is written only after the file-blob upload returned nil", bad, c.P.InstrPos(direct[0]))
		// the upload helper receives exactly the upload list the tree builder produced
		for _, hp := range helpers {
			for _, a := range hp.Common().Args {
				sl, ok := a.Type().Underlying().(*types.Slice)
				if !ok || engine.NamedOf(sl.Elem()) == nil || !engine.IsFirstParty(engine.NamedOf(sl.Elem()).Obj().Pkg().Path()) {
					continue
				}
				producers := map[ssa.CallInstruction]int{}
				var regionSitesAll []ssa.CallInstruction
				for f := range regionOf(c, fn) {
					regionSitesAll = append(regionSitesAll, engine.SitesIn(f)...)
				}
				for _, s := range regionSitesAll {
					res := s.Common().Signature().Results()
					for i := 0; i < res.Len(); i++ {
						if types.Identical(res.At(i).Type(), a.Type()) {
							producers[s] = i
						}
					}
				}
				ok2 := len(producers) > 0 && engine.OriginsAllFromCall(a, producers, false)
				// the list kept in a field of an accumulator that the walk fills: every store into that field, anywhere,
				// is an append onto the field itself (nothing replaces or truncates it)
				if !ok2 {
					for _, o := range engine.Origins(a) {
						ld, isLd := o.(*ssa.UnOp)
						if !isLd {
							continue
						}
						fa, isFA := ld.X.(*ssa.FieldAddr)
						if !isFA {
							continue
						}
						fkey := engine.FieldKeyOf(fa.X.Type(), fa.Field)
						stores := storesToField(c, fkey)
						onlyAppends := len(stores) > 0
						for _, st := range stores {
							app, isCall := st.Val.(*ssa.Call)
							if !isCall {
								onlyAppends = false
								continue
							}
							if b, isB := app.Call.Value.(*ssa.Builtin); !isB || b.Name() != "append" || len(app.Call.Args) == 0 || !isLoadOfField(app.Call.Args[0], fkey) {
								onlyAppends = false
							}
						}
						if onlyAppends {
							ok2 = true
						}
					}
				}
				c.Require(ok2, rule, "all-blobs-uploaded/"+c.P.FuncName(fn), "the upload helper is given exactly the list of files the tree builder collected", "the list of files to upload is replaced or emptied on some path before the upload: the tree (and the result naming it) can be stored while file blobs it references were never uploaded to this backend", c.P.InstrPos(hp))
			}
		}
		// record returned only after the tree write succeeded
		isSuccess := func(in ssa.Instruction) bool {
			r, ok := in.(*ssa.Return)
			return ok && isNilErrReturn(r)
		}
		bad = ""
		for _, d := range direct {
			if ok, at := engine.PathExists(fn, d, isSuccess, engine.PathQuery{CutEdge: engine.NilErrEdgesOf(d)}); ok {
				bad = "a success return is reachable after the tree write failed (" + c.P.InstrPos(at) + ")"
			}
		}
		c.Require(bad == "", rule, "tree-before-record/"+c.P.FuncName(fn), "the output record is returned only after the tree blob write returned nil", bad, c.P.InstrPos(direct[0]))
	}
}

// R01e: validated restore
func ruleR01e(c *Check) {
	c.Rule("R01e", "in the restore function, the comparison of declared outputs with the stored result's outputs dominates every handler Load and its error returns before any load", 1)
	loadOutputs := anchor(c, "R01e", "output", "Registry", "LoadOutputs")
	h := c.P.Type("output/handlers", "Handler")
	outDefs := anchor(c, "R01e", "model", "Target", "OutputDefinitions")
	if loadOutputs == nil || h == nil || outDefs == nil {
		return
	}
	loaders := fnSet(methodImpls(c, h, "Load")...)
	// validator: callee of LoadOutputs that reads Target.OutputDefinitions() and TargetResult.Outputs
	var validators []ssa.CallInstruction
	for _, s := range engine.SitesIn(loadOutputs) {
		for _, cal := range c.G.Callees[s] {
			r := c.G.ReachableFuncs([]*ssa.Function{cal}, nil)
			if r[outDefs] && engine.ErrResultIndex(s.Common().Signature()) >= 0 && !reachesAny(r, loaders) {
				validators = append(validators, s)
			}
		}
	}
	key := "validate-before-load/" + c.P.FuncName(loadOutputs)
	if len(validators) == 0 {
		c.Bad("R01e", key, "no call compares the target's declared outputs with the stored result before loading", "-")
		return
	}
	loadSites := sitesReaching(c, loadOutputs, loaders)
	if len(loadSites) == 0 {
		c.Unknown("R01e", key, "no call site leads to a handler Load", "-")
		return
	}
	bad := ""
	for _, ls := range loadSites {
		okAny := false
		w := ""
		for _, v := range validators {
			if w = onlyAfterSuccess(loadOutputs, v, ls); w == "" {
				okAny = true
			}
		}
		if !okAny {
			bad = "a handler Load (" + c.P.InstrPos(ls) + ") is " + w
		}
	}
	c.Require(bad == "", "R01e", key, fmt.Sprintf("%d load site(s) are reachable only after the output-definition comparison returned nil", len(loadSites)), bad, c.P.InstrPos(validators[0]))
}

func reachesAny(r map[*ssa.Function]bool, set map[*ssa.Function]bool) bool {
	for f := range set {
		if r[f] {
			return true
		}
	}
	return false
}

// R01q: declared outputs keep their declared order. `$(output :dep N)` in a dependant's command and the stored
// target result both address outputs by position; Target.AllOutputs() hands out the Outputs slice itself (or an
// append to it), so anything that sorts or overwrites through that slice reorders the target's own declaration
// for the rest of the build — differently depending on whether the target executed or was restored.
func ruleDeclaredOrderKept(c *Check, rule string) {
	c.Rule(rule, "outside internal/loading nothing sorts in place, overwrites an element of, or re-slices-and-stores through a slice that aliases Target.Outputs (the field itself or the result of AllOutputs()); copies are fine", 1)
	outputs := fk("model.Target", "Outputs")
	allOut := c.P.Func("model", "Target", "AllOutputs")
	n := 0
	for _, fn := range c.P.Funcs {
		if engine.InPackage(fn, "loading") || engine.InPackage(fn, "proto/gen") || fn == allOut {
			continue
		}
		var src []ssa.Value
		for _, b := range fn.Blocks {
			for _, in := range b.Instrs {
				switch x := in.(type) {
				case *ssa.Call:
					if allOut != nil && x.Call.StaticCallee() == allOut {
						src = append(src, x)
					}
				case *ssa.UnOp:
					if fa, ok := x.X.(*ssa.FieldAddr); ok && x.Op == token.MUL && engine.FieldKeyOf(fa.X.Type(), fa.Field) == outputs {
						src = append(src, x)
					}
				}
			}
		}
		if len(src) == 0 {
			continue
		}
		n++
		aliases := func(v ssa.Value) bool {
			roots := sliceRoots(v)
			for _, a := range src {
				if roots[a] {
					return true
				}
			}
			return false
		}
		bad, pos := "", ""
		for _, b := range fn.Blocks {
			for _, in := range b.Instrs {
				switch x := in.(type) {
				case ssa.CallInstruction:
					name := engine.CalleeName(x)
					if (sortFuncs[name] || name == "slices.Reverse" || strings.HasPrefix(name, "slices.Sort") || strings.HasPrefix(name, "sort.S")) && len(x.Common().Args) > 0 && aliases(x.Common().Args[0]) {
						bad, pos = name+" reorders the target's declared outputs in place", c.P.InstrPos(x)
					}
				case *ssa.Store:
					if ia, ok := x.Addr.(*ssa.IndexAddr); ok && aliases(ia.X) {
						bad, pos = "an element of the target's declared outputs is overwritten", c.P.InstrPos(x)
					}
				}
			}
		}
		c.Require(bad == "", rule, "declared-order-kept/"+c.P.FuncName(fn), "the declared outputs are only read (or copied first)", bad+": positions used by $(output :dep N) and by the stored result now depend on whether this code ran, so a dependant built after a cache restore of the dependency sees a different output than after its execution", pos)
	}
	if n == 0 {
		c.Unknown(rule, "declared-order-kept", "no function outside internal/loading reads Target.Outputs: the rule lost its subject", "-")
	}
}

// R01s: the output hash of a target covers its whole output record on every path. Dependants key on it; a hash
// that for some kinds of output is computed from the content digest alone no longer says where the content is
// (two outputs exchanging their contents, a renamed output) or whether it is executable.
func ruleOutputHashCoversRecord(c *Check, rule string) {
	c.Rule(rule, "in the function that hashes output records, every per-output value that is collected or written to the hasher and that depends on the serialised record (Marshal of the output) depends on it on every path: it is not merged with an alternative computed from something else", 1)
	n := 0
	for _, fn := range c.P.Funcs {
		if !engine.InPackage(fn, "output") {
			continue
		}
		var marshals []ssa.Value
		for _, s := range engine.SitesIn(fn) {
			if strings.HasSuffix(engine.CalleeName(s), "proto.MarshalOptions).Marshal") || engine.CalleeName(s) == "google.golang.org/protobuf/proto.Marshal" {
				for _, a := range s.Common().Args {
					if mi, ok := a.(*ssa.MakeInterface); ok {
						a = mi.X
					}
					if engine.TypeKey(a.Type()) == "proto/gen.Output" && s.Value() != nil {
						marshals = append(marshals, s.Value())
					}
				}
			}
		}
		if len(marshals) == 0 {
			continue
		}
		n++
		isRead := func(v ssa.Value) bool {
			for _, m := range marshals {
				if v == m {
					return true
				}
			}
			return false
		}
		// sinks: what is appended to a list of digests, and what is written to a hasher, in this function
		var vals []ssa.Value
		for _, b := range fn.Blocks {
			for _, in := range b.Instrs {
				if st, ok := in.(*ssa.Store); ok && isStringType(st.Val.Type()) {
					if ia, ok := st.Addr.(*ssa.IndexAddr); ok {
						if al, ok := ia.X.(*ssa.Alloc); ok && al.Comment == "varargs" {
							vals = append(vals, st.Val)
						}
					}
				}
			}
		}
		for _, hs := range hasherSinks(c) {
			if hs.Call.Parent() == fn {
				vals = append(vals, hs.Val)
			}
		}
		why := dilutedSource(c, isRead, vals)
		c.Require(why == "", rule, "output-hash-covers-record/"+c.P.FuncName(fn), "the serialised record reaches the combined hash on every path", "the serialised output record is only one of the alternatives that are hashed ("+why+"): for some outputs the hash is computed from something narrower (the content digest alone, say), so exchanging the contents of two outputs, renaming an output or changing its executable bit leaves the target's output hash — and the keys of its dependants — unchanged", c.P.Pos(fn.Pos()))
	}
	if n == 0 {
		c.Unknown(rule, "output-hash-covers-record", "no function of internal/output serialises an output record for hashing", "-")
	}
}
