package rules

import (
	"fmt"
	"go/constant"
	"go/token"
	"go/types"
	"sort"
	"strconv"
	"strings"

	"golang.org/x/tools/go/ssa"

	"grogverif/engine"
)

func init() { register("C11", runC11) }

func runC11(c *Check, tier string) {
	c.Decides = "every route to execution passes node-map construction, graph construction (nil-dependency test, cycle search, output-conflict detection) and the target-constraint check, each stopping on its error; the workspace-escape check is applied to every output kind whose identifier is a filesystem path; label-defining map inserts are guarded by a lookup of the same key whose 'found' branch fails; the test/testonly rule resolves every BuildNode kind; overlap predicates are evaluated for all pairs; the cycle search starts from every node and its start loop is never left early with the verdict 'no cycle'."
	c.NotDec = "correctness of the cycle search and overlap predicates on all inputs, completeness ('every graph free of defects is accepted')."
	ruleR11a(c)
	ruleR11b(c)
	ruleR11c(c)
	ruleR11d(c)
	ruleR11e(c)
	ruleR11f(c)
	// the validators must not reuse a verdict reached for one (dependant, dependency) pair for another
	ruleSkipSetKeyComplete(c, "R11g", "analysis", "dag", "model")
	ruleMemoKeyComplete(c, "R11h", "analysis", "dag", "model")
	// the root package has one spelling in labels
	ruleRootPackageCanonical(c, "R11i", 3)
	ruleR11j(c)
	ruleR11k(c)
	ruleR11l(c)
	ruleEveryLoadedPackageRegistered(c, "R11m")
	// the workspace root as a directory output contains every path
	rulePrefixContainmentHandlesDot(c, "R11n")
	ruleOutputIdentity(c, "R11o")
	// the ancestor sets the conflict detection compares are computed from the declared edges
	ruleAdjacencyNotAliased(c, "R11p")
	ruleEscapeTestSeesWholePattern(c, "R11q")
}

func isNoReturnCall(in ssa.Instruction) bool {
	if call, ok := in.(ssa.CallInstruction); ok {
		n := engine.CalleeName(call)
		return n == "os.Exit" || strings.HasSuffix(n, ".Fatalf") || strings.HasSuffix(n, ".Fatal") || strings.HasSuffix(n, "log.Fatalf")
	}
	_, isPanic := in.(*ssa.Panic)
	return isPanic
}

func ruleR11a(c *Check) {
	c.Rule("R11a", "the graph builder returns a graph only after the unknown-dependency test, the cycle search and the conflict detection all passed; the graph loaders stop (no return) when node-map construction or graph construction fails; the build command reaches the executor only after the constraint check returned no errors; every caller of the build driver passes a graph produced by such a loader", 7)
	build := anchor(c, "R11a", "analysis", "", "BuildGraph")
	nodeMap := anchor(c, "R11a", "model", "", "BuildNodeMapFromPackages")
	constraints := anchor(c, "R11a", "analysis", "", "CheckTargetConstraints")
	exec := anchor(c, "R11a", "execution", "Executor", "Execute")
	if build == nil || nodeMap == nil || constraints == nil || exec == nil {
		return
	}
	bname := c.P.FuncName(build)
	// inside BuildGraph
	findCycle := c.P.Func("dag", "DirectedTargetGraph", "FindCycle")
	var conflicts *ssa.Function
	for _, s := range engine.SitesIn(build) {
		for _, f := range c.G.Callees[s] {
			if engine.InPackage(f, "analysis") && engine.ErrResultIndex(f.Signature) >= 0 && f != build {
				conflicts = f
			}
		}
	}
	// A validator may be called by the builder itself or by a helper the builder was split into. It "passed"
	// at a call site when every successful return of the enclosing function is reached through that site and,
	// from it, only through its success edge; a helper is then itself a validator of its callers.
	region := regionOf(c, build)
	var passedAt func(f *ssa.Function, call ssa.CallInstruction, depth int) bool
	passedAt = func(f *ssa.Function, call ssa.CallInstruction, depth int) bool {
		var okEdge func(b *ssa.BasicBlock, i int) bool
		if engine.ErrResultIndex(call.Common().Signature()) >= 0 {
			okEdge = engine.NilErrEdgesOf(call)
		} else {
			// (cycle, found bool): success only on the !found edge
			okEdge = engine.CutEdgesWhere(atomFromCall("false", 1, call))
		}
		succ := successReturn
		if engine.ErrResultIndex(f.Signature) < 0 {
			return false
		}
		r1, _ := nilReturnReachable(f, engine.PathQuery{CutInstr: engine.IsInstr(call), Shallow: true}, 0)
		r2, _ := engine.PathExists(f, call, succ, engine.PathQuery{CutEdge: okEdge, Shallow: true})
		if r1 || r2 {
			return false
		}
		if f == build {
			return true
		}
		if depth > 2 {
			return false
		}
		callers := 0
		for _, cs := range c.G.CallersOf(f) {
			if !region[cs.Parent()] {
				continue
			}
			callers++
			if !passedAt(cs.Parent(), cs, depth+1) {
				return false
			}
		}
		return callers > 0
	}
	for what, callee := range map[string]*ssa.Function{"cycle-search": findCycle, "conflict-detection": conflicts} {
		key := "graph-validated/" + what + "/" + bname
		if callee == nil {
			c.Bad("R11a", key, "the graph builder does not run the "+what, c.P.Pos(build.Pos()))
			continue
		}
		var calls []ssa.CallInstruction
		for f := range region {
			if f != callee {
				calls = append(calls, callsToFn(c, f, callee)...)
			}
		}
		sort.Slice(calls, func(i, j int) bool { return calls[i].Pos() < calls[j].Pos() })
		if len(calls) == 0 {
			c.Bad("R11a", key, "the graph builder does not run the "+what, c.P.Pos(build.Pos()))
			continue
		}
		ok := false
		for _, call := range calls {
			if passedAt(call.Parent(), call, 0) {
				ok = true
			}
		}
		c.Require(ok, "R11a", key, "a graph is returned only after the "+what+" ran and found nothing", "the graph builder can return a graph without the "+what+" having passed: an invalid graph would be executed", c.P.InstrPos(calls[0]))
	}
	// unknown dependency: a nil node from the map lookup must lead to an error before AddEdge
	top := build
	addEdge := c.P.Func("dag", "DirectedTargetGraph", "AddEdge")
	if addEdge != nil {
		var edgeCalls []ssa.CallInstruction
		for f := range region {
			edgeCalls = append(edgeCalls, callsToFn(c, f, addEdge)...)
		}
		sort.Slice(edgeCalls, func(i, j int) bool { return edgeCalls[i].Pos() < edgeCalls[j].Pos() })
		for _, ae := range edgeCalls {
			build := ae.Parent() // the builder itself or the helper that adds the edges
			dep := ae.Common().Args[1]
			reach, _ := engine.PathExists(build, nil, engine.IsInstr(ae), engine.PathQuery{CutEdge: engine.CutEdgesWhere(func(a engine.Atom) bool {
				if a.Op != "nonnil" && !(a.Op == "true") {
					return false
				}
				if a.Op == "true" {
					ex, ok := a.V.(*ssa.Extract)
					if !ok || ex.Index != 1 {
						return false
					}
					_, isLk := ex.Tuple.(*ssa.Lookup)
					return isLk
				}
				return sameVar(a.V, dep) || a.V == dep
			})})
			r2, _ := engine.PathExists(build, ae, successReturn, engine.PathQuery{CutEdge: engine.NilErrEdgesOf(ae)})
			if !r2 && build != top {
				// the helper's error has to stop the builder
				stops := false
				for _, cs := range c.G.CallersOf(build) {
					if region[cs.Parent()] && passedAt(cs.Parent(), cs, 0) {
						stops = true
					}
				}
				r2 = !stops
			}
			c.Require(!reach && !r2, "R11a", "unknown-dependency-rejected/"+bname, "an edge is added only for a dependency found in the node map, and AddEdge's error (self-loop, unknown node) is returned", "a dependency on an undefined label (nil node) or a self-loop can slip into the graph", c.P.InstrPos(ae))
		}
	}
	// loaders: functions calling both nodeMap and build
	var loaders []*ssa.Function
	for _, fn := range c.G.CallerFuncs(build) {
		if callsFn(c, fn, nodeMap) {
			loaders = append(loaders, fn)
		}
	}
	if len(loaders) == 0 {
		c.Unknown("R11a", "loader-stops-on-error", "no function calls both the node-map constructor and the graph builder", "-")
	}
	isRet := func(in ssa.Instruction) bool { _, r := in.(*ssa.Return); return r }
	for _, fn := range loaders {
		bad := ""
		for _, callee := range []*ssa.Function{nodeMap, build} {
			for _, s := range callsToFn(c, fn, callee) {
				if r, _ := engine.PathExists(fn, s, isRet, engine.PathQuery{CutEdge: engine.NilErrEdgesOf(s), CutInstr: isNoReturnCall}); r {
					bad = "the loader can return a graph although " + c.P.FuncName(callee) + " failed"
				}
			}
		}
		// the build must use the map just constructed
		for _, s := range callsToFn(c, fn, build) {
			set := map[ssa.CallInstruction]int{}
			for _, m := range callsToFn(c, fn, nodeMap) {
				set[m] = 0
			}
			if !engine.OriginsAllFromCall(s.Common().Args[0], set, false) {
				bad = "the graph is not built from the duplicate-checked node map"
			}
		}
		c.Require(bad == "", "R11a", "loader-stops-on-error/"+c.P.FuncName(fn), "duplicate-label and graph errors are fatal; the graph is built from the checked node map", bad, c.P.Pos(fn.Pos()))
	}
	// drivers: functions that call Execute
	for _, fn := range c.G.CallerFuncs(exec) {
		fname := c.P.FuncName(fn)
		cc := callsToFn(c, fn, constraints)
		ec := callsToFn(c, fn, exec)
		ok := len(cc) > 0
		for _, e := range ec {
			for _, k := range cc {
				if r, _ := engine.PathExists(fn, nil, engine.IsInstr(e), engine.PathQuery{CutInstr: engine.IsInstr(k)}); r {
					ok = false
				}
				if r, _ := engine.PathExists(fn, k, engine.IsInstr(e), engine.PathQuery{CutInstr: isNoReturnCall, CutEdge: engine.CutEdgesWhere(func(a engine.Atom) bool {
					arg, isLen := lenArg(a.V)
					if !isLen {
						return false
					}
					kk, isK := a.Other.(*ssa.Const)
					if !isK || kk.Value == nil || kk.Int64() != 0 || !(a.Op == "le" || a.Op == "eq") {
						return false
					}
					return engine.OriginsAllFromCall(arg, map[ssa.CallInstruction]int{k: 0}, false)
				})}); r {
					ok = false
				}
			}
		}
		c.Require(ok, "R11a", "constraints-before-execute/"+fname, "the executor is reachable only through `len(constraint errors) == 0`", "the executor can be started although the target-constraint check (escaping inputs/outputs, test/testonly dependencies) reported errors, or without running it", c.P.Pos(fn.Pos()))
		// the check is given every node of the loaded graph, not a selection of it
		getNodes := c.P.Func("dag", "DirectedTargetGraph", "GetNodes")
		for _, k := range cc {
			whole, what := getNodes != nil, "anchor-unresolved: DirectedTargetGraph.GetNodes"
			for _, a := range k.Common().Args {
				if engine.TypeKey(a.Type()) != "model.BuildNodeMap" {
					continue
				}
				for _, o := range engine.Origins(a) {
					call, _ := engine.CallOf(o)
					if call == nil || call.Common().StaticCallee() != getNodes || len(call.Common().Args) == 0 {
						whole, what = false, "the constraint check is not given graph.GetNodes() of the loaded graph"
						continue
					}
					recv := call.Common().Args[0]
					fromParam := false
					for _, ro := range engine.Origins(recv) {
						if _, isP := ro.(*ssa.Parameter); isP {
							fromParam = true
						} else if !graphFromLoader(c, recv, loaders, 0) {
							fromParam = false
							break
						} else {
							fromParam = true
						}
					}
					if !fromParam {
						whole, what = false, "the constraint check runs over the nodes of a derived graph (a selected subgraph, say), not of the loaded one"
					}
				}
			}
			c.Require(whole, "R11a", "constraints-cover-whole-graph/"+fname, "the constraint check receives GetNodes() of the graph the driver was given", what+": a defect in a target outside that subset (a testonly dependency, an escaping output) is not reported and the build proceeds", c.P.InstrPos(k))
		}
		// callers pass a loader-produced graph
		for _, cs := range c.G.CallersOf(fn) {
			okG := false
			for _, a := range cs.Common().Args {
				if engine.TypeKey(a.Type()) != "dag.DirectedTargetGraph" {
					continue
				}
				okG = graphFromLoader(c, a, loaders, 0)
			}
			c.Require(okG, "R11a", "driver-gets-validated-graph/"+c.P.FuncName(cs.Parent()), "the graph handed to the build driver comes from a validating loader", "the build driver is given a graph that did not come from a validating loader", c.P.InstrPos(cs))
		}
	}
	// `check` runs the same validators
	cmds := cobraCommands(c)
	if chk := cmds["check"]; chk != nil {
		reach := c.G.ReachableFuncs([]*ssa.Function{chk}, nil)
		c.Require(reach[build] && reach[nodeMap] && reach[constraints], "R11a", "check-runs-all-validators", "`grog check` reaches node-map construction, graph construction and the constraint check", "`grog check` no longer runs every validator the build runs", c.P.Pos(chk.Pos()))
	} else {
		c.Unknown("R11a", "check-runs-all-validators", "anchor-unresolved: cobra command `check` not found", "-")
	}
}

// ---------------------------------------------------------------------------
// R11b: the workspace-escape check covers every path-typed output kind.

// pathKinds: output kinds whose handler turns Output.Identifier into a filesystem path.
func pathKinds(c *Check) map[string]bool {
	out := map[string]bool{}
	h := c.P.Type("output/handlers", "Handler")
	absOut := c.P.Func("model", "Target", "GetAbsOutputPath")
	for _, w := range methodImpls(c, h, "Write") {
		reach := c.G.ReachableFuncs([]*ssa.Function{w}, func(f *ssa.Function) bool { return !engine.InPackage(f, "output/handlers") && f != absOut })
		if absOut != nil && reach[absOut] {
			// its Type() constant
			recv := w.Signature.Recv().Type()
			if tf := c.P.Func("output/handlers", engine.NamedOf(recv).Obj().Name(), "Type"); tf != nil {
				for _, r := range engine.Returns(tf) {
					if k, ok := r.Results[0].(*ssa.Const); ok && k.Value != nil && k.Value.Kind() == constant.String {
						out[constant.StringVal(k.Value)] = true
					}
				}
			}
		}
	}
	return out
}

// typeAtomKind: if the atom compares Output.Type (directly or through a one-line
// predicate such as IsFile()) with a string constant, return the constant and
// whether the edge establishes equality.
func typeAtomKind(c *Check, a engine.Atom) (string, bool, bool) {
	typeKey := fk("model.Output", "Type")
	isTypeRead := func(v ssa.Value) bool {
		if isLoadOfField(v, typeKey) {
			return true
		}
		if f, ok := v.(*ssa.Field); ok && engine.FieldKeyOf(f.X.Type(), f.Field) == typeKey {
			return true
		}
		return false
	}
	constStr := func(v ssa.Value) (string, bool) {
		for _, o := range append(engine.Origins(v), v) {
			if k, ok := o.(*ssa.Const); ok && k.Value != nil && k.Value.Kind() == constant.String {
				return constant.StringVal(k.Value), true
			}
			if cv, ok := o.(*ssa.Convert); ok {
				if k, ok := cv.X.(*ssa.Const); ok && k.Value != nil && k.Value.Kind() == constant.String {
					return constant.StringVal(k.Value), true
				}
			}
		}
		return "", false
	}
	if (a.Op == "eq" || a.Op == "ne") && a.Other != nil {
		if isTypeRead(a.V) {
			if s, ok := constStr(a.Other); ok {
				return s, a.Op == "eq", true
			}
		}
		if isTypeRead(a.Other) {
			if s, ok := constStr(a.V); ok {
				return s, a.Op == "eq", true
			}
		}
	}
	if a.Op == "true" || a.Op == "false" {
		if call, _ := engine.CallOf(a.V); call != nil {
			for _, f := range c.G.Callees[call] {
				rets := engine.Returns(f)
				if len(rets) == 1 && len(rets[0].Results) == 1 {
					if b, ok := rets[0].Results[0].(*ssa.BinOp); ok && b.Op == token.EQL {
						if isTypeRead(b.X) {
							if s, ok := constStr(b.Y); ok {
								return s, a.Op == "true", true
							}
						}
					}
				}
			}
		}
	}
	return "", false, false
}

// kindCut: cuts the branch edges that are impossible for an output of kind k.
func kindCut(c *Check, k string) func(b *ssa.BasicBlock, i int) bool {
	return engine.CutEdgesWhere(func(a engine.Atom) bool {
		s, eq, ok := typeAtomKind(c, a)
		if !ok {
			return false
		}
		if eq {
			return s != k // edge requires Type == s
		}
		return s == k // edge requires Type != k
	})
}

func ruleR11b(c *Check) {
	c.Rule("R11b", "the workspace-escape check (isWithinWorkspace) is reached for outputs of every kind whose handler uses the identifier as a filesystem path (computed from the handlers: file, dir)", 2)
	within := withinWorkspaceFunc(c, "R11b")
	if within == nil {
		return
	}
	kinds := pathKinds(c)
	if len(kinds) < 2 {
		c.Unknown("R11b", "anchor/path-kinds", fmt.Sprintf("expected at least the file and dir kinds to be path-typed, computed %v", kinds), "-")
		return
	}
	var ks []string
	for k := range kinds {
		ks = append(ks, k)
	}
	sort.Strings(ks)
	for _, fn := range c.G.CallerFuncs(within) {
		if !engine.InPackage(fn, "analysis") || strings.HasSuffix(c.P.Pos(fn.Pos()), "_test.go") {
			continue
		}
		calls := callsToFn(c, fn, within)
		lp := engine.LoopOf(calls[0])
		for _, k := range ks {
			key := "escape-check-covers/" + k + "/" + c.P.FuncName(fn)
			if lp == nil || lp.RangedValue() == nil {
				c.Unknown("R11b", key, "the escape check is not inside a recognised loop over the outputs", c.P.InstrPos(calls[0]))
				continue
			}
			admitted := false
			why := ""
			rv := lp.RangedValue()
			if prod, _ := engine.CallOf(rv); prod != nil && len(c.G.Callees[prod]) > 0 {
				for _, g := range c.G.Callees[prod] {
					// does the producer append for kind k?
					filtered := false
					for _, b := range g.Blocks {
						for i := range b.Succs {
							if a, ok := engine.EdgeAtom(b, i); ok {
								if _, _, isT := typeAtomKind(c, a); isT {
									filtered = true
								}
							}
						}
					}
					if !filtered {
						admitted = true
						continue
					}
					for _, s := range engine.SitesIn(g) {
						if call, ok := s.(*ssa.Call); ok {
							if bi, ok := call.Call.Value.(*ssa.Builtin); ok && bi.Name() == "append" {
								if r, _ := engine.PathExists(g, nil, engine.IsInstr(call), engine.PathQuery{CutEdge: kindCut(c, k)}); r {
									admitted = true
								}
							}
						}
					}
					if !admitted {
						why = "the checked list comes from " + c.P.FuncName(g) + ", which only collects other kinds"
					}
				}
			} else {
				admitted = true
			}
			if admitted {
				// and inside the checking function the call must be reachable for kind k
				if r, _ := engine.PathExists(fn, nil, engine.IsInstr(calls[0]), engine.PathQuery{CutEdge: kindCut(c, k)}); !r {
					admitted = false
					why = "the check is skipped for this kind inside " + c.P.FuncName(fn)
				}
			}
			c.Require(admitted, "R11b", key, "outputs of kind "+k+" reach the escape check", "outputs of kind `"+k+"` are never checked against the workspace boundary ("+why+"): `"+k+"::../../x` is accepted, and a restore of that output would write (for dir: RemoveAll) outside the workspace", c.P.InstrPos(calls[0]))
		}
	}
}

// ---------------------------------------------------------------------------
// R11c: guarded inserts

func ruleR11c(c *Check) {
	c.Rule("R11c", "every insert into a label-keyed node/target/alias map in the model and loading packages is dominated by a lookup of the same key in the same map whose 'found' branch returns an error; alias inserts additionally check the sibling target map", 5)
	isLabelMap := func(t types.Type) bool {
		m, ok := t.Underlying().(*types.Map)
		return ok && engine.TypeKey(m.Key()) == "label.TargetLabel"
	}
	for _, fn := range c.P.Funcs {
		if !(engine.InPackage(fn, "model") || engine.InPackage(fn, "loading")) {
			continue
		}
		// tabled: test helper that builds a map from nodes known to be distinct
		if fn.Name() == "BuildNodeMapFromNodes" {
			continue
		}
		for _, b := range fn.Blocks {
			for _, in := range b.Instrs {
				mu, ok := in.(*ssa.MapUpdate)
				if !ok || !isLabelMap(mu.Map.Type()) {
					continue
				}
				key := "guarded-insert/" + c.P.FuncName(fn) + "/" + engine.TypeKey(mu.Map.Type().Underlying().(*types.Map).Elem())
				guard := func(a engine.Atom) bool {
					// never-seen on the same map and key
					var lk *ssa.Lookup
					switch a.Op {
					case "false":
						if ex, ok := a.V.(*ssa.Extract); ok && ex.Index == 1 {
							lk, _ = ex.Tuple.(*ssa.Lookup)
						}
					case "nil":
						lk, _ = a.V.(*ssa.Lookup)
						if lk == nil {
							if ex, ok := a.V.(*ssa.Extract); ok && ex.Index == 0 {
								lk, _ = ex.Tuple.(*ssa.Lookup)
							}
						}
					}
					if lk == nil {
						return false
					}
					sameMap := sameVar(lk.X, mu.Map) || engine.ExprKey(lk.X) == engine.ExprKey(mu.Map)
					sameKey := sameVar(lk.Index, mu.Key) || engine.ExprKey(lk.Index) == engine.ExprKey(mu.Key)
					return sameMap && sameKey
				}
				reach, _ := engine.PathExists(fn, nil, engine.IsInstr(mu), engine.PathQuery{CutEdge: engine.CutEdgesWhere(guard)})
				c.Require(!reach, "R11c", key, "the insert is reachable only through the 'key not present' branch of a lookup in the same map", "a label is inserted without checking that it is not already present: a duplicate label silently replaces (shadows) the earlier node instead of being rejected", c.P.InstrPos(mu))
			}
		}
	}
}

// R11d: the test/testonly rule resolves every node kind
func ruleR11d(c *Check) {
	c.Rule("R11d", "the dependency-constraint check resolves a dependency label through every BuildNode implementer (aliases are followed to their target)", 1)
	ctc := c.P.Func("analysis", "", "CheckTargetConstraints")
	if ctc == nil {
		return
	}
	impls := buildNodeImplementers(c)
	bn := c.P.Type("model", "BuildNode")
	reach := c.G.ReachableFuncs([]*ssa.Function{ctc}, func(f *ssa.Function) bool { return !engine.InPackage(f, "analysis") })
	done := false
	for fn := range reach {
		if !engine.InPackage(fn, "analysis") || !readsField(c, fn, fk("model.Alias", "Actual")) && !strings.Contains(fn.Name(), "resolve") {
			continue
		}
		asserted := map[string]bool{}
		for _, b := range fn.Blocks {
			for _, in := range b.Instrs {
				if ta, ok := in.(*ssa.TypeAssert); ok && types.Identical(ta.X.Type(), bn) {
					asserted[ta.AssertedType.String()] = true
				}
			}
		}
		if len(asserted) == 0 {
			continue
		}
		done = true
		var missing []string
		for _, im := range impls {
			if !asserted[im.String()] {
				missing = append(missing, im.String())
			}
		}
		c.Require(len(missing) == 0, "R11d", "constraint-resolves-all-kinds/"+c.P.FuncName(fn), "targets and aliases are both resolved", "dependencies of kind "+strings.Join(missing, ", ")+" are not resolved by the test/testonly rule: a forbidden dependency hidden behind such a node is accepted", c.P.Pos(fn.Pos()))
	}
	if !done {
		c.Bad("R11d", "constraint-resolves-all-kinds", "the dependency-constraint check has no resolution through aliases at all", c.P.Pos(ctc.Pos()))
	}
}

// R11f: the cycle search is started from every node.
func ruleR11f(c *Check) {
	c.Rule("R11f", "the cycle search starts its depth-first search in a loop over all nodes of the graph, and that loop is never left early with the verdict 'no cycle' (a search from one start node says nothing about the nodes it did not reach)", 2)
	fc := anchor(c, "R11f", "dag", "DirectedTargetGraph", "FindCycle")
	if fc == nil {
		return
	}
	fname := c.P.FuncName(fc)
	lits := map[*ssa.Function]bool{}
	for _, f := range engine.AnonFuncsDeep(fc) {
		if f != fc {
			lits[f] = true
		}
	}
	negative := func(in ssa.Instruction) bool {
		r, ok := in.(*ssa.Return)
		if !ok || in.Parent() != fc || len(r.Results) != 2 {
			return false
		}
		k, isK := engine.BoolConst(r.Results[1])
		return !(isK && k)
	}
	nodesKey := fk("dag.DirectedTargetGraph", "nodes")
	allNodes := 0
	searching := 0
	for _, lp := range engine.LoopsOf(fc) {
		searches := false
		for b := range lp.Body {
			for _, in := range b.Instrs {
				if cs, ok := in.(ssa.CallInstruction); ok {
					for _, f := range c.G.CalleesOf(cs) {
						if lits[f] {
							searches = true
						}
						// the search as a (recursive) function or method of its own
						if !lits[f] && engine.InPackage(f, "dag") && f != fc && len(f.Blocks) > 0 {
							for _, inner := range engine.SitesIn(f) {
								for _, g := range c.G.CalleesOf(inner) {
									if g == f {
										searches = true
									}
								}
							}
						}
					}
				}
			}
		}
		if !searches {
			continue
		}
		searching++
		rv := lp.RangedValue()
		if rv != nil && lp.IsFullRange() {
			over := false
			for _, o := range engine.Origins(rv) {
				if o == nil {
					continue
				}
				if isLoadOfField(o, nodesKey) {
					over = true
				}
				// a listing of the node map (sorted, say): a model-package function of the whole map
				if call, _ := engine.CallOf(o); call != nil {
					for _, a := range call.Common().Args {
						if isLoadOfField(a, nodesKey) && len(call.Common().Args) == 1 {
							over = true
						}
					}
				}
			}
			if over {
				allNodes++
			}
		}
		why := lp.EarlyExitReaches(negative)
		c.Require(why == "", "R11f", "search-loop-no-early-negative/"+fname, "the loop that starts searches is left early only with 'cycle found'", "the loop over the start nodes can be left with the verdict 'no cycle' before every node was tried ("+why+"): a cycle that is not reachable from the nodes tried so far is accepted", c.P.Pos(fc.Pos()))
	}
	if searching == 0 {
		c.Unknown("R11f", "search-from-every-node/"+fname, "no loop that starts the recursive search was recognised", c.P.Pos(fc.Pos()))
		return
	}
	c.Require(allNodes > 0, "R11f", "search-from-every-node/"+fname, "a full range over the graph's nodes starts a search from every node not visited yet", "no loop over all nodes of the graph starts the search: cycles among nodes that are not reachable from the chosen start set are never seen", c.P.Pos(fc.Pos()))
}

// R11e: overlap predicates are evaluated for all pairs
func ruleR11e(c *Check) {
	c.Rule("R11e", "each output-overlap predicate call in the conflict detector sits in two nested loops that enumerate all pairs (i from 0, j from i+1 over the same slice; or two full ranges)", 3)
	var det *ssa.Function
	if bg := c.P.Func("analysis", "", "BuildGraph"); bg != nil {
		for _, s := range engine.SitesIn(bg) {
			for _, f := range c.G.Callees[s] {
				if engine.InPackage(f, "analysis") && engine.ErrResultIndex(f.Signature) >= 0 && f != bg {
					det = f
				}
			}
		}
	}
	if det == nil {
		c.Unknown("R11e", "anchor/conflict-detector", "anchor-unresolved", "-")
		return
	}
	n := 0
	// the detector and the function literals it defines (a pair enumerator written as a closure, say)
	var detSites []ssa.CallInstruction
	isPredicate := func(f *ssa.Function) bool {
		return engine.InPackage(f, "analysis") && f.Signature.Results().Len() == 1 && f.Signature.Results().At(0).Type().String() == "bool" && f.Signature.Params().Len() >= 2
	}
	// ... and the functions of the package it was split into (methods of a finder object, say), but not the
	// bodies of the pairwise predicates themselves
	detRegion := c.G.ReachableFuncs([]*ssa.Function{det}, func(f *ssa.Function) bool { return f != det && (!engine.InPackage(f, "analysis") || isPredicate(engine.TopFunc(f))) })
	for _, f := range c.P.Funcs {
		top := engine.TopFunc(f)
		if f == det || top == det || (detRegion[top] && engine.InPackage(top, "analysis") && !isPredicate(top)) {
			detSites = append(detSites, engine.SitesIn(f)...)
		}
	}
	sort.Slice(detSites, func(i, j int) bool { return detSites[i].Pos() < detSites[j].Pos() })
	// loops around a site, continued through the single call site of the enclosing literal
	var effectiveLoops func(at ssa.Instruction, depth int) []*engine.Loop
	effectiveLoops = func(at ssa.Instruction, depth int) []*engine.Loop {
		loops := engine.LoopsContaining(at)
		fn := at.Parent()
		if depth < 3 && fn != det {
			if callers := c.G.CallersOf(fn); len(callers) == 1 {
				loops = append(loops, effectiveLoops(callers[0], depth+1)...)
			}
		}
		return loops
	}
	for _, s := range detSites {
		isPred := false
		for _, f := range c.G.Callees[s] {
			if engine.InPackage(f, "analysis") && f.Signature.Results().Len() == 1 && f.Signature.Results().At(0).Type().String() == "bool" && f.Signature.Params().Len() >= 2 {
				isPred = true
			}
		}
		if !isPred {
			continue
		}
		n++
		loops := effectiveLoops(s, 0)
		ok := false
		why := fmt.Sprintf("nested in %d loop(s)", len(loops))
		if len(loops) >= 2 {
			inner, outer := loops[0], loops[1]
			if inner.IsFullRange() && outer.IsFullRange() && rangesWholeOrTail(inner, outer) {
				ok = true
			} else if triangular(inner, outer) {
				ok = true
			} else {
				why = "the two loops do not enumerate all pairs"
			}
		}
		c.Require(ok, "R11e", "all-pairs/"+siteKey(c, s), "evaluated for every pair of candidates", "the overlap predicate is not evaluated for all pairs ("+why+"): conflicts between non-adjacent candidates are missed", c.P.InstrPos(s))
	}
	if n == 0 {
		c.Bad("R11e", "all-pairs", "the conflict detector evaluates no pairwise predicate", c.P.Pos(det.Pos()))
	}
}

// rangesWholeOrTail: the inner full range is over a whole collection, or over S[i+1:] where the outer
// loop ranges over the same S with index i (each unordered pair once).
func rangesWholeOrTail(inner, outer *engine.Loop) bool {
	sl, ok := inner.RangedValue().(*ssa.Slice)
	if !ok {
		return true
	}
	if sl.High != nil || sl.Max != nil {
		return false
	}
	if sl.Low == nil {
		return true
	}
	add, ok := sl.Low.(*ssa.BinOp)
	if !ok || add.Op != token.ADD {
		return false
	}
	if k, ok := add.Y.(*ssa.Const); !ok || k.Int64() != 1 {
		return false
	}
	// add.X is the outer loop's index: a phi of the outer header (or derived from its range iterator)
	idxOK := false
	for _, o := range engine.Origins(add.X) {
		if in, ok := o.(ssa.Instruction); ok && in.Block() != nil && outer.Body[in.Block()] {
			idxOK = true
		}
	}
	outerColl := outer.RangedValue()
	return idxOK && outerColl != nil && (sameSlice(outerColl, sl.X) || engine.ExprKey(outerColl) == engine.ExprKey(sl.X))
}

// triangular: for i := 0; i < len(S); i++ { for j := i+1; j < len(S); j++ {...} }
func triangular(inner, outer *engine.Loop) bool {
	oi, os, ok1 := countedLoop(outer)
	ji, js, ok2 := countedLoop(inner)
	if !ok1 || !ok2 {
		return false
	}
	if k, ok := oi.(*ssa.Const); !ok || k.Int64() != 0 {
		return false
	}
	// inner init = outer phi + 1
	b, ok := ji.(*ssa.BinOp)
	if !ok || b.Op != token.ADD {
		return false
	}
	if k, ok := b.Y.(*ssa.Const); !ok || k.Int64() != 1 {
		return false
	}
	if _, ok := b.X.(*ssa.Phi); !ok || b.X.(*ssa.Phi).Block() != outer.Header {
		return false
	}
	return sameSlice(os, js) || engine.ExprKey(os) == engine.ExprKey(js)
}

// countedLoop: header `phi < len(S)` with phi = [init, phi+1]; returns init and S.
func countedLoop(lp *engine.Loop) (init ssa.Value, coll ssa.Value, ok bool) {
	ifi, isIf := lastIf(lp.Header)
	if !isIf {
		return nil, nil, false
	}
	cmp, isCmp := ifi.Cond.(*ssa.BinOp)
	if !isCmp || cmp.Op != token.LSS {
		return nil, nil, false
	}
	phi, isPhi := cmp.X.(*ssa.Phi)
	if !isPhi || phi.Block() != lp.Header {
		return nil, nil, false
	}
	arg, isLen := lenArg(cmp.Y)
	if !isLen {
		return nil, nil, false
	}
	step := false
	for _, e := range phi.Edges {
		if b, ok := e.(*ssa.BinOp); ok && b.Op == token.ADD && b.X == ssa.Value(phi) {
			if k, ok := b.Y.(*ssa.Const); ok && k.Int64() == 1 {
				step = true
				continue
			}
		}
		init = e
	}
	return init, arg, step && init != nil
}

// graphFromLoader: every origin of the graph value is the result of a validating
// loader, possibly through parameters (checked at every call site, three levels).
func graphFromLoader(c *Check, v ssa.Value, loaders []*ssa.Function, depth int) bool {
	if depth > 3 {
		return false
	}
	orig := engine.Origins(v)
	if len(orig) == 0 {
		return false
	}
	for _, o := range orig {
		if o == nil {
			return false
		}
		if call, _ := engine.CallOf(o); call != nil {
			hit := false
			for _, f := range c.G.Callees[call] {
				for _, l := range loaders {
					if f == l {
						hit = true
					}
				}
			}
			if !hit {
				return false
			}
			continue
		}
		prm, ok := o.(*ssa.Parameter)
		if !ok {
			return false
		}
		fn := prm.Parent()
		idx := -1
		for i, p := range fn.Params {
			if p == prm {
				idx = i
			}
		}
		callers := c.G.CallersOf(fn)
		if idx < 0 || len(callers) == 0 {
			return false
		}
		for _, cs := range callers {
			args := cs.Common().Args
			if len(args) != len(fn.Params) || !graphFromLoader(c, args[idx], loaders, depth+1) {
				return false
			}
		}
	}
	return true
}

// cleanPathValue: every origin of v is the result of filepath.Clean / filepath.Join (which cleans), a constant,
// or of a first-party helper all of whose returns are.
func cleanPathValue(v ssa.Value, depth int) (bool, string) {
	for _, o := range engine.Origins(v) {
		if o == nil {
			continue
		}
		if _, isK := o.(*ssa.Const); isK {
			continue
		}
		call, _ := engine.CallOf(o)
		if call == nil {
			return false, "a value that is not the result of a cleaning call (" + o.Name() + ")"
		}
		switch engine.CalleeName(call) {
		case "path/filepath.Clean", "path/filepath.Join", "path.Clean", "path.Join":
			continue
		}
		h := call.Common().StaticCallee()
		if h == nil || len(h.Blocks) == 0 || depth >= 3 {
			return false, "the result of " + engine.CalleeName(call)
		}
		for _, r := range engine.Returns(h) {
			if len(r.Results) != 1 {
				return false, "the result of " + engine.CalleeName(call)
			}
			if ok, what := cleanPathValue(r.Results[0], depth+1); !ok {
				return false, h.Name() + " can return " + what
			}
		}
	}
	return true, ""
}

// R11j: the conflict detector compares lexically normalised paths. Overlap and equality of output paths are
// decided on strings (map key, prefix test); two spellings of one path (./x and x, a//b and a/b, dist/ and
// dist) are one location for the targets that write them.
func ruleR11j(c *Check) {
	c.Rule("R11j", "every path the conflict detector records for comparison (string fields of its record type) is the result of filepath.Clean / filepath.Join, directly or through a helper all of whose returns are: two spellings of one location compare equal", 1)
	var det *ssa.Function
	if bg := c.P.Func("analysis", "", "BuildGraph"); bg != nil {
		for _, s := range engine.SitesIn(bg) {
			for _, f := range c.G.Callees[s] {
				if engine.InPackage(f, "analysis") && engine.ErrResultIndex(f.Signature) >= 0 && f != bg {
					det = f
				}
			}
		}
	}
	if det == nil {
		c.Unknown("R11j", "anchor/conflict-detector", "anchor-unresolved", "-")
		return
	}
	region := regionOf(c, det)
	n := 0
	for _, f := range c.P.Funcs {
		if !(region[f] || region[engine.TopFunc(f)]) {
			continue
		}
		for _, b := range f.Blocks {
			for _, in := range b.Instrs {
				st, ok := in.(*ssa.Store)
				if !ok || !isStringType(st.Val.Type()) {
					continue
				}
				fa, ok := st.Addr.(*ssa.FieldAddr)
				if !ok {
					continue
				}
				pt, ok := fa.X.Type().Underlying().(*types.Pointer)
				if !ok {
					continue
				}
				named, ok := pt.Elem().(*types.Named)
				if !ok || named.Obj().Pkg() == nil || !strings.HasSuffix(named.Obj().Pkg().Path(), "/analysis") {
					continue
				}
				fieldName := named.Underlying().(*types.Struct).Field(fa.Field).Name()
				if !comparedField(c, region, engine.FieldKeyOf(fa.X.Type(), fa.Field)) {
					continue
				}
				n++
				key := "compared-path-clean/" + named.Obj().Name() + "." + fieldName + "#" + strconv.Itoa(n)
				okClean, what := cleanPathValue(st.Val, 0)
				c.Require(okClean, "R11j", key, "the recorded path is the result of filepath.Clean/Join", "the conflict detector records "+what+": a path spelled ./x, a//b or dist/ does not compare equal to (or within) x, a/b, dist, so two unordered targets that write the same location are accepted", c.P.InstrPos(st))
			}
		}
	}
}

// comparedField: some read of the field in the region is used as a map key or handed to a first-party
// predicate (a bool function) — the field takes part in a comparison of locations.
func comparedField(c *Check, region map[*ssa.Function]bool, key engine.FieldKey) bool {
	for _, f := range c.P.Funcs {
		if !(region[f] || region[engine.TopFunc(f)]) {
			continue
		}
		for _, b := range f.Blocks {
			for _, in := range b.Instrs {
				var v ssa.Value
				switch x := in.(type) {
				case *ssa.UnOp:
					if fa, ok := x.X.(*ssa.FieldAddr); ok && x.Op == token.MUL && engine.FieldKeyOf(fa.X.Type(), fa.Field) == key {
						v = x
					}
				case *ssa.Field:
					if engine.FieldKeyOf(x.X.Type(), x.Field) == key {
						v = x
					}
				}
				if v == nil || v.Referrers() == nil {
					continue
				}
				for _, r := range *v.Referrers() {
					switch u := r.(type) {
					case *ssa.MapUpdate:
						if u.Key == v {
							return true
						}
					case *ssa.Lookup:
						if u.Index == v {
							return true
						}
					case ssa.CallInstruction:
						h := u.Common().StaticCallee()
						if h != nil && engine.IsFirstParty(pkgPathOf(h)) && h.Signature.Results().Len() == 1 && h.Signature.Results().At(0).Type().String() == "bool" {
							return true
						}
					}
				}
			}
		}
	}
	return false
}

// R11k: the package-escape test sees what the user declared. Glob patterns are resolved against the package
// directory (io/fs does not allow ".."), so a pattern that points outside the package matches nothing and never
// shows up in the resolved input list; the test has to look at the declared patterns as well.
func ruleR11k(c *Check) {
	c.Rule("R11k", "the input constraint check reads both the resolved inputs (Target.Inputs) and the declared patterns (Target.UnresolvedInputs), and each flows into the escape predicate", 2)
	ctc := c.P.Func("analysis", "", "CheckTargetConstraints")
	if ctc == nil {
		c.Unknown("R11k", "anchor/analysis.CheckTargetConstraints", "anchor-unresolved", "-")
		return
	}
	reach := c.G.ReachableFuncs([]*ssa.Function{ctc}, func(f *ssa.Function) bool { return !engine.InPackage(f, "analysis") })
	// the escape predicate: a bool function of one string in the analysis package that the check reaches
	var preds []*ssa.Function
	for f := range reach {
		sig := f.Signature
		if engine.InPackage(f, "analysis") && sig.Params().Len() == 1 && isStringType(sig.Params().At(0).Type()) && sig.Results().Len() == 1 && sig.Results().At(0).Type().String() == "bool" {
			preds = append(preds, f)
		}
	}
	if len(preds) == 0 {
		c.Unknown("R11k", "escape-predicate", "no string -> bool predicate reachable from the constraint check", "-")
		return
	}
	var sinks []Node
	for _, p := range preds {
		sinks = append(sinks, p.Params[0])
	}
	back := c.G.Backward(sinks, func(e *engine.Edge) bool {
		return e.Via == nil || reach[e.Via.Parent()] || reach[engine.TopFunc(e.Via.Parent())]
	})
	for _, f := range []string{"Inputs", "UnresolvedInputs"} {
		c.Require(back.Has(fk("model.Target", f)), "R11k", "escape-check-covers/"+f, "Target."+f+" flows into the escape predicate", "Target."+f+" never reaches the escape predicate: "+map[string]string{"Inputs": "a literal input that points outside the package is accepted", "UnresolvedInputs": "an input glob that points outside the package (../lib/*.txt) resolves to nothing, is invisible in the resolved list and is accepted"}[f], c.P.Pos(ctc.Pos()))
	}
}

// R11l: the package-escape test judges what the user wrote. Between the declaration and Target.Inputs only glob
// patterns are expanded; a literal input reaches the resolved list as it was declared (or lexically cleaned).
// Any other rewriting of a literal ("./../x" -> "x", say) can turn an escaping path into an innocent one before
// the test sees it.
func ruleR11l(c *Check) {
	c.Rule("R11l", "in the input resolver a literal (glob-free) input is appended to the resolved list unchanged, or after filepath.Clean / path.Clean only", 1)
	var res *ssa.Function
	for _, fn := range c.P.Funcs {
		globs := len(callsNamed(fn, "github.com/bmatcuk/doublestar/v4.Glob")) > 0
		for _, lit := range engine.AnonFuncsDeep(fn) {
			if len(callsNamed(lit, "github.com/bmatcuk/doublestar/v4.Glob")) > 0 {
				globs = true // the glob call wrapped in a literal of the resolver
			}
		}
		if engine.InPackage(fn, "loading") && fn.Parent() == nil && globs {
			// the one that handles the inputs (not only the exclusions): it tests for glob characters
			if res == nil || len(callsNamed(fn, "strings.ContainsAny")) > 0 {
				res = fn
			}
		}
	}
	if res == nil {
		c.Unknown("R11l", "literal-inputs-unchanged", "anchor-unresolved: no function of internal/loading calls doublestar.Glob", "-")
		return
	}
	isElem := func(v ssa.Value) bool {
		// element of a range over a []string parameter
		ex, ok := v.(*ssa.Extract)
		if !ok {
			if ld, isLd := v.(*ssa.UnOp); isLd && ld.Op == token.MUL {
				if ia, isIA := ld.X.(*ssa.IndexAddr); isIA {
					for _, o := range engine.Origins(ia.X) {
						if _, isP := o.(*ssa.Parameter); isP {
							return true
						}
					}
				}
			}
			return false
		}
		nx, ok := ex.Tuple.(*ssa.Next)
		if !ok {
			return false
		}
		rg, ok := nx.Iter.(*ssa.Range)
		if !ok {
			return false
		}
		for _, o := range engine.Origins(rg.X) {
			if _, isP := o.(*ssa.Parameter); isP {
				return true
			}
		}
		return false
	}
	var unchanged func(v ssa.Value, d int) bool
	unchanged = func(v ssa.Value, d int) bool {
		if d > 4 {
			return false
		}
		if isElem(v) {
			return true
		}
		switch x := v.(type) {
		case *ssa.Phi:
			for _, e := range x.Edges {
				if !unchanged(e, d+1) {
					return false
				}
			}
			return len(x.Edges) > 0
		case *ssa.Call:
			switch engine.CalleeName(x) {
			case "path/filepath.Clean", "path.Clean", "path/filepath.ToSlash":
				return len(x.Call.Args) == 1 && unchanged(x.Call.Args[0], d+1)
			}
		}
		return false
	}
	n := 0
	for _, b := range res.Blocks {
		for _, in := range b.Instrs {
			call, ok := in.(*ssa.Call)
			if !ok {
				continue
			}
			bi, ok := call.Call.Value.(*ssa.Builtin)
			if !ok || bi.Name() != "append" || len(call.Call.Args) != 2 {
				continue
			}
			// single-element appends: the second argument is a slice of a fresh one-element array
			sl, ok := call.Call.Args[1].(*ssa.Slice)
			if !ok {
				continue
			}
			arr, ok := sl.X.(*ssa.Alloc)
			if !ok || arr.Referrers() == nil {
				continue
			}
			for _, ref := range *arr.Referrers() {
				ia, ok := ref.(*ssa.IndexAddr)
				if !ok || ia.Referrers() == nil {
					continue
				}
				for _, r2 := range *ia.Referrers() {
					st, ok := r2.(*ssa.Store)
					if !ok || !isStringType(st.Val.Type()) {
						continue
					}
					if !derivesFromElem(st.Val, isElem, 0) {
						continue // not a declared input (an element of a local list, a glob match)
					}
					n++
					c.Require(unchanged(st.Val, 0), "R11l", "literal-inputs-unchanged/"+c.P.FuncName(res)+"#"+strconv.Itoa(n), "the literal input is appended as declared", "a literal input is rewritten before it is appended to the resolved inputs: the constraint check (absolute path, escape from the package) then judges the rewritten spelling, so a path such as ./../lib/secret.txt can lose its leading ../ and be accepted", c.P.InstrPos(st))
				}
			}
		}
	}
	if n == 0 {
		c.OK("R11l", "literal-inputs-unchanged", "the input resolver appends no value computed from a declared input (literals are not handled element by element here)", c.P.Pos(res.Pos()))
	}
}

// derivesFromElem: v is computed (through phis, calls, string operations) from a value isElem accepts.
func derivesFromElem(v ssa.Value, isElem func(ssa.Value) bool, d int) bool {
	if v == nil || d > 6 {
		return false
	}
	if isElem(v) {
		return true
	}
	switch v.(type) {
	case *ssa.Next, *ssa.Range, *ssa.Lookup, *ssa.IndexAddr:
		return false // an element taken out of some other container is not the declared input itself
	}
	in, ok := v.(ssa.Instruction)
	if !ok {
		return false
	}
	for _, op := range in.Operands(nil) {
		if op != nil && *op != nil && derivesFromElem(*op, isElem, d+1) {
			return true
		}
	}
	return false
}

// R11m: every package file that loads is part of the graph that is validated. In the loader goroutines, once a
// package was enriched successfully the iteration registers it in the shared table (insert or merge) — it is not
// dropped by a shortcut (an "empty" package still carries aliases that other packages depend on, and duplicate
// labels are only found among registered packages).
func ruleEveryLoadedPackageRegistered(c *Check, rule string) {
	c.Rule(rule, "in the loader's per-file loop, from the successful return of the enrichment every path to the next iteration passes an insert into the package table, a merge into it, or the recording of an error", 1)
	isPkgProducer := func(s ssa.CallInstruction) bool {
		sig := s.Common().Signature()
		if sig.Results().Len() < 2 || engine.ErrResultIndex(sig) < 0 {
			return false
		}
		h := s.Common().StaticCallee()
		if h == nil {
			// a local function value (a closure kept in a variable)
			if cals := c.G.CalleesOf(s); len(cals) == 1 {
				h = cals[0]
			}
		}
		if h == nil || !engine.InPackage(h, "loading") {
			return false
		}
		for i := 0; i < sig.Results().Len(); i++ {
			if engine.TypeKey(sig.Results().At(i).Type()) == "model.Package" {
				return true
			}
		}
		return false
	}
	n := 0
	for _, fn := range c.P.Funcs {
		if !engine.InPackage(fn, "loading") || fn.Parent() == nil {
			continue // the per-file loop lives in a goroutine literal
		}
		for _, s := range engine.SitesIn(fn) {
			if !isPkgProducer(s) {
				continue
			}
			lp := engine.LoopOf(s)
			// a function that hands the package on to its caller is itself a producer: the caller is judged
			if lp == nil {
				hands := false
				for _, r := range engine.Returns(fn) {
					for _, rv := range r.Results {
						if engine.TypeKey(rv.Type()) != "model.Package" {
							continue
						}
						for _, o := range engine.Origins(rv) {
							if call, _ := engine.CallOf(o); call == s {
								hands = true
							}
						}
					}
				}
				if hands {
					continue
				}
			}
			n++
			registers := func(in ssa.Instruction) bool {
				switch x := in.(type) {
				case *ssa.MapUpdate:
					m, ok := x.Map.Type().Underlying().(*types.Map)
					return ok && engine.TypeKey(m.Elem()) == "model.Package"
				case ssa.CallInstruction:
					cc := x.Common()
					// merge(from, into *model.Package), a registry method taking the package, or an error recorder
					pk := 0
					for _, a := range cc.Args {
						if engine.TypeKey(a.Type()) == "model.Package" {
							pk++
						}
						if types.Identical(a.Type(), types.Universe.Lookup("error").Type()) && cc.Signature().Results().Len() == 0 {
							return true
						}
					}
					if pk >= 1 && x != s {
						for _, a := range cc.Args {
							for _, o := range engine.Origins(a) {
								if call, _ := engine.CallOf(o); call == s {
									return true
								}
							}
						}
					}
				}
				return false
			}
			errIdx := engine.ErrResultIndex(s.Common().Signature())
			failed := engine.CutEdgesWhere(func(a engine.Atom) bool {
				for _, o := range engine.Origins(a.V) {
					if call, i := engine.CallOf(o); call == s {
						if i == errIdx && a.Op == "nonnil" {
							return true
						}
						// "this file is not a package" answered by the same call (a false bool result, or a
						// nil package next to a nil error)
						if i != errIdx && a.Op == "false" {
							if b, ok := a.V.Type().Underlying().(*types.Basic); ok && b.Kind() == types.Bool {
								return true
							}
						}
						if i != errIdx && a.Op == "nil" {
							return true
						}
					}
				}
				return false
			})
			// the per-file step ends at the next iteration of the loop it sits in, or — when it is a function of
			// its own that a loop calls once per file — at that function's return
			done := func(in ssa.Instruction) bool { _, r := in.(*ssa.Return); return r && in.Parent() == fn }
			if lp != nil {
				done = func(in ssa.Instruction) bool { return in == lp.Header.Instrs[0] }
			}
			reach, _ := engine.PathExists(fn, s, done, engine.PathQuery{CutInstr: registers, CutEdge: failed, Shallow: true})
			c.Require(!reach, rule, "loaded-package-registered/"+c.P.FuncName(engine.TopFunc(fn)), "a successfully enriched package is always inserted or merged", "after a package file was loaded and enriched successfully the loop can go on to the next file without registering it (a `continue` for packages that look empty, say): a BUILD file that only declares aliases disappears — dependencies on those aliases are reported missing in a valid workspace, and alias cycles, dangling aliases and duplicate labels in it are never seen by the validators", c.P.InstrPos(s))
		}
	}
	if n == 0 {
		c.Unknown(rule, "loaded-package-registered", "no per-file loop that enriches packages found in the loader goroutines", "-")
	}
}
