package rules

import (
	"os"
	"go/constant"
	"go/token"
	"go/types"
	"regexp"
	"sort"
	"strings"

	"golang.org/x/tools/go/ssa"

	"grogverif/engine"
)

func init() { register("C17", runC17) }

// C17 — labels and patterns follow the documented algebra.
//
// The property is an equation over all strings, which no static argument in reach decides. What is decided
// here are the clauses of it whose truth is in the shape of the code: the label components are *touched only
// through comparisons* in the matcher, so "which comparisons gate which answer" is a finite question about
// the control-flow graph; and printing, parsing and matching are a writer, a reader and a consumer of the same
// record, so their field and separator tables have to agree.
func runC17(c *Check, tier string) {
	c.Decides = "in the pattern matcher, for all labels and patterns at once: a non-recursive pattern answers 'matches' only past an equality of the label's package with the pattern's package; a recursive pattern only past that equality, the empty prefix, or a prefix test against prefix+separator (the component boundary: `//p/...` never matches `p2`); any pattern only past an equality of the target name or a wildcard spelling of the pattern's own name part; 'does not match' is answered only past a failed one of these comparisons (and, for a recursive pattern, only past a failed boundary test); every field of a pattern that the matcher reads is printed by String() and set by the parser; every field of a label is printed and set by the parser; every separator the printers emit is one the parsers look for; a relative label or pattern takes its package from the current-package argument."
	c.NotDec = "the algebra itself — parse(print(l)) = l and match-set preservation for every string, the shorthand `//a/b` = `//a/b:b`, the placement rules for `...`, name validation — which needs enumeration or symbolic execution of the string functions (other technique families). Which spellings of the name part are wildcards is taken from the code, not from the documentation."
	m := c17Anchors(c)
	if m == nil {
		return
	}
	ruleC17MatchGates(c, m)
	ruleC17FieldAgreement(c, m)
	ruleC17Separators(c, m)
	ruleC17RelativeResolution(c, m)
	// the selector asks the matcher: an index of its own would re-implement (part of) the algebra
	rulePatternsDecidedByMatcher(c, "R17j")
}

type c17Info struct {
	Matches, PatString, PatParse, LabString, LabParse *ssa.Function
	fPkg, fName, fPrefix, fTarget, fRecursive         engine.FieldKey
}

func c17Anchors(c *Check) *c17Info {
	c.Rule("R17-anchors", "the label API the rules read is present (matcher, printers, parsers)", 0)
	m := &c17Info{
		Matches:   anchor(c, "R17-anchors", "label", "TargetPattern", "Matches"),
		PatString: anchor(c, "R17-anchors", "label", "TargetPattern", "String"),
		PatParse:  anchor(c, "R17-anchors", "label", "", "ParseTargetPattern"),
		LabString: anchor(c, "R17-anchors", "label", "TargetLabel", "String"),
		LabParse:  anchor(c, "R17-anchors", "label", "", "ParseTargetLabel"),
		fPkg:      fk("label.TargetLabel", "Package"), fName: fk("label.TargetLabel", "Name"),
		fPrefix: fk("label.TargetPattern", "prefix"), fTarget: fk("label.TargetPattern", "targetPattern"),
		fRecursive: fk("label.TargetPattern", "recursive"),
	}
	if m.Matches == nil || m.PatString == nil || m.PatParse == nil || m.LabString == nil || m.LabParse == nil {
		return nil
	}
	return m
}

// isFieldVal: every definition of v is a read of the given field (through locals, phis and, inside an
// extracted helper, the argument the active search descended with).
func isFieldVal(v ssa.Value, key engine.FieldKey) bool {
	os := engine.Origins(v)
	if len(os) == 0 {
		return false
	}
	for _, o := range os {
		if o == nil || !isLoadOfField(o, key) {
			return false
		}
	}
	return true
}

func strConst(v ssa.Value) (string, bool) {
	for _, o := range engine.Origins(v) {
		if k, ok := o.(*ssa.Const); ok && k.Value != nil && k.Value.Kind() == constant.String {
			return constant.StringVal(k.Value), true
		}
		return "", false
	}
	return "", false
}

// withSep: v is x + separator with x a read of the field; bare: v is a read of the field.
func fieldPlusSep(v ssa.Value, key engine.FieldKey) bool {
	os := engine.Origins(v)
	if len(os) == 0 {
		return false
	}
	for _, o := range os {
		bo, ok := o.(*ssa.BinOp)
		if !ok || bo.Op != token.ADD || !isFieldVal(bo.X, key) || !isSeparator(bo.Y) {
			return false
		}
	}
	return true
}

// boundaryPrefixCall: strings.HasPrefix(pkg, prefix+sep) or strings.HasPrefix(pkg+sep, prefix+sep).
func (m *c17Info) boundaryPrefixCall(v ssa.Value) bool {
	call, ok := v.(*ssa.Call)
	if !ok || engine.CalleeName(call) != "strings.HasPrefix" || len(call.Call.Args) != 2 {
		return false
	}
	a, b := call.Call.Args[0], call.Call.Args[1]
	return (isFieldVal(a, m.fPkg) || fieldPlusSep(a, m.fPkg)) && fieldPlusSep(b, m.fPrefix)
}

func isZeroInt(v ssa.Value) bool {
	k, ok := v.(*ssa.Const)
	if !ok || k.Value == nil || k.Value.Kind() != constant.Int {
		return false
	}
	n, exact := constant.Int64Val(k.Value)
	return exact && n == 0
}

func isLenOf(v ssa.Value, key engine.FieldKey) bool {
	call, ok := v.(*ssa.Call)
	if !ok {
		return false
	}
	b, ok := call.Call.Value.(*ssa.Builtin)
	return ok && b.Name() == "len" && len(call.Call.Args) == 1 && isFieldVal(call.Call.Args[0], key)
}

func pairIs(a engine.Atom, p func(ssa.Value) bool, q func(ssa.Value) bool) bool {
	if a.Other == nil {
		return false
	}
	return (p(a.V) && q(a.Other)) || (p(a.Other) && q(a.V))
}

// R17a–R17e: which comparisons gate which answer of the matcher.
func ruleC17MatchGates(c *Check, m *c17Info) {
	fn := m.Matches
	name := c.P.FuncName(fn)
	pos := c.P.Pos(fn.Pos())
	isPkg := func(v ssa.Value) bool { return isFieldVal(v, m.fPkg) }
	isPrefix := func(v ssa.Value) bool { return isFieldVal(v, m.fPrefix) }
	isNameV := func(v ssa.Value) bool { return isFieldVal(v, m.fName) }
	isTarget := func(v ssa.Value) bool { return isFieldVal(v, m.fTarget) }
	isStrConst := func(v ssa.Value) bool { _, ok := strConst(v); return ok }
	isEmpty := func(v ssa.Value) bool { s, ok := strConst(v); return ok && s == "" }

	pkgEq := func(a engine.Atom) bool { return a.Op == "eq" && pairIs(a, isPkg, isPrefix) }
	pkgNe := func(a engine.Atom) bool { return a.Op == "ne" && pairIs(a, isPkg, isPrefix) }
	boundaryTrue := func(a engine.Atom) bool { return a.Op == "true" && m.boundaryPrefixCall(a.V) }
	boundaryFalse := func(a engine.Atom) bool { return a.Op == "false" && m.boundaryPrefixCall(a.V) }
	// HasPrefix(package+sep, prefix+sep) is false only when the package differs from the prefix as well
	boundaryFullFalse := func(a engine.Atom) bool {
		call, ok := a.V.(*ssa.Call)
		return a.Op == "false" && m.boundaryPrefixCall(a.V) && ok && fieldPlusSep(call.Call.Args[0], m.fPkg)
	}
	prefixEmpty := func(a engine.Atom) bool {
		if a.Op != "eq" {
			return false
		}
		return pairIs(a, isPrefix, isEmpty) || pairIs(a, func(v ssa.Value) bool {
			for _, o := range engine.Origins(v) {
				if o == nil || !isLenOf(o, m.fPrefix) {
					return false
				}
			}
			return len(engine.Origins(v)) > 0
		}, isZeroInt)
	}
	recTrue := func(a engine.Atom) bool { return a.Op == "true" && isFieldVal(a.V, m.fRecursive) }
	recFalse := func(a engine.Atom) bool { return a.Op == "false" && isFieldVal(a.V, m.fRecursive) }
	nameEq := func(a engine.Atom) bool { return a.Op == "eq" && pairIs(a, isNameV, isTarget) }
	nameNe := func(a engine.Atom) bool { return a.Op == "ne" && pairIs(a, isNameV, isTarget) }
	wildcard := func(a engine.Atom) bool {
		if a.Op != "eq" {
			return false
		}
		return pairIs(a, isTarget, isStrConst) || pairIs(a, func(v ssa.Value) bool { return isLenOf(v, m.fTarget) }, isZeroInt)
	}
	// the length-and-byte form of the boundary test: len(pkg) > len(prefix) && pkg[len(prefix)] == '/' &&
	// pkg[:len(prefix)] == prefix (or a bare HasPrefix(pkg, prefix) for the last conjunct)
	fromPrefixLen := func(v ssa.Value) bool {
		os := engine.Origins(v)
		if len(os) == 0 {
			return false
		}
		for _, o := range os {
			if o == nil || !isLenOf(o, m.fPrefix) {
				return false
			}
		}
		return true
	}
	byteAtBoundary := func(v ssa.Value) bool {
		for _, o := range engine.Origins(v) {
			var x, idx ssa.Value
			switch e := o.(type) {
			case *ssa.Index: // strings are indexed with Index (Lookup in older go/ssa)
				x, idx = e.X, e.Index
			case *ssa.Lookup:
				x, idx = e.X, e.Index
			default:
				return false
			}
			if !isPkg(x) || !fromPrefixLen(idx) {
				return false
			}
		}
		return len(engine.Origins(v)) > 0
	}
	headOfPkg := func(v ssa.Value) bool {
		for _, o := range engine.Origins(v) {
			sl, ok := o.(*ssa.Slice)
			if !ok || !isPkg(sl.X) || sl.Low != nil || sl.High == nil || !fromPrefixLen(sl.High) {
				return false
			}
		}
		return len(engine.Origins(v)) > 0
	}
	barePrefixCall := func(v ssa.Value) bool {
		call, ok := v.(*ssa.Call)
		return ok && engine.CalleeName(call) == "strings.HasPrefix" && len(call.Call.Args) == 2 && isPkg(call.Call.Args[0]) && isPrefix(call.Call.Args[1])
	}
	sepByteTrue := func(a engine.Atom) bool { return a.Op == "eq" && pairIs(a, byteAtBoundary, isSeparator) }
	sepByteFalse := func(a engine.Atom) bool { return a.Op == "ne" && pairIs(a, byteAtBoundary, isSeparator) }
	headEqTrue := func(a engine.Atom) bool {
		return (a.Op == "eq" && pairIs(a, headOfPkg, isPrefix)) || (a.Op == "true" && barePrefixCall(a.V))
	}
	headEqFalse := func(a engine.Atom) bool {
		return (a.Op == "ne" && pairIs(a, headOfPkg, isPrefix)) || (a.Op == "false" && barePrefixCall(a.V))
	}
	isLenPkg := func(v ssa.Value) bool {
		for _, o := range engine.Origins(v) {
			if o == nil || !isLenOf(o, m.fPkg) {
				return false
			}
		}
		return len(engine.Origins(v)) > 0
	}
	lenCmp := func(a engine.Atom) bool { return pairIs(a, isLenPkg, fromPrefixLen) }
	lenDiffer := func(a engine.Atom) bool {
		return (a.Op == "ne" || a.Op == "lt" || a.Op == "gt") && lenCmp(a)
	}
	anyOf := func(ps ...func(engine.Atom) bool) func(b *ssa.BasicBlock, succ int) bool {
		return engine.CutEdgesWhere(func(a engine.Atom) bool {
			for _, p := range ps {
				if p(a) {
					return true
				}
			}
			return false
		})
	}
	if fn.Signature.Results().Len() != 1 {
		c.Unknown("R17a", "anchor/matcher-result", "anchor-unresolved: the matcher no longer returns a single boolean", pos)
		return
	}

	c.Rule("R17a", "a non-recursive pattern (`//p:all`, `//p:x`, `//p`) answers 'matches' only past an equality of the label's package and the pattern's package: it matches exactly package p", 1)
	may := engine.MayReturnBool(fn, 0, true, engine.PathQuery{CutEdge: anyOf(pkgEq, recTrue)})
	c.Require(!may, "R17a", "nonrecursive-package-equality/"+name, "every path of the matcher that avoids the recursive branch and answers true crosses package == prefix", "the matcher can answer true for a non-recursive pattern without having compared the label's package with the pattern's package for equality: `//p:all` matches targets outside package p", pos)

	c.Rule("R17b", "a recursive pattern (`//p/...`) answers 'matches' only past package == prefix, an empty prefix (`//...`), or strings.HasPrefix(package, prefix + separator): the prefix is matched at a path-component boundary, never against a sibling such as p2", 1)
	// both halves of a boundary test written out by hand have to be on the path: the separator byte and the
	// equality of the head (a prefix test against prefix+separator is both at once)
	mayB := engine.MayReturnBool(fn, 0, true, engine.PathQuery{CutEdge: anyOf(pkgEq, boundaryTrue, prefixEmpty, recFalse, sepByteTrue)})
	mayP := engine.MayReturnBool(fn, 0, true, engine.PathQuery{CutEdge: anyOf(pkgEq, boundaryTrue, prefixEmpty, recFalse, headEqTrue)})
	if os.Getenv("GROGDBG") != "" {
		println("R17b separator-half", mayB, "head-half", mayP)
	}
	may = mayB || mayP
	c.Require(!may, "R17b", "recursive-component-boundary/"+name, "every path of the recursive branch that answers true crosses package == prefix, prefix == \"\" or HasPrefix(package, prefix+\"/\")", "the matcher can answer true for a recursive pattern without a package comparison that respects the component boundary (equality, the empty prefix, or a prefix test against prefix + separator): `//p/...` matches targets of a sibling package such as `p2`, or of unrelated packages", pos)

	c.Rule("R17c", "a pattern answers 'matches' only past an equality of the label's name with the pattern's name part, or past a comparison of the pattern's own name part with a constant (its wildcard spellings): a name suffix restricts by exact target name", 1)
	may = engine.MayReturnBool(fn, 0, true, engine.PathQuery{CutEdge: anyOf(nameEq, wildcard)})
	c.Require(!may, "R17c", "name-equality-or-wildcard/"+name, "every path that answers true crosses name == targetPattern or a wildcard test of the pattern's name part", "the matcher can answer true without having compared the target name for equality (and without the pattern's name part being one of its wildcard spellings): `//p:x` matches targets that are not named x", pos)

	c.Rule("R17d", "the matcher answers 'does not match' only past a failed comparison of the package or of the name: a label whose package and name equal the pattern's is never rejected", 1)
	may = engine.MayReturnBool(fn, 0, false, engine.PathQuery{CutEdge: anyOf(pkgNe, nameNe, boundaryFullFalse, lenDiffer, sepByteFalse, headEqFalse)})
	c.Require(!may, "R17d", "reject-only-past-inequality/"+name, "every path that answers false crosses package != prefix or name != targetPattern", "the matcher can answer false without a failed equality test of the package or the name: a label the pattern denotes (same package, same name) can be rejected — `//p/...` no longer matches package p itself, or `//p:x` not `//p:x`", pos)

	c.Rule("R17e", "a recursive pattern answers 'does not match' only past a failed boundary prefix test or a failed name comparison: packages below the prefix are never rejected for their package", 1)
	may = engine.MayReturnBool(fn, 0, false, engine.PathQuery{CutEdge: anyOf(boundaryFalse, nameNe, recFalse, sepByteFalse, headEqFalse, lenCmp)})
	c.Require(!may, "R17e", "recursive-reject-only-past-boundary-test/"+name, "every path of the recursive branch that answers false crosses a failed HasPrefix(package, prefix+\"/\") or name != targetPattern", "the recursive branch of the matcher can answer false without having tested the label's package against prefix + separator: targets in packages below the prefix are rejected, `//p/...` matches less than the packages below p", pos)
}

// fieldsReadIn: the fields of the named struct type read anywhere in the region of root.
func fieldsTouchedIn(c *Check, root *ssa.Function, typeKey string, stores bool) map[string]bool {
	out := map[string]bool{}
	for fn := range regionOf(c, root) {
		for _, b := range fn.Blocks {
			for _, in := range b.Instrs {
				switch x := in.(type) {
				case *ssa.FieldAddr:
					k := engine.FieldKeyOf(x.X.Type(), x.Field)
					if k.T != typeKey {
						continue
					}
					for _, r := range *x.Referrers() {
						switch u := r.(type) {
						case *ssa.Store:
							if stores && u.Addr == ssa.Value(x) {
								out[k.F] = true
							}
						case *ssa.UnOp:
							if !stores && u.Op == token.MUL {
								out[k.F] = true
							}
						}
					}
				case *ssa.Field:
					if k := engine.FieldKeyOf(x.X.Type(), x.Field); k.T == typeKey && !stores {
						out[k.F] = true
					}
				}
			}
		}
	}
	return out
}

func sortedKeys(m map[string]bool) []string {
	var out []string
	for k := range m {
		out = append(out, k)
	}
	sort.Strings(out)
	return out
}

// R17f/R17g: printing, parsing and matching agree on the fields of the record.
func ruleC17FieldAgreement(c *Check, m *c17Info) {
	c.Rule("R17f", "every field of a pattern that the matcher reads is read by the pattern's String() and assigned by the pattern parser: printing then re-parsing cannot lose a component that decides what is matched", 3)
	read := fieldsTouchedIn(c, m.Matches, "label.TargetPattern", false)
	printed := fieldsTouchedIn(c, m.PatString, "label.TargetPattern", false)
	parsed := fieldsTouchedIn(c, m.PatParse, "label.TargetPattern", true)
	if len(read) == 0 {
		c.Unknown("R17f", "anchor/matcher-fields", "anchor-unresolved: the matcher reads no field of the pattern", c.P.Pos(m.Matches.Pos()))
	}
	for _, f := range sortedKeys(read) {
		c.Require(printed[f], "R17f", "matched-field-printed/label.TargetPattern."+f, "read by Matches and by String", "the matcher's answer depends on this field of the pattern but String() does not read it: two patterns that match different label sets print alike, so printing then re-parsing a pattern does not preserve what it matches", c.P.Pos(m.PatString.Pos()))
		c.Require(parsed[f], "R17f", "matched-field-parsed/label.TargetPattern."+f, "read by Matches and assigned by ParseTargetPattern", "the matcher's answer depends on this field of the pattern but the parser never assigns it: no pattern string can denote the patterns that differ in it", c.P.Pos(m.PatParse.Pos()))
	}
	c.Rule("R17g", "every field of a label is read by the label's String() and assigned by the label parser on each construction: parsing a printed label can return the same label", 2)
	lt := c.P.Type("label", "TargetLabel")
	if lt == nil {
		c.Unknown("R17g", "anchor/label.TargetLabel", "anchor-unresolved", "-")
		return
	}
	st, ok := lt.Underlying().(*types.Struct)
	if !ok {
		c.Unknown("R17g", "anchor/label.TargetLabel", "anchor-unresolved: not a struct", "-")
		return
	}
	lprinted := fieldsTouchedIn(c, m.LabString, "label.TargetLabel", false)
	for i := 0; i < st.NumFields(); i++ {
		k := engine.FieldKeyOf(lt, i)
		c.Require(lprinted[k.F], "R17g", "label-field-printed/label.TargetLabel."+k.F, "read by String", "String() does not read this field of the label: two different labels print alike and parsing the printed form cannot return the label it came from", c.P.Pos(m.LabString.Pos()))
	}
	// every label the parser constructs has all fields assigned (a composite literal that leaves one out yields
	// a label whose printed form parses to something else)
	n := 0
	for fn := range regionOf(c, m.LabParse) {
		for _, b := range fn.Blocks {
			for _, in := range b.Instrs {
				al, ok := in.(*ssa.Alloc)
				if !ok || engine.TypeKey(al.Type()) != "label.TargetLabel" || al.Comment != "complit" {
					continue
				}
				set := map[int]bool{}
				for _, r := range *al.Referrers() {
					if fa, ok := r.(*ssa.FieldAddr); ok {
						for _, u := range *fa.Referrers() {
							if s, ok := u.(*ssa.Store); ok && s.Addr == ssa.Value(fa) {
								set[fa.Field] = true
							}
						}
					}
				}
				if len(set) == 0 {
					continue // the zero label of an error return
				}
				n++
				var missing []string
				for i := 0; i < st.NumFields(); i++ {
					if !set[i] {
						missing = append(missing, st.Field(i).Name())
					}
				}
				c.Require(len(missing) == 0, "R17g", "parsed-label-complete/"+c.P.FuncName(fn), "the constructed label has every field assigned", "the label parser constructs a label without assigning "+strings.Join(missing, ", ")+": that component of the input is lost", c.P.InstrPos(al))
			}
		}
	}
	if n == 0 {
		c.Unknown("R17g", "parsed-label-complete", "the label parser constructs no label by a composite literal: idiom not recognised", c.P.Pos(m.LabParse.Pos()))
	}
}

var fmtVerb = regexp.MustCompile(`%[-+# 0-9.]*[a-zA-Z]`)

// emittedConstants: the string constants a printer concatenates into its result.
func emittedConstants(c *Check, root *ssa.Function) map[string]bool {
	out := map[string]bool{}
	add := func(v ssa.Value) {
		if k, ok := v.(*ssa.Const); ok && k.Value != nil && k.Value.Kind() == constant.String {
			if s := constant.StringVal(k.Value); s != "" {
				out[s] = true
			}
		}
	}
	for fn := range regionOf(c, root) {
		for _, b := range fn.Blocks {
			for _, in := range b.Instrs {
				switch x := in.(type) {
				case *ssa.BinOp:
					if x.Op == token.ADD {
						add(x.X)
						add(x.Y)
					}
				case *ssa.Call:
					switch engine.CalleeName(x) {
					case "fmt.Sprintf":
						if len(x.Call.Args) > 0 {
							if k, ok := x.Call.Args[0].(*ssa.Const); ok && k.Value != nil && k.Value.Kind() == constant.String {
								for _, piece := range fmtVerb.Split(constant.StringVal(k.Value), -1) {
									if piece != "" {
										out[piece] = true
									}
								}
							}
						}
					case "strings.Join":
						if len(x.Call.Args) == 2 {
							add(x.Call.Args[1])
						}
					case "(*strings.Builder).WriteString", "(*bytes.Buffer).WriteString":
						if len(x.Call.Args) == 2 {
							add(x.Call.Args[1])
						}
					case "(*strings.Builder).WriteByte", "(*strings.Builder).WriteRune", "(*bytes.Buffer).WriteByte", "(*bytes.Buffer).WriteRune":
						if len(x.Call.Args) == 2 {
							if k, ok := x.Call.Args[1].(*ssa.Const); ok && k.Value != nil && k.Value.Kind() == constant.Int {
								if r, exact := constant.Int64Val(k.Value); exact && r > 0 && r < 0x10ffff {
									out[string(rune(r))] = true
								}
							}
						}
					}
				}
			}
		}
	}
	return out
}

// soughtConstants: the constants a parser looks for in its input (arguments of the strings search functions,
// operands of comparisons — string, byte or rune).
func soughtConstants(c *Check, root *ssa.Function) map[string]bool {
	out := map[string]bool{}
	add := func(v ssa.Value) {
		k, ok := v.(*ssa.Const)
		if !ok || k.Value == nil {
			return
		}
		switch k.Value.Kind() {
		case constant.String:
			if s := constant.StringVal(k.Value); s != "" {
				out[s] = true
			}
		case constant.Int:
			if bt, ok := k.Type().Underlying().(*types.Basic); ok && (bt.Kind() == types.Uint8 || bt.Kind() == types.Int32 || bt.Kind() == types.UntypedRune) {
				if r, exact := constant.Int64Val(k.Value); exact && r > 0 && r < 0x10ffff {
					out[string(rune(r))] = true
				}
			}
		}
	}
	for fn := range regionOf(c, root) {
		for _, b := range fn.Blocks {
			for _, in := range b.Instrs {
				switch x := in.(type) {
				case *ssa.BinOp:
					if x.Op == token.EQL || x.Op == token.NEQ {
						add(x.X)
						add(x.Y)
					}
				case *ssa.Call:
					n := engine.CalleeName(x)
					if strings.HasPrefix(n, "strings.") || strings.HasPrefix(n, "bytes.") {
						for _, a := range x.Call.Args[min(1, len(x.Call.Args)):] {
							add(a)
						}
					}
				}
			}
		}
	}
	return out
}

// R17h: the separators the printers emit are separators the parsers look for.
func ruleC17Separators(c *Check, m *c17Info) {
	c.Rule("R17h", "every separator constant that a printer (String) concatenates into its result contains a constant that the corresponding parser searches its input for: the reader splits where the writer joins", 5)
	for _, pr := range []struct {
		what           string
		printer, parse *ssa.Function
	}{{"label", m.LabString, m.LabParse}, {"pattern", m.PatString, m.PatParse}} {
		sought := soughtConstants(c, pr.parse)
		emitted := emittedConstants(c, pr.printer)
		if len(emitted) == 0 {
			c.Unknown("R17h", "separators/"+pr.what, "the printer concatenates no constant: idiom not recognised", c.P.Pos(pr.printer.Pos()))
			continue
		}
		for _, e := range sortedKeys(emitted) {
			hit := ""
			for _, s := range sortedKeys(sought) {
				if strings.Contains(e, s) && len(s) > len(hit) {
					hit = s
				}
			}
			c.Require(hit != "", "R17h", "separator-sought-by-parser/"+pr.what+"/"+e, "the parser looks for "+strconvQuote(hit), "the "+pr.what+" printer emits "+strconvQuote(e)+" but the "+pr.what+" parser never looks for it (or a part of it) in its input: the printed form is not split back into the components it was joined from", c.P.Pos(pr.printer.Pos()))
		}
	}
}

func strconvQuote(s string) string { return "\"" + s + "\"" }

// R17i: relative forms resolve against the current package.
func ruleC17RelativeResolution(c *Check, m *c17Info) {
	c.Rule("R17i", "the current-package argument of a parser reaches the package component of a value it constructs: `:x` resolves against the current package", 2)
	for _, pr := range []struct {
		what  string
		parse *ssa.Function
		key   engine.FieldKey
	}{{"label", m.LabParse, m.fPkg}, {"pattern", m.PatParse, m.fPrefix}} {
		if len(pr.parse.Params) < 2 {
			c.Unknown("R17i", "relative-resolution/"+pr.what, "anchor-unresolved: the parser has no current-package parameter", c.P.Pos(pr.parse.Pos()))
			continue
		}
		cur := pr.parse.Params[0]
		found := false
		region := regionOf(c, pr.parse)
		// values derived from the parameter inside the region: phis, local cells, and arguments of region helpers
		derived := map[ssa.Value]bool{cur: true}
		for changed := true; changed; {
			changed = false
			for fn := range region {
				for _, b := range fn.Blocks {
					for _, in := range b.Instrs {
						v, isVal := in.(ssa.Value)
						if isVal && !derived[v] {
							for _, o := range engine.Origins(v) {
								if o != nil && o != v && derived[o] {
									derived[v] = true
									changed = true
								}
							}
						}
						if call, ok := in.(*ssa.Call); ok {
							if h := call.Call.StaticCallee(); h != nil && region[h] {
								for i, a := range call.Call.Args {
									if derived[a] && i < len(h.Params) && !derived[h.Params[i]] {
										derived[h.Params[i]] = true
										changed = true
									}
								}
								// a normalising helper (`"." -> ""`) hands its parameter back
								if !derived[call] {
									for _, r := range engine.Returns(h) {
										for _, rv := range r.Results {
											for _, o := range engine.Origins(rv) {
												if o != nil && derived[o] {
													derived[call] = true
													changed = true
												}
											}
										}
									}
								}
							}
						}
						if st, ok := in.(*ssa.Store); ok {
							if fa, ok := st.Addr.(*ssa.FieldAddr); ok && engine.FieldKeyOf(fa.X.Type(), fa.Field) == pr.key && derived[st.Val] {
								found = true
							}
						}
					}
				}
			}
		}
		c.Require(found, "R17i", "relative-resolution/"+pr.what, "the current-package parameter is stored into the package component", "nothing the "+pr.what+" parser constructs takes its package from the current-package argument: a relative form such as `:x` cannot resolve against the current package", c.P.Pos(pr.parse.Pos()))
	}
}
