package rules

import (
	"go/constant"
	"go/token"
	"os"
	"path/filepath"
	"regexp"
	"strconv"
	"strings"

	"golang.org/x/tools/go/ssa"

	"grogverif/engine"
)

// Rules written for the seeds of round 6 (second batch). Each states a necessary condition that is visible
// in the shape of the code; what it does not cover is said in DESIGN §10 (round 6).

func constString(v ssa.Value) (string, bool) {
	k, ok := v.(*ssa.Const)
	if !ok || k.Value == nil || k.Value.Kind() != constant.String {
		return "", false
	}
	return constant.StringVal(k.Value), true
}

// R01t: the test that decides "glob pattern or literal name" knows every metacharacter of the glob syntax in
// use (doublestar: * ? [ {). A pattern whose only metacharacter is missing from the set is taken for a file
// name, that file does not exist, the hasher skips it — and edits of the files the pattern stands for no
// longer change the key.
func ruleGlobMetaComplete(c *Check, rule string) {
	c.Rule(rule, "every strings.ContainsAny test against a set of glob metacharacters in the loader and the analysis names all four of * ? [ { (the doublestar syntax the patterns are expanded with)", 1)
	n := 0
	for _, s := range c.G.CallsTo("strings.ContainsAny", "strings.IndexAny") {
		fn := s.Parent()
		if fn == nil || isTestFunc(c, fn) || !(engine.InPackage(fn, "loading") || engine.InPackage(fn, "analysis") || engine.InPackage(fn, "cmd/cmds") || engine.InPackage(fn, "execution")) {
			continue
		}
		set, ok := constString(s.Common().Args[1])
		if !ok || !strings.ContainsAny(set, "*?[") {
			continue
		}
		n++
		missing := ""
		for _, ch := range "*?[{" {
			if !strings.ContainsRune(set, ch) {
				missing += string(ch)
			}
		}
		c.Require(missing == "", rule, "glob-meta-complete/"+c.P.FuncName(fn), "the metacharacter set is "+strconv.Quote(set), "the set "+strconv.Quote(set)+" that tells a glob pattern from a literal name lacks "+strconv.Quote(missing)+": a pattern whose only metacharacter is one of those (`{a,b}.txt`) is taken for a file name that does not exist, is skipped by the hasher, and edits of the files it stands for no longer change the key (a stale cache hit)", c.P.InstrPos(s))
	}
	if n == 0 {
		c.OK(rule, "glob-meta-complete/none", "no hand-written metacharacter test (the glob library decides)", "-")
	}
}

// R11o: the identity of an output is (kind, identifier). Two outputs are the same only if both agree; a
// comparison of identifiers alone takes `docker::server` and the file `server` for one output.
func ruleOutputIdentity(c *Check, rule string) {
	c.Rule(rule, "wherever the identifiers of two model.Output values are compared for equality, their types are compared too", 0)
	idf, typ := fk("model.Output", "Identifier"), fk("model.Output", "Type")
	base := func(v ssa.Value, key engine.FieldKey) (ssa.Value, bool) {
		switch x := v.(type) {
		case *ssa.UnOp:
			if fa, ok := x.X.(*ssa.FieldAddr); ok && engine.FieldKeyOf(fa.X.Type(), fa.Field) == key {
				return fa.X, true
			}
		case *ssa.Field:
			if engine.FieldKeyOf(x.X.Type(), x.Field) == key {
				return x.X, true
			}
		}
		return nil, false
	}
	n := 0
	for _, fn := range c.P.Funcs {
		if isTestFunc(c, fn) || !engine.IsFirstParty(pkgPathOf(fn)) || engine.InPackage(fn, "proto/gen") {
			continue
		}
		var typePairs [][2]string
		var idCmps []*ssa.BinOp
		for _, b := range fn.Blocks {
			for _, in := range b.Instrs {
				bo, ok := in.(*ssa.BinOp)
				if !ok || (bo.Op != token.EQL && bo.Op != token.NEQ) {
					continue
				}
				if xa, ok1 := base(bo.X, typ); ok1 {
					if ya, ok2 := base(bo.Y, typ); ok2 {
						typePairs = append(typePairs, [2]string{engine.ExprKey(xa), engine.ExprKey(ya)})
					}
				}
				if _, ok1 := base(bo.X, idf); ok1 {
					if _, ok2 := base(bo.Y, idf); ok2 {
						idCmps = append(idCmps, bo)
					}
				}
			}
		}
		for _, bo := range idCmps {
			xa, _ := base(bo.X, idf)
			ya, _ := base(bo.Y, idf)
			n++
			ok := false
			for _, p := range typePairs {
				if (p[0] == engine.ExprKey(xa) && p[1] == engine.ExprKey(ya)) || (p[1] == engine.ExprKey(xa) && p[0] == engine.ExprKey(ya)) {
					ok = true
				}
			}
			c.Require(ok, rule, "output-identity/"+c.P.FuncName(fn), "identifier and type are compared together", "two outputs are taken for the same output because their identifiers are equal, without looking at their types: a bin_output `server` and a `docker::server` (or `dir::server`) output collapse into one, so the dropped one is neither checked for conflicts, nor stored, nor restored", c.P.InstrPos(bo))
		}
	}
	if n == 0 {
		c.OK(rule, "output-identity/none", "no function compares the identifiers of two outputs", "-")
	}
}

// R13j: consuming a taint deletes the marker, synchronously. The executing method calls Clear after the forced
// execution succeeded (R13b); that is only worth something if Clear's own success return lies behind the
// backend's Delete — a Clear that merely records the label for a later flush leaves the marker in place
// whenever the process exits before the flush (os.Exit on a failed build, a signal).
func ruleTaintClearDeletes(c *Check, rule string) {
	c.Rule(rule, "every success return of the taint cache's Clear is preceded by a call that deletes the marker from the backend", 1)
	clear := anchor(c, rule, "caching", "TaintCache", "Clear")
	if clear == nil {
		return
	}
	sites, _ := liftedSites(c, clear, func(s ssa.CallInstruction) bool {
		cc := s.Common()
		if cc.IsInvoke() {
			return cc.Method.Name() == "Delete"
		}
		return strings.HasSuffix(engine.CalleeName(s), ").Delete")
	}, 0)
	isDel := func(in ssa.Instruction) bool {
		for _, s := range sites {
			if in == ssa.Instruction(s) {
				return true
			}
		}
		return false
	}
	reach, at := nilReturnReachable(clear, engine.PathQuery{CutInstr: isDel, Shallow: true}, 0)
	pos := c.P.Pos(clear.Pos())
	if at != nil {
		pos = c.P.InstrPos(at)
	}
	c.Require(!reach && len(sites) > 0, rule, "taint-clear-deletes/"+c.P.FuncName(clear), "Clear returns nil only after the backend's Delete", "Clear can report success without having deleted the marker from the backend (it is only remembered for later): when the process ends before the deferred flush — os.Exit after another target failed, an interrupt — the taint survives the execution that consumed it and the target is executed again by the next build", pos)
}

// R08n: a record never names a digest whose blob was not handed to the store. In a handler's Write every
// successful return lies behind a store call; skipping the store for "uninteresting" content (empty files)
// leaves a record that restores only where the file happens to be in place.
func ruleRecordOnlyAfterStore(c *Check, rule string) {
	c.Rule(rule, "in every output handler's Write (and the helpers it calls synchronously) no success return is reachable without passing a call that stores content in the CAS", 2)
	impls, _ := handlerFuncs(c, "Write")
	isStore := func(s ssa.CallInstruction) bool {
		n := engine.CalleeName(s)
		return strings.Contains(n, "caching.Cas).Write")
	}
	n := 0
	for _, fn := range impls {
		// handlers that never store (docker in registry mode pushes instead) are not subject
		region := c.G.ReachableFuncs([]*ssa.Function{fn}, func(f *ssa.Function) bool { return !engine.InPackage(f, "output") && !engine.InPackage(f, "output/handlers") })
		stores := false
		for f := range region {
			for _, s := range engine.SitesIn(f) {
				if isStore(s) {
					stores = true
				}
			}
		}
		if !stores {
			continue
		}
		n++
		key := "record-only-after-store/" + c.P.FuncName(fn)
		// store sites of fn itself: direct, or any call/go whose callees reach a store
		var sites []ssa.Instruction
		for _, s := range engine.SitesIn(fn) {
			if isStore(s) {
				sites = append(sites, s)
				continue
			}
			callees := c.G.CalleesOf(s)
			if len(callees) == 0 {
				continue
			}
			for f := range c.G.ReachableFuncs(callees, func(f *ssa.Function) bool { return !engine.InPackage(f, "output") && !engine.InPackage(f, "output/handlers") }) {
				for _, s2 := range engine.SitesIn(f) {
					if isStore(s2) {
						sites = append(sites, s)
					}
				}
			}
		}
		isSite := func(in ssa.Instruction) bool {
			for _, s := range sites {
				if in == s {
					return true
				}
			}
			return false
		}
		reach, at := nilReturnReachable(fn, engine.PathQuery{CutInstr: isSite, Shallow: true}, 0)
		pos := c.P.Pos(fn.Pos())
		if at != nil {
			pos = c.P.InstrPos(at)
		}
		c.Require(!reach, rule, key, "every success return lies behind a store call", "Write can return a record (with a digest) without having stored the content under that digest: the record restores only where the file is already in place — on another machine, a fresh checkout or after the output was deleted the restore fails and the target is executed again although it is cached", pos)
	}
	if n == 0 {
		c.Unknown(rule, "record-only-after-store", "no handler Write that stores content found", "-")
	}
}

// R18p: the user command runs in the wrapper shell itself. On cancellation grog kills the wrapper's process;
// a command that the template runs in a subshell `( … )`, in the background or behind a pipeline is a child
// of that process and carries on after the wrapper was killed.
var subshellOpen = regexp.MustCompile(`(^|[;&|]\s*|\s)\(\s*$|^\s*\(\s*$|\{\s*$`)

func ruleWrapperRunsCommandInPlace(c *Check, rule string) {
	c.Rule(rule, "in the embedded shell wrapper the user command is not enclosed in a subshell or group that is opened on an earlier line: the process grog kills on cancellation is the shell that runs the command's steps", 1)
	ts := findEmbeddedTemplates(c, "execution")
	if len(ts) == 0 {
		c.Unknown(rule, "wrapper-in-place/execution", "no embedded template handed to text/template Parse found in the execution package", "")
		return
	}
	for _, t := range ts {
		key := "wrapper-in-place/" + filepath.Base(t.file)
		var src []byte
		if b, ok := c.P.Overlay[t.file]; ok {
			src = b
		} else if b, err := os.ReadFile(t.file); err == nil {
			src = b
		} else {
			c.Unknown(rule, key, "embedded template cannot be read: "+err.Error(), c.P.InstrPos(t.parse))
			continue
		}
		if len(t.fields) != 1 {
			c.Unknown(rule, key, "cannot tell which template field carries the user command", c.P.InstrPos(t.parse))
			continue
		}
		text := tmplComment.ReplaceAllString(string(src), "")
		act := regexp.MustCompile(`\{\{-?\s*\.` + regexp.QuoteMeta(t.fields[0]) + `\s*-?\}\}`)
		loc := act.FindStringIndex(text)
		if loc == nil {
			c.Unknown(rule, key, "the template never renders the command", c.P.InstrPos(t.parse))
			continue
		}
		depth := 0
		where := ""
		for i, l := range strings.Split(text[:loc[0]], "\n") {
			l = strings.TrimSpace(l)
			if l == "" || strings.HasPrefix(l, "#") {
				continue
			}
			// template actions are not shell text
			shell := regexp.MustCompile(`\{\{.*?\}\}`).ReplaceAllString(l, "")
			if strings.HasSuffix(shell, "(") && !strings.HasSuffix(shell, "$(") && !strings.HasSuffix(shell, "()") {
				depth++
				where = "line " + strconv.Itoa(i+1) + ": `" + l + "`"
			}
			if shell == ")" || strings.HasPrefix(shell, ") ") || strings.HasPrefix(shell, ");") {
				depth--
			}
		}
		rel, _ := filepath.Rel(c.P.RepoDir, t.file)
		c.Require(depth <= 0, rule, key, "the command's steps run in the wrapper shell", "the user command is enclosed in a subshell opened at "+where+": killing the wrapper process (all grog does on an interrupt, a fail-fast cancellation or a timeout) leaves the subshell alive, and the remaining steps of the command still run — and write outputs — after grog has given up on the target or exited", rel)
	}
}

// R10g: one release per acquisition. The release removes the lock path unconditionally, so a second release
// (an explicit call that is followed by the deferred one) removes whatever lock is there by then — the lock
// of the process that acquired it in between.
func ruleSingleRelease(c *Check, li *lockerInfo, rule string) {
	c.Rule(rule, "in every function that acquires the workspace lock, no path executes two releases: after a direct release call no return (which runs a deferred release) is reachable, and no second direct release", 1)
	if li == nil {
		return
	}
	reachesUnlock := func(s ssa.CallInstruction) bool {
		callees := c.G.CalleesOf(s)
		if len(callees) == 0 {
			return false
		}
		return c.G.ReachableFuncs(callees, func(f *ssa.Function) bool { return engine.InPackage(f, "locking") && f != li.Unlock })[li.Unlock]
	}
	n := 0
	for _, fn := range c.P.Funcs {
		if isTestFunc(c, fn) || engine.InPackage(fn, "locking") || fn.Parent() != nil {
			continue
		}
		if len(sitesReaching(c, fn, fnSet(li.Lock))) == 0 {
			continue
		}
		n++
		var deferred, direct []ssa.Instruction
		for _, f := range engine.AnonFuncsDeep(fn) {
			for _, s := range engine.SitesIn(f) {
				if !reachesUnlock(s) {
					continue
				}
				site := siteInTop(c, fn, s)
				if site == nil {
					continue
				}
				if _, isDefer := site.(*ssa.Defer); isDefer {
					deferred = append(deferred, site)
				} else if _, isGo := site.(*ssa.Go); !isGo {
					if mc, isMC := site.(*ssa.MakeClosure); !isMC || mc == nil {
						direct = append(direct, site)
					}
				}
			}
		}
		key := "single-release/" + c.P.FuncName(fn)
		bad := ""
		pos := c.P.Pos(fn.Pos())
		isRet := func(in ssa.Instruction) bool { _, r := in.(*ssa.Return); return r && in.Parent() == fn }
		isDirect := func(in ssa.Instruction) bool {
			for _, d := range direct {
				if in == d {
					return true
				}
			}
			return false
		}
		for _, d := range direct {
			if _, isDefer := d.(*ssa.Defer); isDefer {
				continue
			}
			if len(deferred) > 0 {
				// a deferred release is registered: does a normal return follow the direct one?
				registered := false
				for _, df := range deferred {
					if r, _ := engine.PathExists(fn, df, engine.IsInstr(d), engine.PathQuery{Shallow: true}); r {
						registered = true
					}
				}
				if r, _ := engine.PathExists(fn, d, isRet, engine.PathQuery{Shallow: true}); r && registered {
					bad = "the lock is released explicitly (" + c.P.InstrPos(d) + ") and again by the deferred release when the function returns"
					pos = c.P.InstrPos(d)
				}
			}
			if r, at := engine.PathExists(fn, d, isDirect, engine.PathQuery{Shallow: true}); r && at != nil {
				bad = "two explicit releases on one path (" + c.P.InstrPos(d) + ", " + c.P.InstrPos(at) + ")"
				pos = c.P.InstrPos(d)
			}
		}
		c.Require(bad == "", rule, key, "at most one release per acquisition on every path", bad+": the release removes the lock path whatever it contains, so the second one deletes the lock of a process that acquired it in between — and a third process then builds next to that one", pos)
	}
	if n == 0 {
		c.Unknown(rule, "single-release", "no function outside internal/locking acquires the workspace lock", "-")
	}
}

// R10h: a waiter re-examines the holder every round. Every loop of the acquire method in which the waiter
// sleeps contains the liveness probe of the recorded PID: a loop that only watches the file (stat) never
// notices that the holder died, and the lock it left behind blocks the waiter forever.
func ruleWaiterReprobes(c *Check, li *lockerInfo, rule string) {
	c.Rule(rule, "in the lock's acquire method every loop that contains a wait (time.Sleep, a receive from time.After/timer/ticker) also contains, in the same loop, the call that probes whether the recorded holder is alive", 1)
	if li == nil {
		return
	}
	var probe *ssa.Function
	for _, fn := range c.P.Funcs {
		if engine.InPackage(fn, "locking") && len(callsNamed(fn, "os.FindProcess")) > 0 {
			probe = fn
		}
	}
	if probe == nil {
		c.Unknown(rule, "waiter-reprobes", "no liveness probe found (R10d reports it)", "-")
		return
	}
	region := c.G.ReachableFuncs([]*ssa.Function{li.Lock}, func(f *ssa.Function) bool { return !engine.InPackage(f, "locking") })
	isWait := func(in ssa.Instruction) bool {
		switch x := in.(type) {
		case ssa.CallInstruction:
			n := engine.CalleeName(x)
			return n == "time.Sleep"
		case *ssa.UnOp:
			if x.Op == token.ARROW {
				for _, o := range engine.Origins(x.X) {
					if call, _ := engine.CallOf(o); call != nil && strings.HasPrefix(engine.CalleeName(call), "time.") {
						return true
					}
					if fa, ok := o.(*ssa.UnOp); ok && strings.Contains(fa.X.Type().String(), "time.T") {
						return true
					}
				}
			}
		case *ssa.Select:
			for _, st := range x.States {
				for _, o := range engine.Origins(st.Chan) {
					if call, _ := engine.CallOf(o); call != nil && strings.HasPrefix(engine.CalleeName(call), "time.") {
						return true
					}
				}
			}
		}
		return false
	}
	n := 0
	for fn := range region {
		if !engine.InPackage(fn, "locking") {
			continue
		}
		for _, lp := range engine.LoopsOf(fn) {
			waits := false
			var wpos ssa.Instruction
			for b := range lp.Body {
				for _, in := range b.Instrs {
					if isWait(in) {
						waits, wpos = true, in
					}
				}
			}
			if !waits {
				continue
			}
			n++
			probes := false
			for b := range lp.Body {
				for _, in := range b.Instrs {
					s, ok := in.(ssa.CallInstruction)
					if !ok {
						continue
					}
					callees := c.G.CalleesOf(s)
					if len(callees) > 0 && c.G.ReachableFuncs(callees, func(f *ssa.Function) bool { return !engine.InPackage(f, "locking") })[probe] {
						probes = true
					}
				}
			}
			c.Require(probes, rule, "waiter-reprobes/"+c.P.FuncName(fn), "the loop that waits also probes the holder", "a loop of the acquire method waits without ever probing whether the recorded holder is still alive (it only watches the file): a holder that dies after the waiter has seen it alive leaves a lock that this waiter never recovers — the new build blocks forever on a lock of a dead process", c.P.InstrPos(wpos))
		}
	}
	if n == 0 {
		c.Unknown(rule, "waiter-reprobes", "the acquire method has no waiting loop", "-")
	}
}

// R03n: one command per execution. In the function that runs a target's command the command primitive is
// not reachable from itself: no retry loop and no second run on a later branch. (A second start is only
// legitimate after a cache fault, and that goes through the walker's re-run path, not through this function.)
func ruleCommandRunsOncePerExecution(c *Check, rule string) {
	c.Rule(rule, "in the functions between the executing method and exec.Cmd, no call that starts the command is reachable from a call that starts the command", 1)
	run := c.G.CallsTo("(*os/exec.Cmd).Run", "(*os/exec.Cmd).Start", "(*os/exec.Cmd).Output", "(*os/exec.Cmd).CombinedOutput")
	runners := map[*ssa.Function]bool{}
	for _, s := range run {
		if fn := s.Parent(); fn != nil && engine.InPackage(fn, "execution") && !isTestFunc(c, fn) {
			runners[engine.TopFunc(fn)] = true
		}
	}
	if len(runners) == 0 {
		c.Unknown(rule, "command-once-per-execution", "no function of internal/execution starts an exec.Cmd", "-")
		return
	}
	n := 0
	// level 1: the functions that hand the target's Command to a runner; level 2: their callers
	level := runners
	seen := map[*ssa.Function]bool{}
	for hop := 0; hop < 2; hop++ {
		next := map[*ssa.Function]bool{}
		byFn := map[*ssa.Function][]ssa.Instruction{}
		for r := range level {
			for _, cs := range c.G.CallersOf(r) {
				fn := engine.TopFunc(cs.Parent())
				if fn == nil || !engine.InPackage(fn, "execution") || isTestFunc(c, fn) || runners[fn] || level[fn] {
					continue
				}
				// output checks run the same primitive for a different purpose: at the first level only
				// sites that are handed the target's Command count
				if hop == 0 && !passesField(c, cs, fk("model.Target", "Command")) {
					continue
				}
				if site := siteInTop(c, fn, cs); site != nil {
					byFn[fn] = append(byFn[fn], site)
				}
			}
		}
		for fn, cmdSites := range byFn {
			if seen[fn] {
				continue
			}
			seen[fn] = true
			next[fn] = true
			isCmd := func(in ssa.Instruction) bool {
				for _, s := range cmdSites {
					if in == s {
						return true
					}
				}
				return false
			}
			n++
			bad := ""
			pos := c.P.InstrPos(cmdSites[0])
			for _, s := range cmdSites {
				if r, at := engine.PathExists(fn, s, isCmd, engine.PathQuery{Shallow: true}); r {
					bad = "after the command was run (" + c.P.InstrPos(s) + ") it can be run again (" + c.P.InstrPos(at) + ")"
					pos = c.P.InstrPos(at)
				}
			}
			c.Require(bad == "", rule, "command-once-per-execution/"+c.P.FuncName(fn), "the target's command is started at most once per call", bad+": the target's command executes twice in one build without any cache fault (side effects — appended logs, pushed artefacts, consumed tokens — happen twice)", pos)
		}
		level = next
	}
	if n == 0 {
		c.Unknown(rule, "command-once-per-execution", "no caller hands the target's command to the command runner", "-")
	}
}

// passesField: some argument of the call derives from a read of the field (directly, or from a value the field
// was read into within the same function).
func passesField(c *Check, s ssa.CallInstruction, key engine.FieldKey) bool {
	fn := s.Parent()
	for _, a := range s.Common().Args {
		back := c.G.Backward([]Node{a}, func(e *engine.Edge) bool { return e.Via != nil && engine.TopFunc(e.Via.Parent()) == engine.TopFunc(fn) })
		if back.Has(key) {
			return true
		}
	}
	return false
}

// R03m: Add before go. A goroutine that announces itself to a WaitGroup (Add inside the goroutine) may not
// have done so when the waiter reaches Wait: the wait returns while work is still outstanding — a restore is
// reported complete while files are still being downloaded.
func ruleAddBeforeSpawn(c *Check, rule string, pkgs ...string) {
	c.Rule(rule, "in "+strings.Join(pkgs, ", ")+": a goroutine whose body calls Done on a WaitGroup is started only after Add on that WaitGroup in the starting function (same loop iteration), and never calls Add for itself", 3)
	n := 0
	for _, fn := range c.P.Funcs {
		in := false
		for _, p := range pkgs {
			if engine.InPackage(fn, p) {
				in = true
			}
		}
		if !in || isTestFunc(c, fn) {
			continue
		}
		for _, b := range fn.Blocks {
			for _, ins := range b.Instrs {
				g, ok := ins.(*ssa.Go)
				if !ok {
					continue
				}
				var body *ssa.Function
				for _, f := range c.G.CalleesOf(g) {
					body = f
				}
				if body == nil || len(body.Blocks) == 0 {
					continue
				}
				dones := callsNamedDeep1(body, "(*sync.WaitGroup).Done")
				if len(dones) == 0 {
					continue
				}
				n++
				key := "add-before-spawn/" + c.P.FuncName(fn)
				adds := callsNamed(fn, "(*sync.WaitGroup).Add")
				dom := false
				for _, a := range adds {
					if r, _ := engine.PathExists(fn, nil, engine.IsInstr(g), engine.PathQuery{CutInstr: engine.IsInstr(a), Shallow: true}); !r {
						if lpA, lpG := engine.LoopOf(a), engine.LoopOf(g); lpG == nil || (lpA != nil && lpA.Header == lpG.Header) || lpA == nil && lpG != nil && addCoversLoop(a, lpG) {
							dom = true
						}
					}
				}
				// the spawner may itself be a counted goroutine that adds for its children before it starts them
				selfAdds := false
				for _, a := range callsNamed(body, "(*sync.WaitGroup).Add") {
					// an Add in the body that is not followed by a spawn of the body's own is the body counting itself
					spawnsAfter := false
					for _, bb := range body.Blocks {
						for _, bi := range bb.Instrs {
							if g2, isGo := bi.(*ssa.Go); isGo {
								if r, _ := engine.PathExists(body, a, engine.IsInstr(g2), engine.PathQuery{Shallow: true}); r {
									spawnsAfter = true
								}
							}
						}
					}
					if !spawnsAfter {
						selfAdds = true
					}
				}
				switch {
				case selfAdds:
					c.Bad(rule, key, "the goroutine calls WaitGroup.Add for itself after it has been started: the waiter can reach Wait before the Add and return while the goroutine's work (a file download of a directory restore, say) has not even begun — the restore is reported complete and the dependant starts on a partial directory", c.P.InstrPos(g))
				case !dom:
					c.Bad(rule, key, "a goroutine that calls Done is started without a preceding WaitGroup.Add in the starting function: the join can return early, or Done panics on a negative counter", c.P.InstrPos(g))
				default:
					c.OK(rule, key, "Add precedes the go statement", c.P.InstrPos(g))
				}
			}
		}
	}
}

// addCoversLoop: `wg.Add(len(xs))` before a full-range loop over xs.
func addCoversLoop(a ssa.CallInstruction, lp *engine.Loop) bool {
	args := a.Common().Args
	if len(args) < 2 {
		return false
	}
	if lp.RangedValue() == nil {
		// `wg.Add(n)` before `for i := 0; i < n; i++`
		if ifi, ok := lastIf(lp.Header); ok {
			at := engine.CondAtom(ifi.Cond, true)
			if at.Op == "lt" && at.Other != nil && (at.Other == args[1] || sameVar(at.Other, args[1]) || engine.ExprKey(at.Other) == engine.ExprKey(args[1])) {
				return true
			}
		}
		return false
	}
	if !lp.IsFullRange() {
		return false
	}
	coll, isLen := lenArg(args[1])
	return isLen && (sameSlice(coll, lp.RangedValue()) || engine.ExprKey(coll) == engine.ExprKey(lp.RangedValue()))
}

func callsNamedDeep1(fn *ssa.Function, names ...string) []ssa.CallInstruction {
	out := callsNamed(fn, names...)
	for _, s := range engine.SitesIn(fn) {
		if call, ok := s.(*ssa.Call); ok {
			if h := call.Call.StaticCallee(); h != nil && len(h.Blocks) > 0 && h != fn {
				out = append(out, callsNamed(h, names...)...)
			}
		}
		if d, ok := s.(*ssa.Defer); ok {
			if h := d.Call.StaticCallee(); h != nil && len(h.Blocks) > 0 && h != fn {
				out = append(out, callsNamed(h, names...)...)
			}
		}
	}
	return out
}

// R14l: a slice handed out by a getter of the model is not written through. `xs[:0]` + append (the
// allocation-free filter idiom), a plain append, or an element store on the slice that Target.AllOutputs(),
// GetDependencies() … return writes into the target's own list: the declared outputs of the target change
// under the executor.
func ruleModelSlicesNotWrittenThrough(c *Check, rule string) {
	c.Rule(rule, "outside internal/model no element store writes through, and no `s[:0]`-append filter reuses, a slice returned by a method of a model type that returns one of the receiver's own slice fields", 1)
	shared := map[*ssa.Function]bool{}
	for _, fn := range c.P.Funcs {
		if !engine.InPackage(fn, "model") || fn.Signature.Recv() == nil || len(fn.Blocks) == 0 || fn.Signature.Results().Len() != 1 {
			continue
		}
		for _, r := range engine.Returns(fn) {
			for _, o := range engine.Origins(r.Results[0]) {
				if ld, ok := o.(*ssa.UnOp); ok {
					if fa, ok := ld.X.(*ssa.FieldAddr); ok && strings.HasPrefix(engine.TypeKey(fa.X.Type()), "model.") {
						shared[fn] = true
					}
				}
				if call, ok := o.(*ssa.Call); ok {
					// append(t.Outputs, x): shares the backing array whenever there is spare capacity
					if b, isB := call.Call.Value.(*ssa.Builtin); isB && b.Name() == "append" {
						for _, o2 := range engine.Origins(call.Call.Args[0]) {
							if ld, ok := o2.(*ssa.UnOp); ok {
								if fa, ok := ld.X.(*ssa.FieldAddr); ok && strings.HasPrefix(engine.TypeKey(fa.X.Type()), "model.") {
									shared[fn] = true
								}
							}
						}
					}
				}
			}
		}
	}
	n := 0
	for _, fn := range c.P.Funcs {
		if engine.InPackage(fn, "model") || engine.InPackage(fn, "proto/gen") || isTestFunc(c, fn) || !engine.IsFirstParty(pkgPathOf(fn)) {
			continue
		}
		var got []ssa.Value
		for _, s := range engine.SitesIn(fn) {
			call, ok := s.(*ssa.Call)
			if !ok {
				continue
			}
			for _, f := range c.G.CalleesOf(call) {
				if shared[f] {
					got = append(got, call)
				}
			}
		}
		if len(got) == 0 {
			continue
		}
		n++
		aliases := func(v ssa.Value) bool {
			roots := sliceRoots(v)
			for _, a := range got {
				if roots[a] {
					return true
				}
			}
			return false
		}
		bad := ""
		var pos string
		for _, b := range fn.Blocks {
			for _, in := range b.Instrs {
				switch x := in.(type) {
				case *ssa.Call:
					if bi, ok := x.Call.Value.(*ssa.Builtin); ok && bi.Name() == "append" && len(x.Call.Args) > 0 {
						// append to a reslice that keeps the backing array but drops elements (`s[:0]`, `s[:n]`)
						if sl, isSl := x.Call.Args[0].(*ssa.Slice); isSl && sl.High != nil && aliases(sl.X) {
							bad = "append reuses the backing array of a slice returned by the model (`s[:k]` then append)"
							pos = c.P.InstrPos(x)
						}
						for _, o := range engine.Origins(x.Call.Args[0]) {
							if sl, isSl := o.(*ssa.Slice); isSl && sl.High != nil && aliases(sl.X) {
								bad = "append reuses the backing array of a slice returned by the model (`s[:k]` then append)"
								pos = c.P.InstrPos(x)
							}
						}
					}
				case *ssa.Store:
					if ia, ok := x.Addr.(*ssa.IndexAddr); ok && aliases(ia.X) {
						bad = "an element of a slice returned by the model is overwritten"
						pos = c.P.InstrPos(x)
					}
				}
			}
		}
		c.Require(bad == "", rule, "model-slice-not-written/"+c.P.FuncName(fn), "slices obtained from the model are only read (or copied first)", bad+": the list is the target's own (AllOutputs returns Target.Outputs itself), so the declared outputs of the target are rewritten in place — a declared output disappears before the executor checks, stores and restores outputs", pos)
	}
	if n == 0 {
		c.Unknown(rule, "model-slice-not-written", "no function outside internal/model obtains a slice from a model getter", "-")
	}
}

// R20k / R20l: who may write. The label an alias points to and the resolved input list of a target are
// established once, by the loader, from what the BUILD file declares; the graph's edges, the queries and the
// change hash all read them. A later rewrite (alias chains collapsed, inputs re-resolved at execution time)
// makes the queries answer for a graph, or a file list, that is not the declared one.
func ruleWrittenOnlyByLoader(c *Check, rule, typ, field, what string) {
	c.Rule(rule, "the field "+typ+"."+field+" is stored only in internal/loading and in constructors of internal/model (outside tests)", 1)
	key := fk(typ, field)
	n := 0
	var bad []string
	pos := "-"
	for _, st := range storesToField(c, key) {
		fn := st.Parent()
		if fn == nil || isTestFunc(c, fn) {
			continue
		}
		n++
		top := engine.TopFunc(fn)
		if engine.InPackage(top, "loading") {
			continue
		}
		if engine.InPackage(top, "model") && (strings.HasPrefix(top.Name(), "New") || strings.Contains(top.Name(), "Unmarshal")) {
			continue
		}
		bad = append(bad, c.P.FuncName(top))
		pos = c.P.InstrPos(st)
	}
	if n == 0 {
		c.Unknown(rule, "written-only-by-loader/"+typ+"."+field, "no store to the field found", "-")
		return
	}
	c.Require(len(bad) == 0, rule, "written-only-by-loader/"+typ+"."+field, "only the loader stores the field", typ+"."+field+" is rewritten after loading by "+strings.Join(bad, ", ")+": "+what, pos)
}
