package rules

import (
	"go/types"
	"strings"

	"golang.org/x/tools/go/ssa"

	"grogverif/engine"
)

// Round 6, third batch.

// R15o (also R06n, R07q): a deferred closure does not turn a failure into a success. A function with a named
// error result that closes a file in `defer func() { err = f.Close() }()` returns the result of Close whatever
// happened before: a copy that broke half way is reported as a successful restore. A deferred assignment to the
// named result is fine when it only happens while the result is still nil, when the assigned value is known to
// be an error, or when the old value is joined in.
func ruleDeferredResultNotClobbered(c *Check, rule string, pkgs ...string) {
	c.Rule(rule, "in "+strings.Join(pkgs, ", ")+": a deferred function literal assigns the enclosing function's named error result only under `result == nil`, only a value known to be non-nil, or a value that includes the old one", 0)
	n := 0
	for _, fn := range c.P.Funcs {
		in := false
		for _, p := range pkgs {
			if engine.InPackage(fn, p) {
				in = true
			}
		}
		if !in || isTestFunc(c, fn) || engine.ErrResultIndex(fn.Signature) < 0 {
			continue
		}
		idx := engine.ErrResultIndex(fn.Signature)
		for _, b := range fn.Blocks {
			for _, ins := range b.Instrs {
				d, ok := ins.(*ssa.Defer)
				if !ok {
					continue
				}
				mc, ok := d.Call.Value.(*ssa.MakeClosure)
				if !ok {
					continue
				}
				lit, ok := mc.Fn.(*ssa.Function)
				if !ok {
					continue
				}
				for i, fv := range lit.FreeVars {
					if i >= len(mc.Bindings) {
						continue
					}
					pt, isPtr := fv.Type().Underlying().(*types.Pointer)
					if !isPtr || !isErrorType(pt.Elem()) {
						continue
					}
					binding := mc.Bindings[i]
					// the cell is the named result: some return of fn yields a load of it
					isResult := false
					for _, r := range engine.Returns(fn) {
						if idx < len(r.Results) {
							if ld, isLd := r.Results[idx].(*ssa.UnOp); isLd && ld.X == binding {
								isResult = true
							}
						}
					}
					if !isResult {
						continue
					}
					loadsCell := func(v ssa.Value) bool {
						for _, o := range engine.Origins(v) {
							if ld, isLd := o.(*ssa.UnOp); isLd && ld.X == ssa.Value(fv) {
								return true
							}
						}
						if ld, isLd := v.(*ssa.UnOp); isLd && ld.X == ssa.Value(fv) {
							return true
						}
						return false
					}
					for _, lb := range lit.Blocks {
						for _, li := range lb.Instrs {
							st, isSt := li.(*ssa.Store)
							if !isSt || st.Addr != ssa.Value(fv) {
								continue
							}
							n++
							key := "deferred-result-not-clobbered/" + c.P.FuncName(fn)
							// (a) only while the result is still nil
							reachWithoutNilGuard, _ := engine.PathExists(lit, nil, engine.IsInstr(st), engine.PathQuery{Shallow: true, CutEdge: engine.CutEdgesWhere(func(a engine.Atom) bool {
								return a.Op == "nil" && loadsCell(a.V)
							})})
							// (b) the assigned value is known to be non-nil here
							reachWithoutErrGuard, _ := engine.PathExists(lit, nil, engine.IsInstr(st), engine.PathQuery{Shallow: true, CutEdge: engine.CutEdgesWhere(func(a engine.Atom) bool {
								return a.Op == "nonnil" && (a.V == st.Val || sameVar(a.V, st.Val))
							})})
							fresh := false
							joined := false
							for _, o := range engine.Origins(st.Val) {
								if call, _ := engine.CallOf(o); call != nil {
									switch engine.CalleeName(call) {
									case "fmt.Errorf", "errors.New":
										fresh = true
									case "errors.Join":
										for _, a := range call.Common().Args {
											if sl, isSl := a.(*ssa.Slice); isSl {
												if al, isAl := sl.X.(*ssa.Alloc); isAl {
													for _, ref := range *al.Referrers() {
														if ia, isIA := ref.(*ssa.IndexAddr); isIA {
															for _, r2 := range *ia.Referrers() {
																if s2, isS2 := r2.(*ssa.Store); isS2 && loadsCell(s2.Val) {
																	joined = true
																}
															}
														}
													}
												}
											}
										}
									}
								}
								if loadsCell(o) {
									joined = true
								}
							}
							ok := !reachWithoutNilGuard || !reachWithoutErrGuard || fresh || joined
							c.Require(ok, rule, key, "the deferred assignment cannot replace an error by nil", "a deferred function literal assigns the named error result unconditionally from a call that usually succeeds (Close): whatever error the function was returning — a copy that broke half way, a failed chmod — is replaced by nil, and a partly written file is reported as restored", c.P.InstrPos(st))
						}
					}
				}
			}
		}
	}
	if n == 0 {
		c.OK(rule, "deferred-result-not-clobbered/none", "no deferred function literal assigns a named error result", "-")
	}
}

func isErrorType(t types.Type) bool {
	n, ok := t.(*types.Named)
	return ok && n.Obj().Pkg() == nil && n.Obj().Name() == "error"
}

// R05n / R20m: the list of descendants is the whole reachable set. The keep-going branch of the walker
// cancels exactly the nodes GetDescendants returns, and `rdeps -t` prints them: a node that the traversal
// reaches but a filter keeps out of the list (aliases, say) is never cancelled — its routine waits for a
// ready message that cannot come and the build never ends.
func ruleReachableListUnfiltered(c *Check, rule string) {
	c.Rule(rule, "in the functions behind GetDescendants/GetAncestors, every loop that appends nodes to the list appends the node of each iteration unless the iteration is skipped by an already-seen test: no kind/type filter between the traversal and its result", 1)
	var roots []*ssa.Function
	for _, name := range []string{"GetDescendants", "GetAncestors"} {
		if f := c.P.Func("dag", "DirectedTargetGraph", name); f != nil {
			roots = append(roots, f)
		}
	}
	if len(roots) == 0 {
		c.Unknown(rule, "anchor/dag.GetDescendants", "anchor-unresolved", "-")
		return
	}
	region := c.G.ReachableFuncs(roots, func(f *ssa.Function) bool { return !engine.InPackage(f, "dag") })
	seenCut := engine.CutEdgesWhere(func(a engine.Atom) bool {
		// a frame of an explicit stack is exhausted: bookkeeping, no node in this round
		if isListExhaustedAtom(a) {
			return true
		}
		if a.Op != "true" {
			return false
		}
		switch x := a.V.(type) {
		case *ssa.Lookup:
			return true
		case *ssa.Extract:
			_, isLk := x.Tuple.(*ssa.Lookup)
			return isLk && x.Index == 1
		}
		return false
	})
	n := 0
	for fn := range region {
		if !engine.InPackage(fn, "dag") {
			continue
		}
		for _, lp := range engine.LoopsOf(fn) {
			var apps []ssa.Instruction
			for b := range lp.Body {
				for _, in := range b.Instrs {
					call, ok := in.(*ssa.Call)
					if !ok {
						continue
					}
					if bi, isB := call.Call.Value.(*ssa.Builtin); isB && bi.Name() == "append" && strings.HasSuffix(engine.TypeKey(call.Type()), "model.BuildNode") || isNodeSliceAppend(call) {
						apps = append(apps, call)
					}
				}
			}
			if len(apps) == 0 {
				continue
			}
			n++
			isApp := func(in ssa.Instruction) bool {
				for _, a := range apps {
					if in == a {
						return true
					}
				}
				return false
			}
			skip := lp.IterationCanSkip(isApp, seenCut)
			c.Require(!skip, rule, "reachable-list-unfiltered/"+c.P.FuncName(fn), "every node of an iteration that is not skipped as already seen is appended", "an iteration over reached nodes can end without appending the node although it was not seen before (a filter on the node's kind): the node is missing from the descendants the keep-going branch cancels — the routine of an alias below a failed target waits forever and the build never ends — and from what `rdeps -t` prints", c.P.InstrPos(apps[0]))
		}
	}
	if n == 0 {
		c.Unknown(rule, "reachable-list-unfiltered", "no loop behind GetDescendants/GetAncestors appends nodes", "-")
	}
}

func isNodeSliceAppend(call *ssa.Call) bool {
	bi, isB := call.Call.Value.(*ssa.Builtin)
	if !isB || bi.Name() != "append" {
		return false
	}
	sl, ok := call.Type().Underlying().(*types.Slice)
	return ok && strings.HasSuffix(sl.Elem().String(), "model.BuildNode")
}

// R19c: no traversal result is assembled by splicing whole sub-results. `all = append(all, rec(child)...)`
// over the adjacency of a DAG copies the sub-result of a node once per path that leads to it — with or
// without a memo of the sub-results the list grows with the number of paths.
func ruleNoSplicedSubResults(c *Check, rule string) {
	c.Rule(rule, "in dag, selection and analysis no loop over an adjacency list splices the whole result of a recursive call (or of a memo of such results) into its own result with append(x, sub...)", 0)
	n := 0
	for _, fn := range c.P.Funcs {
		if !(engine.InPackage(fn, "dag") || engine.InPackage(fn, "selection") || engine.InPackage(fn, "analysis")) || isTestFunc(c, fn) {
			continue
		}
		top := engine.TopFunc(fn)
		for _, lp := range engine.LoopsOf(fn) {
			if lp.RangedValue() == nil || !isAdjacency(c, lp.RangedValue(), 0) {
				continue
			}
			for b := range lp.Body {
				for _, in := range b.Instrs {
					call, ok := in.(*ssa.Call)
					if !ok || !isNodeSliceAppend(call) || len(call.Call.Args) != 2 {
						continue
					}
					// a spliced slice: the second argument is a slice value that is not the varargs array
					spl := call.Call.Args[1]
					if sl, isSl := spl.(*ssa.Slice); isSl {
						if _, isAl := sl.X.(*ssa.Alloc); isAl {
							continue
						}
					}
					rec := false
					for _, o := range engine.Origins(spl) {
						sub, _ := engine.CallOf(o)
						if sub == nil {
							continue
						}
						callees := c.G.CalleesOf(sub)
						if len(callees) == 0 {
							continue
						}
						for f := range c.G.ReachableFuncs(callees, func(f *ssa.Function) bool { return !engine.IsFirstParty(pkgPathOf(f)) }) {
							if engine.TopFunc(f) == top {
								rec = true
							}
						}
					}
					if !rec {
						continue
					}
					n++
					c.Bad(rule, "no-spliced-sub-results/"+c.P.FuncName(fn), "the result of a recursive call is spliced whole into the caller's result inside a loop over an adjacency list: a node's sub-result is copied once per path that reaches it, so on a ladder of diamonds the list (time and memory) grows as width^depth — `rdeps -t`, the keep-going failure propagation and `changes --dependents=transitive` take exponential time", c.P.InstrPos(call))
				}
			}
		}
	}
	if n == 0 {
		c.OK(rule, "no-spliced-sub-results/none", "no traversal splices recursive sub-results", "-")
	}
}

// R16r: a composite memo key is injective. A process-wide memo (sync.Map, or a map held in a package variable
// or a struct field) keyed by a string that is glued together from two or more variable parts with
// filepath.Join / string concatenation / Sprintf answers for ("a", "b/x") what it stored for ("a/b", "x").
func ruleCompositeMemoKeyInjective(c *Check, rule string, pkgs ...string) {
	c.Rule(rule, "in "+strings.Join(pkgs, ", ")+": the key of a sync.Map or of a map held in a package variable is not a string joined from two or more non-constant parts (filepath.Join, path.Join, +, Sprintf); composite keys are structs or arrays", 0)
	n := 0
	check := func(fn *ssa.Function, key ssa.Value, at ssa.Instruction, what string) {
		for _, o := range engine.Origins(key) {
			if mi, ok := o.(*ssa.MakeInterface); ok {
				o = mi.X
			}
			parts := 0
			how := ""
			if call, _ := engine.CallOf(o); call != nil {
				switch engine.CalleeName(call) {
				case "path/filepath.Join", "path.Join":
					how = engine.CalleeName(call)
					parts = variadicNonConst(call)
				case "fmt.Sprintf":
					how = "fmt.Sprintf"
					parts = variadicNonConst(call)
				}
			}
			if bo, ok := o.(*ssa.BinOp); ok && bo.Op.String() == "+" && isStringType(bo.Type()) {
				how = "string concatenation"
				parts = concatNonConst(bo)
			}
			if parts < 2 {
				continue
			}
			n++
			c.Bad(rule, "composite-memo-key/"+c.P.FuncName(fn), "the key of "+what+" is glued together from "+how+" of two or more variable parts: different (part, part) pairs give the same string — filepath.Join(\"a\", \"b/*.txt\") and filepath.Join(\"a/b\", \"*.txt\") — so the memo answers one caller with what it computed for another (whose result depends on which was first: worker scheduling)", c.P.InstrPos(at))
		}
	}
	for _, fn := range c.P.Funcs {
		in := false
		for _, p := range pkgs {
			if engine.InPackage(fn, p) {
				in = true
			}
		}
		if !in || isTestFunc(c, fn) {
			continue
		}
		for _, s := range engine.SitesIn(fn) {
			switch engine.CalleeName(s) {
			case "(*sync.Map).Load", "(*sync.Map).Store", "(*sync.Map).LoadOrStore":
				if len(s.Common().Args) >= 2 {
					check(fn, s.Common().Args[1], s, "a sync.Map")
				}
			}
		}
		for _, b := range fn.Blocks {
			for _, in := range b.Instrs {
				mu, ok := in.(*ssa.MapUpdate)
				if !ok || !isStringType(mu.Key.Type()) {
					continue
				}
				global := false
				for _, o := range engine.Origins(mu.Map) {
					if ld, isLd := o.(*ssa.UnOp); isLd {
						if _, isG := ld.X.(*ssa.Global); isG {
							global = true
						}
					}
				}
				if global {
					check(fn, mu.Key, mu, "a package-level map")
				}
			}
		}
	}
	if n == 0 {
		c.OK(rule, "composite-memo-key/none", "no process-wide memo is keyed by a joined string", "-")
	}
}

func variadicNonConst(call ssa.CallInstruction) int {
	n := 0
	for _, a := range call.Common().Args {
		if sl, ok := a.(*ssa.Slice); ok {
			if al, ok := sl.X.(*ssa.Alloc); ok {
				for _, ref := range *al.Referrers() {
					if ia, ok := ref.(*ssa.IndexAddr); ok {
						for _, r2 := range *ia.Referrers() {
							if st, ok := r2.(*ssa.Store); ok {
								v := st.Val
								if mi, isMI := v.(*ssa.MakeInterface); isMI {
									v = mi.X
								}
								if _, isK := v.(*ssa.Const); !isK {
									n++
								}
							}
						}
					}
				}
			}
		}
	}
	return n
}

func concatNonConst(bo *ssa.BinOp) int {
	n := 0
	for _, v := range []ssa.Value{bo.X, bo.Y} {
		if inner, ok := v.(*ssa.BinOp); ok && inner.Op.String() == "+" {
			n += concatNonConst(inner)
		} else if _, isK := v.(*ssa.Const); !isK {
			n++
		}
	}
	return n
}
