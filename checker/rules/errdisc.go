package rules

import (
	"strings"

	"golang.org/x/tools/go/ssa"

	"grogverif/engine"
)

// Error discipline (P2): in a function that itself returns an error, no call's
// error result may be dropped on a path that goes on to a success return
// (`return ..., nil`). Cleanup calls whose failure cannot change the outcome
// are exempt by name, one line of reason each.
var errExempt = map[string]string{
	"(*os.File).Close":              "closing a read handle / already-synced temp file: failure does not change what was read or published",
	"os.Remove":                     "best-effort cleanup",
	"os.RemoveAll":                  "handled by rule R06c where it matters",
	"(io.Closer).Close":             "closing a reader",
	"(io.ReadCloser).Close":         "closing a reader",
	"(*io.PipeWriter).Close":        "pipe close never fails",
	"(*io.PipeReader).Close":        "pipe close never fails",
	"(*io.PipeWriter).CloseWithError": "pipe close never fails",
	"(*grog/internal/maps.MutexMap).Unlock": "unlock of a held lock",
	"fmt.Println":                   "console output",
	"fmt.Printf":                    "console output",
	"fmt.Print":                     "console output",
	"fmt.Fprintf":                   "console output",
	"fmt.Fprintln":                  "console output",
}

type droppedErr struct {
	Call ssa.CallInstruction
	At   ssa.Instruction
}

// successReturn: a return whose trailing error result is the nil constant, or
// (for functions whose last result is error) a return of a possibly-nil value
// is NOT counted — only literal nil.
func successReturn(in ssa.Instruction) bool {
	r, ok := in.(*ssa.Return)
	return ok && len(r.Results) > 0 && isNilErrReturn(r)
}

// droppedErrors lists calls in fn whose error can be ignored on the way to a success return.
func droppedErrors(c *Check, fn *ssa.Function, extraExempt func(name string) bool) []droppedErr {
	if engine.ErrResultIndex(fn.Signature) < 0 {
		return nil
	}
	var out []droppedErr
	for _, s := range engine.SitesIn(fn) {
		if _, isCall := s.(*ssa.Call); !isCall {
			continue // defer/go: result unobservable
		}
		sig := s.Common().Signature()
		if engine.ErrResultIndex(sig) < 0 {
			continue
		}
		name := engine.CalleeName(s)
		if _, ok := errExempt[name]; ok {
			continue
		}
		if extraExempt != nil && extraExempt(name) {
			continue
		}
		if strings.HasSuffix(name, ".Close") && len(s.Common().Args) <= 1 {
			// Close of an arbitrary closer on the success path is judged by the specific rules (R07a)
			continue
		}
		if ok, at := engine.PathExists(fn, s, successReturn, engine.PathQuery{CutEdge: engine.NilErrEdgesOf(s)}); ok {
			// the error may also be *returned* as a possibly-nil value (return f()) — not a success return by construction.
			// It may be forwarded into a channel or collected: accept when the error value has a non-test use.
			if errForwarded(s) {
				continue
			}
			out = append(out, droppedErr{s, at})
		}
	}
	return out
}

// errForwarded: the call's error value is sent on a channel, appended to a
// slice, stored into a captured variable, or passed to another first-party call.
func errForwarded(s ssa.CallInstruction) bool {
	v := s.Value()
	if v == nil {
		return false
	}
	idx := engine.ErrResultIndex(s.Common().Signature())
	var errVals []ssa.Value
	if s.Common().Signature().Results().Len() == 1 {
		errVals = append(errVals, v)
	} else {
		for _, r := range *v.Referrers() {
			if ex, ok := r.(*ssa.Extract); ok && ex.Index == idx {
				errVals = append(errVals, ex)
			}
		}
	}
	seen := map[ssa.Value]bool{}
	var walk func(v ssa.Value, d int) bool
	walk = func(v ssa.Value, d int) bool {
		if seen[v] || d > 6 {
			return false
		}
		seen[v] = true
		for _, r := range *v.Referrers() {
			switch x := r.(type) {
			case *ssa.Send:
				if x.X == v {
					return true
				}
			case *ssa.Select:
				return true
			case *ssa.Return:
				return true
			case *ssa.Phi:
				if walk(x, d+1) {
					return true
				}
			case *ssa.MakeInterface:
				if walk(x, d+1) {
					return true
				}
			case *ssa.ChangeInterface:
				if walk(x, d+1) {
					return true
				}
			case *ssa.Store:
				if x.Val == v {
					if _, isAlloc := x.Addr.(*ssa.Alloc); !isAlloc {
						return true // stored into a field/captured variable/element
					}
					// local cell: continue with its loads
					for _, lr := range *x.Addr.Referrers() {
						if ld, ok := lr.(*ssa.UnOp); ok {
							if walk(ld, d+1) {
								return true
							}
						}
					}
				}
			case *ssa.Call:
				if b, ok := x.Call.Value.(*ssa.Builtin); ok && b.Name() == "append" {
					return true
				}
			}
		}
		return false
	}
	for _, e := range errVals {
		if walk(e, 0) {
			return true
		}
	}
	return false
}

// requireNoDroppedErrors emits one obligation per function.
func requireNoDroppedErrors(c *Check, rule string, fns []*ssa.Function, extraExempt func(string) bool) {
	seen := map[*ssa.Function]bool{}
	for _, fn := range fns {
		if fn == nil || seen[fn] {
			continue
		}
		seen[fn] = true
		if engine.ErrResultIndex(fn.Signature) < 0 {
			continue
		}
		d := droppedErrors(c, fn, extraExempt)
		key := "no-dropped-error/" + c.P.FuncName(fn)
		if len(d) == 0 {
			c.OK(rule, key, "every error-returning call on a path to a success return is tested and leaves the success path when non-nil", c.P.Pos(fn.Pos()))
			continue
		}
		for _, x := range d {
			c.Bad(rule, key+"/"+strings.ReplaceAll(engine.CalleeName(x.Call), "grog/internal/", ""),
				"the error of this call can be ignored and the function still returns success ("+c.P.InstrPos(x.At)+")", c.P.InstrPos(x.Call))
		}
	}
}
