package rules

import (
	"go/token"
	"go/types"
	"strings"

	"golang.org/x/tools/go/ssa"

	"grogverif/engine"
)

// Error discipline (P2): in a function that itself returns an error, no call's
// error result may be dropped on a path that goes on to a success return
// (`return ..., nil`). Cleanup calls whose failure cannot change the outcome
// are exempt by name, one line of reason each.
var errExempt = map[string]string{
	"(context.Context).Err":                         "a query of the context's state, not an operation that failed: what to do about a cancelled context is the caller's decision",
	"(*os.File).Close":                              "closing a read handle / already-synced temp file: failure does not change what was read or published",
	"os.Remove":                                     "best-effort cleanup",
	"os.RemoveAll":                                  "handled by rule R06c where it matters",
	"(io.Closer).Close":                             "closing a reader",
	"(io.ReadCloser).Close":                         "closing a reader",
	"(*io.PipeWriter).Close":                        "pipe close never fails",
	"(*io.PipeReader).Close":                        "pipe close never fails",
	"(*io.PipeWriter).CloseWithError":               "pipe close never fails",
	"(*grog/internal/maps.MutexMap).Unlock":         "unlock of a held lock",
	"(*grog/internal/caching.TaintCache).Clear":     "a failed removal leaves the taint in place: the target is executed again by the next build (the safe direction); the error is logged",
	"(*go.starlark.net/starlark.Dict).Get":          "lookup with a constant string key: the error is only for unhashable keys; absence is the `found` result",
	"(*go.starlark.net/starlarkstruct.Struct).Attr": "the error means 'no such attribute': the caller decides per attribute whether absence is an error",
	"fmt.Println":                                   "console output",
	"fmt.Printf":                                    "console output",
	"fmt.Print":                                     "console output",
	"fmt.Fprintf":                                   "console output",
	"fmt.Fprintln":                                  "console output",
}

// probeExempt: calls whose error is *information* (a probe of local state); on
// failure the function falls through to doing the work from scratch. Keyed by
// enclosing function and callee, one line of reason each.
var probeExempt = map[string]string{
	"(*output/handlers.DockerRegistryOutputHandler).Load|(*github.com/docker/docker/client.Client).ImageInspect":                "probe whether the image already exists in the local daemon; on error it is pulled",
	"(*output/handlers.DockerOutputHandler).loadFromCasLayers|github.com/google/go-containerregistry/pkg/v1/daemon.Image":       "probe whether the image already exists in the local daemon; on error it is loaded from the CAS layers",
	"(*output/handlers.DockerOutputHandler).loadFromCasLayers|(github.com/google/go-containerregistry/pkg/v1.Image).ConfigName": "part of the same local-daemon probe",
	"(*output/handlers.DockerOutputHandler).Load|github.com/google/go-containerregistry/pkg/v1/daemon.Image":                    "probe whether the image already exists in the local daemon",
}

// classifierExempt: functions whose contract is to turn a not-found error into
// a negative answer (R08d checks that both the not-found and the other-error
// path exist in each of them).
func classifierExempt(c *Check, fn *ssa.Function) bool {
	name := fn.Name()
	if !engine.InPackage(fn, "caching/backends") {
		return false
	}
	return name == "Exists" || name == "ObjectExists" || name == "Delete"
}

type droppedErr struct {
	Call ssa.CallInstruction
	At   ssa.Instruction
}

// successReturn: a return whose trailing error result is the nil constant, or
// (for functions whose last result is error) a return of a possibly-nil value
// is NOT counted — only literal nil.
func successReturn(in ssa.Instruction) bool {
	r, ok := in.(*ssa.Return)
	return ok && len(r.Results) > 0 && isNilErrReturn(r)
}

// droppedErrors lists calls in fn whose error can be ignored on the way to a success return.
func droppedErrors(c *Check, fn *ssa.Function, extraExempt func(name string) bool) []droppedErr {
	if engine.ErrResultIndex(fn.Signature) < 0 {
		return nil
	}
	return droppedErrorsTo(c, fn, extraExempt, successReturn, nil)
}

// isErrSend: a send on a channel of errors (how goroutine bodies report a failure to whoever waits for them)
func isErrSend(in ssa.Instruction) bool {
	sd, ok := in.(*ssa.Send)
	if !ok {
		return false
	}
	ch, ok := sd.Chan.Type().Underlying().(*types.Chan)
	return ok && types.Identical(ch.Elem(), types.Universe.Lookup("error").Type())
}

func isReporter(fn *ssa.Function) bool {
	if engine.ErrResultIndex(fn.Signature) >= 0 || fn.Parent() == nil {
		return false
	}
	for _, b := range fn.Blocks {
		for _, in := range b.Instrs {
			if isErrSend(in) {
				return true
			}
		}
	}
	return false
}

// droppedErrorsInReporter: fn is a function literal without an error result that reports failures by sending
// on an error channel; lists the calls whose error lets it return without such a send.
func droppedErrorsInReporter(c *Check, fn *ssa.Function, extraExempt func(name string) bool) []droppedErr {
	if engine.ErrResultIndex(fn.Signature) >= 0 || fn.Parent() == nil {
		return nil
	}
	reports := false
	for _, b := range fn.Blocks {
		for _, in := range b.Instrs {
			if isErrSend(in) {
				reports = true
			}
		}
	}
	if !reports {
		return nil
	}
	anyReturn := func(in ssa.Instruction) bool { _, ok := in.(*ssa.Return); return ok && in.Parent() == fn }
	return droppedErrorsTo(c, fn, extraExempt, anyReturn, isErrSend)
}

func droppedErrorsTo(c *Check, fn *ssa.Function, extraExempt func(name string) bool, target func(ssa.Instruction) bool, sink func(ssa.Instruction) bool) []droppedErr {
	var out []droppedErr
	if classifierExempt(c, fn) {
		return nil
	}
	for _, s := range engine.SitesIn(fn) {
		if _, isCall := s.(*ssa.Call); !isCall {
			continue // defer/go: result unobservable
		}
		sig := s.Common().Signature()
		if engine.ErrResultIndex(sig) < 0 {
			continue
		}
		name := engine.CalleeName(s)
		if _, ok := errExempt[name]; ok {
			continue
		}
		// the same call through a first-party interface the caller declares for itself: every implementation
		// it can reach is a tabled cleanup call
		if s.Common().IsInvoke() {
			cals := c.G.CalleesOf(s)
			all := len(cals) > 0
			for _, cal := range cals {
				if _, ok := errExempt[calleeFullName(cal)]; !ok {
					all = false
				}
			}
			if all {
				continue
			}
		}
		if extraExempt != nil && extraExempt(name) {
			continue
		}
		if _, ok := probeExempt[c.P.FuncName(fn)+"|"+name]; ok {
			continue
		}
		if lookupWithFoundFlag(s) {
			// `v, found, _ := lookup(k); if found { … }`: a lookup that reports (value, found, error) answers
			// found == false when it fails; the caller that branches on found treats a failure as absence
			continue
		}
		if errorIsNegativeAnswer(fn, s) {
			// `if v, err := probe(); err == nil && good(v) { shortcut }`: a failed probe takes the same
			// way as a negative answer, so nothing that the probe could have vouched for is assumed
			continue
		}
		if strings.HasSuffix(name, ".Close") && len(s.Common().Args) <= 1 {
			// Close of an arbitrary closer on the success path is judged by the specific rules (R07a)
			continue
		}
		fwd := errForwarders(s)
		isFwd := func(in ssa.Instruction) bool { return fwd[in] || (sink != nil && sink(in)) }
		nilEdges := nilEdgesIncluding(s)
		eofEdges := engine.CutEdgesWhere(func(a engine.Atom) bool {
			// `err == io.EOF` is end-of-stream, not a failure
			if a.Op != "eq" || a.Other == nil {
				return false
			}
			for _, side := range []ssa.Value{a.V, a.Other} {
				if ld, ok := side.(*ssa.UnOp); ok {
					if g, ok := ld.X.(*ssa.Global); ok && g.Pkg != nil && g.Pkg.Pkg.Path() == "io" && g.Name() == "EOF" {
						return true
					}
				}
			}
			return false
		})
		// `if os.IsNotExist(err) { return ... }` and falling through otherwise: the error was classified; the
		// kinds that are not singled out resurface when the file is used. Only the "not that kind" edge is
		// accepted — turning the singled-out kind into success is still a dropped error.
		idxErr := engine.ErrResultIndex(s.Common().Signature())
		classifiedAway := engine.CutEdgesWhere(func(a engine.Atom) bool {
			if a.Op != "false" {
				return false
			}
			call, _ := engine.CallOf(a.V)
			if call == nil {
				return false
			}
			switch engine.CalleeName(call) {
			case "os.IsNotExist", "os.IsExist", "errors.Is", "errors.As":
			default:
				return false
			}
			for _, o := range engine.Origins(call.Common().Args[0]) {
				if c2, i := engine.CallOf(o); c2 == s && i == idxErr {
					return true
				}
			}
			return false
		})
		cut := func(b *ssa.BasicBlock, i int) bool { return nilEdges(b, i) || eofEdges(b, i) || classifiedAway(b, i) }
		if ok, at := engine.PathExists(fn, s, target, engine.PathQuery{CutEdge: cut, CutInstr: isFwd}); ok {
			out = append(out, droppedErr{s, at})
		} else if engine.InLoop(s) {
			// overwritten by the next iteration before anybody looked at it
			if again, _ := engine.PathExists(fn, s, engine.IsInstr(s), engine.PathQuery{CutEdge: cut, CutInstr: isFwd}); again {
				if ok2, at2 := engine.PathExists(fn, s, target, engine.PathQuery{}); ok2 {
					out = append(out, droppedErr{s, at2})
				}
			}
		}
	}
	return out
}

// nilEdgesIncluding: the branch establishes "nil" for a value one of whose reaching definitions is this
// call's error (an error variable assigned on two branches and tested once after the merge).
func nilEdgesIncluding(s ssa.CallInstruction) func(b *ssa.BasicBlock, succ int) bool {
	idx := engine.ErrResultIndex(s.Common().Signature())
	return engine.CutEdgesWhere(func(a engine.Atom) bool {
		if a.Op != "nil" {
			return false
		}
		for _, o := range engine.Origins(a.V) {
			if o == nil {
				continue
			}
			if call, i := engine.CallOf(o); call == s && i == idx {
				return true
			}
		}
		return false
	})
}

// errorIsNegativeAnswer: every branch edge taken when the call's error is non-nil leads (ignoring
// blocks that only log) to the same block as an edge that tests the call's other result — the shape
// short-circuit evaluation of `err == nil && ok(v)` (or its negation) produces. The error is then
// handled exactly like the answer "no".
func errorIsNegativeAnswer(fn *ssa.Function, s ssa.CallInstruction) bool {
	sig := s.Common().Signature()
	ei := engine.ErrResultIndex(sig)
	if ei < 1 || s.Value() == nil {
		return false
	}
	errSet := map[ssa.CallInstruction]int{s: ei}
	// the tested value is the probe's other result, or computed from it alone (info.IsDir(),
	// info.Mode().IsRegular(), len(entries) > 0, v.field)
	var fromOtherD func(v ssa.Value, d int) bool
	fromOtherD = func(v ssa.Value, d int) bool {
		if v == nil || d > 4 {
			return false
		}
		for _, o := range engine.Origins(v) {
			if call, idx := engine.CallOf(o); call == s && idx != ei {
				return true
			}
			switch x := o.(type) {
			case *ssa.Call:
				if x.Call.IsInvoke() {
					if len(x.Call.Args) == 0 && fromOtherD(x.Call.Value, d+1) {
						return true
					}
				} else if len(x.Call.Args) == 1 && fromOtherD(x.Call.Args[0], d+1) {
					return true
				}
			case *ssa.UnOp:
				if x.Op == token.NOT && fromOtherD(x.X, d+1) {
					return true
				}
			case *ssa.Field:
				if fromOtherD(x.X, d+1) {
					return true
				}
			}
		}
		return false
	}
	fromOther := func(v ssa.Value) bool { return fromOtherD(v, 0) }
	fromCall := func(v ssa.Value) bool {
		if v == nil {
			return false
		}
		for _, o := range engine.Origins(v) {
			if call, _ := engine.CallOf(o); call == s {
				return true
			}
		}
		return false
	}
	// transparent: the block only logs, and (if it branches) branches on the probe's own results
	transparent := func(b *ssa.BasicBlock) bool {
		for _, in := range b.Instrs {
			switch x := in.(type) {
			case *ssa.DebugRef, *ssa.Jump, *ssa.MakeInterface, *ssa.Alloc, *ssa.IndexAddr, *ssa.Store, *ssa.Slice, *ssa.UnOp, *ssa.FieldAddr, *ssa.Field, *ssa.ChangeInterface, *ssa.BinOp, *ssa.Phi:
			case *ssa.If:
				a := engine.CondAtom(x.Cond, true)
				if !fromCall(a.V) && !fromCall(a.Other) {
					return false
				}
			case ssa.CallInstruction:
				if !isLogOrErrCall(engine.CalleeName(x)) {
					return false
				}
			default:
				return false
			}
		}
		return true
	}
	closure := func(start *ssa.BasicBlock) map[*ssa.BasicBlock]bool {
		seen := map[*ssa.BasicBlock]bool{start: true}
		work := []*ssa.BasicBlock{start}
		for len(work) > 0 {
			b := work[len(work)-1]
			work = work[:len(work)-1]
			if !transparent(b) {
				continue
			}
			for _, nx := range b.Succs {
				if !seen[nx] {
					seen[nx] = true
					work = append(work, nx)
				}
			}
		}
		return seen
	}
	var errTargets []*ssa.BasicBlock
	negative := map[*ssa.BasicBlock]bool{}
	for _, b := range fn.Blocks {
		for i := range b.Succs {
			a, ok := engine.EdgeAtom(b, i)
			if !ok {
				continue
			}
			if a.Op == "nonnil" && engine.OriginsAllFromCall(a.V, errSet, false) {
				errTargets = append(errTargets, b.Succs[i])
			}
			if fromOther(a.V) || fromOther(a.Other) {
				for x := range closure(b.Succs[i]) {
					negative[x] = true
				}
			}
		}
	}
	if len(errTargets) == 0 {
		return false
	}
	for _, t := range errTargets {
		// the error edge must land (through log-only blocks) on code the answer-testing edges also reach
		ok := false
		for x := range closure(t) {
			if negative[x] && !transparent(x) || negative[x] && x == t {
				ok = true
			}
		}
		if !ok {
			return false
		}
		// ... and on that way the function still does error-checked work before it can report success
		// (an error must not be taken for the answer that permits the shortcut)
		isWork := func(in ssa.Instruction) bool {
			cs, isCall := in.(*ssa.Call)
			if !isCall || ssa.CallInstruction(cs) == s {
				return false
			}
			return engine.ErrResultIndex(cs.Common().Signature()) >= 0 && !isLogOrErrCall(engine.CalleeName(cs))
		}
		if short, _ := engine.PathExists(fn, nil, successReturn, engine.PathQuery{FromBlock: t, CutInstr: isWork, Shallow: true}); short {
			return false
		}
	}
	return true
}

// errForwarders: the instructions that hand the call's error value on — a
// channel send, an append to a collected-errors slice, a store into a captured
// variable or field. A path that passes one of them has not dropped the error.
func errForwarders(s ssa.CallInstruction) map[ssa.Instruction]bool {
	out := map[ssa.Instruction]bool{}
	v := s.Value()
	if v == nil {
		return out
	}
	idx := engine.ErrResultIndex(s.Common().Signature())
	var errVals []ssa.Value
	if s.Common().Signature().Results().Len() == 1 {
		errVals = append(errVals, v)
	} else {
		for _, r := range *v.Referrers() {
			if ex, ok := r.(*ssa.Extract); ok && ex.Index == idx {
				errVals = append(errVals, ex)
			}
		}
	}
	for _, e := range errVals {
		valueForwarders(e, out, 0)
	}
	return out
}

// calleeResolver resolves dynamic first-party calls (closures held in variables) through the value-flow
// graph of the running check; set by resolveFieldAnchors.
var calleeResolver func(ssa.CallInstruction) []*ssa.Function

// valueForwarders adds to out the instructions that hand value v on (see errForwarders). Passing v to a
// statically resolved first-party helper counts when the helper hands its parameter on along every
// path to its return (e.g. a non-blocking send wrapped in a function).
func valueForwarders(v0 ssa.Value, out map[ssa.Instruction]bool, depth int) {
	seen := map[ssa.Value]bool{}
	var walk func(v ssa.Value, d int)
	walk = func(v ssa.Value, d int) {
		if seen[v] || d > 8 || v.Referrers() == nil {
			return
		}
		seen[v] = true
		for _, r := range *v.Referrers() {
			switch x := r.(type) {
			case *ssa.Send:
				if x.X == v {
					out[x] = true
				}
			case *ssa.Select:
				for _, st := range x.States {
					if st.Send == v {
						out[x] = true
					}
				}
			case *ssa.Phi:
				walk(x, d+1)
			case *ssa.MakeInterface:
				walk(x, d+1)
			case *ssa.ChangeInterface:
				walk(x, d+1)
			case *ssa.Call:
				if b, ok := x.Call.Value.(*ssa.Builtin); ok && b.Name() == "append" {
					out[x] = true
				}
				// wrapping (fmt.Errorf("%w")) keeps the error alive: follow the wrapper's result
				if n := engine.CalleeName(x); n == "fmt.Errorf" || n == "errors.Join" {
					walk(x, d+1)
				}
				h := x.Call.StaticCallee()
				if h == nil && calleeResolver != nil {
					// a closure kept in a local variable and called from a nested literal
					if cs := calleeResolver(x); len(cs) == 1 {
						h = cs[0]
					}
				}
				if h != nil && len(h.Blocks) > 0 && depth < 3 {
					for i, a := range x.Call.Args {
						if a != v || i >= len(h.Params) {
							continue
						}
						inner := map[ssa.Instruction]bool{}
						valueForwarders(h.Params[i], inner, depth+1)
						if len(inner) == 0 {
							continue
						}
						isRet := func(in ssa.Instruction) bool { _, r := in.(*ssa.Return); return r && in.Parent() == h }
						if dropped, _ := engine.PathExists(h, nil, isRet, engine.PathQuery{CutInstr: func(in ssa.Instruction) bool { return inner[in] }}); !dropped {
							out[x] = true
						}
					}
				}
			case *ssa.Slice:
				walk(x, d+1)
			case *ssa.Store:
				if x.Val != v {
					continue
				}
				switch a := x.Addr.(type) {
				case *ssa.Alloc:
					for _, lr := range *a.Referrers() {
						if ld, ok := lr.(*ssa.UnOp); ok {
							walk(ld, d+1)
						}
					}
				case *ssa.IndexAddr:
					// varargs array of a wrapping call: follow the array to the call
					if al, ok := a.X.(*ssa.Alloc); ok {
						for _, ar := range *al.Referrers() {
							if sl, ok := ar.(*ssa.Slice); ok {
								walk(sl, d+1)
							}
						}
					} else {
						out[x] = true
					}
				default:
					out[x] = true // field, captured variable, global
				}
			}
		}
	}
	walk(v0, 0)
}

// requireNoDroppedErrors emits one obligation per function.
func requireNoDroppedErrors(c *Check, rule string, fns []*ssa.Function, extraExempt func(string) bool) {
	seen := map[*ssa.Function]bool{}
	for _, fn := range fns {
		if fn == nil || seen[fn] {
			continue
		}
		seen[fn] = true
		if engine.ErrResultIndex(fn.Signature) < 0 {
			// a goroutine body that reports through an error channel
			if !isReporter(fn) {
				continue
			}
			key := "no-dropped-error/" + c.P.FuncName(fn)
			d := droppedErrorsInReporter(c, fn, extraExempt)
			if len(d) == 0 {
				c.OK(rule, key, "every failing call in this goroutine body leads to a send on the error channel before the body returns", c.P.Pos(fn.Pos()))
			}
			for _, x := range d {
				c.Bad(rule, key+"/"+strings.ReplaceAll(engine.CalleeName(x.Call), "grog/internal/", ""),
					"when this call fails the goroutine body can return without sending an error on the channel its other failures are reported on ("+c.P.InstrPos(x.At)+"): whoever waits for the goroutines sees success although the work was not done", c.P.InstrPos(x.Call))
			}
			continue
		}
		d := droppedErrors(c, fn, extraExempt)
		key := "no-dropped-error/" + c.P.FuncName(fn)
		if len(d) == 0 {
			c.OK(rule, key, "every error-returning call on a path to a success return is tested and leaves the success path when non-nil", c.P.Pos(fn.Pos()))
			continue
		}
		for _, x := range d {
			c.Bad(rule, key+"/"+strings.ReplaceAll(engine.CalleeName(x.Call), "grog/internal/", ""),
				"the error of this call can be ignored and the function still returns success ("+c.P.InstrPos(x.At)+")", c.P.InstrPos(x.Call))
		}
	}
}

// calleeFullName renders a function the way engine.CalleeName renders a static call to it.
func calleeFullName(f *ssa.Function) string {
	if f == nil {
		return ""
	}
	return f.String()
}

// lookupWithFoundFlag: the call returns (T, bool, error), its error is never extracted, and its bool result is
// branched on.
func lookupWithFoundFlag(s ssa.CallInstruction) bool {
	res := s.Common().Signature().Results()
	if res.Len() != 3 || res.At(1).Type().String() != "bool" || res.At(2).Type().String() != "error" {
		return false
	}
	v := s.Value()
	if v == nil || v.Referrers() == nil {
		return false
	}
	foundUsed, errUsed := false, false
	for _, r := range *v.Referrers() {
		ex, ok := r.(*ssa.Extract)
		if !ok {
			continue
		}
		switch ex.Index {
		case 1:
			if ex.Referrers() != nil {
				for _, u := range *ex.Referrers() {
					if _, isIf := u.(*ssa.If); isIf {
						foundUsed = true
					}
				}
			}
		case 2:
			// `_` still yields an (unused) extract
			if ex.Referrers() != nil {
				for _, u := range *ex.Referrers() {
					if _, isDbg := u.(*ssa.DebugRef); !isDbg {
						errUsed = true
					}
				}
			}
		}
	}
	return foundUsed && !errUsed
}
