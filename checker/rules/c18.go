package rules

import (
	"fmt"
	"go/token"
	"sort"
	"strings"

	"golang.org/x/tools/go/ssa"

	"grogverif/engine"
)

func init() { register("C18", runC18) }

func runC18(c *Check, tier string) {
	c.Decides = "SIGINT and SIGTERM are both routed to the cancel function of the one context every command derives from; that context (through With* wrappers only) is the one handed to the command runner, the caches, the walker, the pool and the locker — no context.Background()/TODO() elsewhere and no function literal that is given a context uses a captured outer one instead; on cancellation the walk returns without blocking and the pool's workers and enqueue path have an exit; an interrupted command never reaches the result write (R05a) and the build exits non-zero (R05d); the next build can break the stale lock (R10b); semaphore slots are released on every path; the loader's queue consumers keep draining when the walker is awaited; a failed copy into a pipe closes it with the error."
	c.NotDec = "promptness in wall-clock terms, signal delivery at every instant, behaviour of child processes that ignore SIGKILL."
	ruleR18a(c)
	ruleR18b(c, "R18b")
	c.Rule("R18c", "an interrupted walk cancels the parked nodes and returns without blocking (R04c); pool workers leave on ctx.Done and the enqueue path has a closed-pool/time backstop", 3)
	if w := findWalker(c, "R18c"); w != nil {
		// reuse R04c's interrupt obligation under this rule id
		sub := engine.NewCheck("tmp", c.P, c.G)
		sub.Rule("R04c", "", 0)
		ruleR04c(sub, w)
		for _, o := range sub.Obls {
			if strings.Contains(o.Key, "interrupt-returns") || strings.Contains(o.Key, "completion-on-every-exit") {
				k := strings.TrimPrefix(o.Key, "R04c/")
				switch o.Status {
				case engine.Discharged:
					c.OK("R18c", k, o.Witness, o.Pos)
				case engine.Violated:
					c.Bad("R18c", k, o.Witness, o.Pos)
				default:
					c.Unknown("R18c", k, o.Witness, o.Pos)
				}
			}
		}
	}
	rulePoolExits(c)
	ruleR05a(c, "R18d")
	ruleR05d(c, "R18e")
	ruleR07f(c, "R18f")
	// the next build must be able to break the lock an interrupted build left behind
	if li := findLocker(c, "R18g"); li != nil {
		ruleR10b(c, li, "R18g", false)
	}
	// a leaked semaphore slot turns into a wait that no signal ends
	ruleSemaphorePairing(c, "R18h")
	ruleQueueDrained(c, "R18i")
	rulePipeErrorPropagated(c, "R18j")
	ruleR18k(c)
	// an interrupt reaches every blocking point — an evaluation that never looks at the context is one
	ruleStarlarkThreadsBounded(c, "R18l")
	ruleInterruptedWalkReportsIt(c, "R18m")
	// an interrupt while outputs are written must not leave a record without its blobs
	ruleUploadLoopComplete(c, "R18n")
	rulePoolShutdownDoesNotBlock(c, "R18o")
	ruleWrapperRunsCommandInPlace(c, "R18p")
	// round 7: an interrupt in the middle of a blob write leaves nothing under the blob's final name
	shareRule(c, "R18q", "the fs backend never opens a file for writing under its final cache key and publishes by renaming a closed temp file (same obligations as R07a): a write cut short by an interrupt leaves a stray temp file, not a truncated blob under a valid digest", 2, "R07a", func(sub *Check) { ruleR07a(sub) }, nil)
	ruleNoInheritableDescriptors(c, "R18r")
	rulePipedCommandsHaveWaitDelay(c, "R18s")
}

// R18k: exec.CommandContext kills the child when the context is cancelled unless Cmd.Cancel is replaced. The
// walk returns and the process exits at once on an interrupt, so nothing would escalate a gentler signal.
func ruleR18k(c *Check) {
	c.Rule("R18k", "no first-party code assigns exec.Cmd.Cancel (the default of CommandContext, Process.Kill, is what ends a target's shell on interrupt, fail-fast and timeout)", 1)
	n := 0
	for _, e := range c.G.In[engine.FieldKey{T: "os/exec.Cmd", F: "Cancel"}] {
		if st, ok := e.Via.(*ssa.Store); ok && e.Kind == engine.EStore {
			n++
			c.Bad("R18k", "command-killed-on-cancel/"+c.P.FuncName(st.Parent()), "exec.Cmd.Cancel is replaced: on cancellation the child is no longer killed outright. grog returns from the walk and exits immediately after an interrupt, so a shell that traps or ignores the gentler signal outlives grog and keeps writing into the workspace", c.P.InstrPos(st))
		}
	}
	if n == 0 {
		c.OK("R18k", "command-killed-on-cancel", "Cmd.Cancel is never assigned: cancelled commands are killed", "-")
	}
}

// ruleQueueDrained (shared with C04): the package loader's workers consume a bounded queue that the file
// walker fills. If the loading function blocks until the walker is done, the workers must keep draining
// the queue until it is closed — a worker that returns from inside its queue loop (on cancellation, say)
// leaves the walker blocked on a full queue and the loader waiting for it forever.
func ruleQueueDrained(c *Check, rule string) {
	c.Rule(rule, "in the function that starts the parallel file walker: when it waits for the walker goroutine (receive from a channel that goroutine closes, or a WaitGroup it is part of), no consumer of the walker's queue leaves its receive loop before the queue is closed", 1)
	var lp *ssa.Function
	var mk ssa.CallInstruction
	for _, s := range c.G.CallsTo("github.com/boyter/gocodewalker.NewParallelFileWalker") {
		if engine.InPackage(s.Parent(), "loading") {
			lp, mk = engine.TopFunc(s.Parent()), s
		}
	}
	if lp == nil {
		c.Unknown(rule, "anchor/file-walker", "anchor-unresolved: no NewParallelFileWalker call in internal/loading", "-")
		return
	}
	fname := c.P.FuncName(lp)
	queue := mk.Common().Args[len(mk.Common().Args)-1]
	// a channel that reaches a goroutine body as a parameter stands for what its (go) call sites pass
	var throughParams func(v ssa.Value, depth int) []ssa.Value
	throughParams = func(v ssa.Value, depth int) []ssa.Value {
		prm, ok := v.(*ssa.Parameter)
		if !ok || depth > 2 {
			return []ssa.Value{v}
		}
		fn := prm.Parent()
		idx := -1
		for i, q := range fn.Params {
			if q == prm {
				idx = i
			}
		}
		var out []ssa.Value
		for _, cs := range c.G.CallersOf(fn) {
			args := cs.Common().Args
			if cs.Common().IsInvoke() || idx < 0 {
				continue
			}
			// free variables are not parameters; the argument list of a call to a literal lines up with Params
			if idx < len(args) {
				out = append(out, throughParams(args[idx], depth+1)...)
			}
		}
		if len(out) == 0 {
			return []ssa.Value{v}
		}
		return out
	}
	sameChan0 := func(a, b ssa.Value) bool {
		ra, rb := engine.Origins(a), engine.Origins(b)
		for _, x := range ra {
			for _, y := range rb {
				if x != nil && x == y {
					return true
				}
			}
		}
		return sameVar(a, b) || engine.ExprKey(a) == engine.ExprKey(b)
	}
	sameChan := func(a, b ssa.Value) bool {
		for _, x := range throughParams(a, 0) {
			for _, y := range throughParams(b, 0) {
				if sameChan0(x, y) {
					return true
				}
			}
		}
		return false
	}
	lits := engine.AnonFuncsDeep(lp)
	// is the walker goroutine awaited?
	awaited := ""
	for _, b := range lp.Blocks {
		for _, in := range b.Instrs {
			g, ok := in.(*ssa.Go)
			if !ok {
				continue
			}
			var body *ssa.Function
			if mc, ok := g.Call.Value.(*ssa.MakeClosure); ok {
				body, _ = mc.Fn.(*ssa.Function)
			}
			if body == nil {
				continue // `go walker.Start()`: nothing signals its end
			}
			startsWalker := false
			for _, s := range engine.SitesIn(body) {
				if strings.HasSuffix(engine.CalleeName(s), "gocodewalker.FileWalker).Start") {
					startsWalker = true
				}
			}
			if !startsWalker {
				continue
			}
			for _, s := range engine.SitesIn(body) {
				cc := s.Common()
				if bi, ok := cc.Value.(*ssa.Builtin); ok && bi.Name() == "close" {
					// the spawner receives from that channel outside any select with alternatives
					for _, bb := range lp.Blocks {
						for _, in2 := range bb.Instrs {
							if u, ok := in2.(*ssa.UnOp); ok && u.Op == token.ARROW && sameChan(u.X, cc.Args[0]) {
								awaited = "the loader receives from the channel the walker goroutine closes (" + c.P.InstrPos(u) + ")"
							}
						}
					}
				}
				if engine.CalleeName(s) == "(*sync.WaitGroup).Done" {
					for _, w := range callsNamed(lp, "(*sync.WaitGroup).Wait") {
						if sameChan(w.Common().Args[0], cc.Args[0]) || engine.ExprKey(w.Common().Args[0]) == engine.ExprKey(cc.Args[0]) {
							awaited = "the walker goroutine is part of the WaitGroup the loader waits for"
						}
					}
				}
			}
		}
	}
	// consumers: literals with a receive loop on the queue
	n := 0
	for _, lit := range lits {
		for _, l := range engine.LoopsOf(lit) {
			recv := false
			for _, in := range l.Header.Instrs {
				if u, ok := in.(*ssa.UnOp); ok && u.Op == token.ARROW && u.CommaOk && sameChan(u.X, queue) {
					recv = true
				}
			}
			if !recv {
				continue
			}
			n++
			isRet := func(in ssa.Instruction) bool { _, r := in.(*ssa.Return); return r }
			why := l.EarlyExitReaches(isRet)
			key := "queue-drained/" + c.P.FuncName(lit)
			if why == "" {
				c.OK(rule, key, "the consumer leaves its loop only when the queue is closed", c.P.Pos(lit.Pos()))
			} else if awaited == "" {
				c.OK(rule, key, "the consumer can leave early, but the loader does not wait for the walker goroutine", c.P.Pos(lit.Pos()))
			} else {
				c.Bad(rule, key, "a consumer of the walker's bounded queue can return before the queue is closed ("+why+") while "+awaited+": once the remaining files exceed the queue's free slots the walker blocks on its send and the loader never returns — no signal ends that wait", c.P.Pos(lit.Pos()))
			}
		}
	}
	if n == 0 {
		c.Unknown(rule, "queue-drained/"+fname, "no goroutine with a receive loop on the walker's queue found", "-")
	}
}

// rulePipeErrorPropagated (shared with C07/C08): when the copy that feeds an io.Pipe fails, the write end
// is closed *with that error* before the function returns; a plain Close (also a deferred one) tells the
// reader "end of stream" and the consumer commits a truncated blob as if it were complete.
func rulePipeErrorPropagated(c *Check, rule string) {
	c.Rule(rule, "for every io.Copy into an io.PipeWriter (directly or through io.MultiWriter): from the copy's err != nil branch every path to the function's return passes CloseWithError on each of those pipe writers", 1)
	n := 0
	for _, cp := range c.G.CallsTo("io.Copy", "io.CopyBuffer", "io.CopyN") {
		fn := cp.Parent()
		if !c.P.FuncSet[engine.TopFunc(fn)] && !c.P.FuncSet[fn] {
			continue
		}
		// pipe writers behind the destination
		var writers []ssa.Value
		var collect func(v ssa.Value, d int)
		collect = func(v ssa.Value, d int) {
			if d > 4 {
				return
			}
			for _, o := range engine.Origins(v) {
				if o == nil {
					continue
				}
				if strings.HasSuffix(o.Type().String(), "io.PipeWriter") {
					writers = append(writers, o)
					continue
				}
				if call, _ := engine.CallOf(o); call != nil && engine.CalleeName(call) == "io.MultiWriter" {
					for _, a := range call.Common().Args {
						if sl, ok := a.(*ssa.Slice); ok {
							if al, ok := sl.X.(*ssa.Alloc); ok {
								for _, ref := range *al.Referrers() {
									if ia, ok := ref.(*ssa.IndexAddr); ok {
										for _, r2 := range *ia.Referrers() {
											if st, ok := r2.(*ssa.Store); ok && st.Addr == ssa.Value(ia) {
												collect(st.Val, d+1)
											}
										}
									}
								}
							}
						} else {
							collect(a, d+1)
						}
					}
				}
			}
		}
		collect(cp.Common().Args[0], 0)
		if len(writers) == 0 {
			continue
		}
		n++
		isRet := func(in ssa.Instruction) bool { _, r := in.(*ssa.Return); return r && in.Parent() == fn }
		bad := ""
		for _, w := range writers {
			closesWithErr := func(in ssa.Instruction) bool {
				call, ok := in.(*ssa.Call)
				if !ok || engine.CalleeName(call) != "(*io.PipeWriter).CloseWithError" {
					return false
				}
				for _, o := range engine.Origins(call.Call.Args[0]) {
					if o == w {
						return true
					}
				}
				return sameVar(call.Call.Args[0], w)
			}
			if lost, at := engine.PathExists(fn, cp, isRet, engine.PathQuery{CutEdge: engine.NilErrEdgesOf(cp), CutInstr: closesWithErr, Shallow: true}); lost {
				bad = "after a failed copy the function can return (" + c.P.InstrPos(at) + ") without CloseWithError on a pipe it feeds"
			}
		}
		c.Require(bad == "", rule, "pipe-error-propagated/"+c.P.FuncName(fn), "a failed copy closes every fed pipe with the error", bad+": the reader side sees a clean end of stream and stores the partial content under the full key (an interrupted or failed upload poisons the local cache)", c.P.InstrPos(cp))
	}
	if n == 0 {
		c.Unknown(rule, "pipe-error-propagated", "no io.Copy into a pipe writer found", "-")
	}
}

func ruleR18a(c *Check) {
	c.Rule("R18a", "the command set-up registers both os.Interrupt and SIGTERM with signal.Notify and a goroutine that receives from that channel calls the cancel function of the context it returns", 2)
	var setup *ssa.Function
	var notify ssa.CallInstruction
	for _, s := range c.G.CallsTo("os/signal.Notify") {
		if engine.InPackage(s.Parent(), "console") {
			setup = engine.TopFunc(s.Parent())
			notify = s
		}
	}
	if setup == nil {
		c.Bad("R18a", "signals-registered", "no signal.Notify in the console package: SIGINT/SIGTERM would kill grog without cancelling the build context (shells left running, lock left behind)", "-")
		return
	}
	sname := c.P.FuncName(setup)
	// variadic signals
	var sigs []string
	if sl, ok := notify.Common().Args[1].(*ssa.Slice); ok {
		if al, ok := sl.X.(*ssa.Alloc); ok {
			for _, r := range *al.Referrers() {
				if ia, ok := r.(*ssa.IndexAddr); ok {
					for _, rr := range *ia.Referrers() {
						if st, ok := rr.(*ssa.Store); ok {
							sigs = append(sigs, sigName(st.Val))
						}
					}
				}
			}
		}
	}
	sort.Strings(sigs)
	has := func(n string) bool {
		for _, s := range sigs {
			if s == n {
				return true
			}
		}
		return false
	}
	c.Require(has("SIGINT") && has("SIGTERM"), "R18a", "signals-registered/"+sname, "signal.Notify registers "+strings.Join(sigs, ", "), "signal.Notify registers only "+strings.Join(sigs, ", ")+": the missing signal kills the process without cancelling the context", c.P.InstrPos(notify))
	// receive -> cancel of the returned context
	wc := callsNamed(setup, "context.WithCancel")
	okCancel := false
	if len(wc) == 1 {
		ch := notify.Common().Args[0]
		for _, lit := range engine.AnonFuncsDeep(setup) {
			if lit == setup {
				continue
			}
			// literal receives from the signal channel and calls cancel on that arm
			var recvSel *ssa.Select
			sigIdx := -1
			for _, b := range lit.Blocks {
				for _, in := range b.Instrs {
					if sel, ok := in.(*ssa.Select); ok {
						for i, st := range sel.States {
							if sameChan(st.Chan, ch) {
								recvSel, sigIdx = sel, i
							}
						}
					}
				}
			}
			if recvSel == nil {
				continue
			}
			for _, s := range engine.SitesIn(lit) {
				if s.Common().StaticCallee() != nil || s.Common().IsInvoke() {
					continue
				}
				// dynamic call of the cancel func (captured)
				fromWC := false
				for _, o := range engine.Origins(s.Common().Value) {
					if call, idx := engine.CallOf(o); call == wc[0] && idx == 1 {
						fromWC = true
					}
					if _, isFV := o.(*ssa.FreeVar); isFV {
						fromWC = true
					}
					if ld, ok := o.(*ssa.UnOp); ok {
						if _, isFV := ld.X.(*ssa.FreeVar); isFV {
							fromWC = true
						}
					}
				}
				if !fromWC {
					continue
				}
				idx := int64(sigIdx)
				r, _ := engine.PathExists(lit, nil, engine.IsInstr(s), engine.PathQuery{CutEdge: engine.CutEdgesWhere(func(a engine.Atom) bool {
					ex, ok := a.V.(*ssa.Extract)
					if a.Op != "eq" || !ok || ex.Tuple != ssa.Value(recvSel) || ex.Index != 0 {
						return false
					}
					k, ok := a.Other.(*ssa.Const)
					return ok && k.Int64() == idx
				})})
				if !r {
					okCancel = true
				}
			}
		}
		// the returned context derives from WithCancel's context
		var fromWC func(v ssa.Value, d int) bool
		fromWC = func(v ssa.Value, d int) bool {
			if d > 6 {
				return false
			}
			orig := engine.Origins(v)
			if len(orig) == 0 {
				return false
			}
			for _, o := range orig {
				if o == nil {
					return false
				}
				if ex, ok := o.(*ssa.Extract); ok && ex.Tuple == wc[0].Value() && ex.Index == 0 {
					continue
				}
				call, _ := engine.CallOf(o)
				if call == nil {
					return false
				}
				okArg := false
				for _, a := range call.Common().Args {
					if a.Type().String() == "context.Context" && fromWC(a, d+1) {
						okArg = true
					}
				}
				if !okArg {
					return false
				}
			}
			return true
		}
		for _, r := range engine.Returns(setup) {
			if !fromWC(r.Results[0], 0) {
				okCancel = false
			}
		}
	}
	c.Require(okCancel, "R18a", "signal-cancels-context/"+sname, "receiving a signal calls the cancel function of the returned context", "a received signal does not cancel the context that the commands run on", c.P.InstrPos(notify))
}

func sameChan(a, b ssa.Value) bool {
	for {
		if ct, ok := b.(*ssa.ChangeType); ok {
			b = ct.X
			continue
		}
		break
	}
	if sameVar(a, b) {
		return true
	}
	// captured by reference: load of a free variable whose name matches the cell's comment
	la, ok := a.(*ssa.UnOp)
	if ok {
		if fv, ok := la.X.(*ssa.FreeVar); ok {
			if al, ok := b.(*ssa.UnOp); ok {
				if cell, ok := al.X.(*ssa.Alloc); ok && cell.Comment == fv.Name() {
					return true
				}
			}
			for _, o := range engine.Origins(b) {
				if mk, ok := o.(*ssa.MakeChan); ok {
					for _, r := range *mk.Referrers() {
						if st, ok := r.(*ssa.Store); ok {
							if cell, ok := st.Addr.(*ssa.Alloc); ok && cell.Comment == fv.Name() {
								return true
							}
						}
					}
				}
			}
		}
	}
	return false
}

func sigName(v ssa.Value) string {
	s := v.String()
	switch {
	case strings.Contains(s, "os.Interrupt"):
		return "SIGINT"
	}
	if mi, ok := v.(*ssa.MakeInterface); ok {
		if ld, ok := mi.X.(*ssa.UnOp); ok {
			if g, ok := ld.X.(*ssa.Global); ok && g.Name() == "Interrupt" {
				return "SIGINT"
			}
		}
		if k, ok := mi.X.(*ssa.Const); ok && k.Value != nil {
			switch k.Int64() {
			case 2:
				return "SIGINT"
			case 15:
				return "SIGTERM"
			default:
				return fmt.Sprintf("signal(%d)", k.Int64())
			}
		}
	}
	if ld, ok := v.(*ssa.UnOp); ok {
		if g, ok := ld.X.(*ssa.Global); ok && g.Name() == "Interrupt" {
			return "SIGINT"
		}
	}
	return "?" + v.Name()
}

// R18b: context lineage
func ruleR18b(c *Check, rule string) {
	c.Rule(rule, "context.Background()/TODO() appear in first-party non-test code only in the command set-up; a function literal that receives a context parameter never calls anything with a captured outer context; the command runner's exec.CommandContext uses its context parameter (R14c)", 2)
	// (1) root contexts
	var roots []string
	ok := true
	for _, s := range c.G.CallsTo("context.Background", "context.TODO", "context.WithoutCancel") {
		fn := engine.TopFunc(s.Parent())
		where := c.P.FuncName(fn)
		roots = append(roots, where)
		switch {
		case engine.InPackage(fn, "console") && len(callsNamedDeep(fn, "os/signal.Notify")) > 0:
		case engine.InPackage(fn, "cmd") && !engine.InPackage(fn, "cmd/cmds"):
			// root command initialisation before any command runs (config loading, completions)
		case engine.InPackage(fn, "completions"):
			// shell completion helpers: no build is running
		default:
			ok = false
			c.Bad(rule, "root-context/"+where, "a context that is detached from the signal-driven one is created here (Background/TODO/WithoutCancel): work started on it is not cancelled by SIGINT/SIGTERM (shells keep running, the build does not stop)", c.P.InstrPos(s))
		}
	}
	sort.Strings(roots)
	if ok {
		c.OK(rule, "root-context", "root contexts only in: "+strings.Join(roots, ", "), "-")
	}
	// (2) literals with a ctx parameter must not use a captured ctx
	n := 0
	for _, fn := range c.P.Funcs {
		if fn.Parent() == nil {
			continue
		}
		var prm *ssa.Parameter
		for _, p := range fn.Params {
			if p.Type().String() == "context.Context" {
				prm = p
			}
		}
		if prm == nil {
			continue
		}
		n++
		bad := ""
		for _, s := range engine.SitesIn(fn) {
			args := s.Common().Args
			if s.Common().IsInvoke() {
				args = append([]ssa.Value{s.Common().Value}, args...)
			}
			for _, a := range args {
				if a.Type().String() != "context.Context" {
					continue
				}
				for _, o := range engine.Origins(a) {
					if o == nil {
						continue
					}
					if ld, isLd := o.(*ssa.UnOp); isLd {
						if fv, isFV := ld.X.(*ssa.FreeVar); isFV {
							bad = fmt.Sprintf("%s is called with the captured outer context `%s` although this function receives its own context parameter `%s`", calleeShort(s), fv.Name(), prm.Name())
						}
					}
					if fv, isFV := o.(*ssa.FreeVar); isFV {
						bad = fmt.Sprintf("%s is called with the captured outer context `%s` although this function receives its own context parameter `%s`", calleeShort(s), fv.Name(), prm.Name())
					}
				}
			}
		}
		// also closures created inside that capture the outer ctx instead of the parameter
		for _, b := range fn.Blocks {
			for _, in := range b.Instrs {
				mc, ok := in.(*ssa.MakeClosure)
				if !ok {
					continue
				}
				for _, bnd := range mc.Bindings {
					if fv, isFV := bnd.(*ssa.FreeVar); isFV && strings.Contains(fv.Type().String(), "context.Context") {
						bad = fmt.Sprintf("a nested function captures the outer context `%s` although this function receives its own context parameter `%s`", fv.Name(), prm.Name())
					}
				}
			}
		}
		// calls that take a context among their parameters but get it through a first-party call on captured state
		for _, s := range engine.SitesIn(fn) {
			for _, cal := range c.G.Callees[s] {
				_ = cal
			}
		}
		c.Require(bad == "", rule, "literal-uses-own-context/"+c.P.FuncName(fn), "every context handed on derives from the literal's own parameter", bad+": cancellation of the inner context (fail-fast, walker shutdown) does not reach the work started here", c.P.Pos(fn.Pos()))
	}
	if n == 0 {
		c.Unknown(rule, "literal-uses-own-context", "no function literal with a context parameter found (the walk callback is expected)", "-")
	}
}

func calleeShort(s ssa.CallInstruction) string {
	n := engine.CalleeName(s)
	if n == "" {
		return "a function value"
	}
	return strings.ReplaceAll(n, "grog/internal/", "")
}

func callsNamedDeep(fn *ssa.Function, names ...string) []ssa.CallInstruction {
	var out []ssa.CallInstruction
	for _, f := range engine.AnonFuncsDeep(fn) {
		out = append(out, callsNamed(f, names...)...)
	}
	return out
}

func rulePoolExits(c *Check) {
	p := findPool(c, "R18c")
	if p == nil {
		return
	}
	// worker: select with a ctx.Done arm that leads to return
	okW := false
	for _, b := range p.Worker.Blocks {
		for _, in := range b.Instrs {
			if sel, ok := in.(*ssa.Select); ok {
				for _, st := range sel.States {
					if call, _ := engine.CallOf(st.Chan); call != nil && call.Common().IsInvoke() && call.Common().Method.Name() == "Done" {
						okW = true
					}
				}
			}
		}
	}
	c.Require(okW, "R18c", "worker-exits-on-cancel/"+c.P.FuncName(p.Worker), "the worker loop selects on ctx.Done", "pool workers do not watch ctx.Done: after an interrupt they keep taking queued jobs (new targets start)", c.P.Pos(p.Worker.Pos()))
	// enqueue: not a bare blocking send — the first send is in a select with another arm
	okE := true
	var pos string
	for _, fn := range c.P.Funcs {
		if !engine.InPackage(fn, "worker") {
			continue
		}
		for _, b := range fn.Blocks {
			for _, in := range b.Instrs {
				if sd, ok := in.(*ssa.Send); ok && isLoadOfField(sd.Chan, fk("worker.TaskWorkerPool", "jobCh")) {
					// a bare send must be dominated by a closed-pool test
					r, _ := engine.PathExists(fn, nil, engine.IsInstr(sd), engine.PathQuery{CutEdge: engine.CutEdgesWhere(func(a engine.Atom) bool {
						call, _ := engine.CallOf(a.V)
						return a.Op == "false" && call != nil && strings.HasSuffix(engine.CalleeName(call), "atomic.Bool).Load")
					})})
					if r {
						okE = false
						pos = c.P.InstrPos(sd)
					}
				}
			}
		}
	}
	c.Require(okE, "R18c", "enqueue-has-exit", "a job is enqueued through a select with a time backstop, and the blocking fallback is guarded by the closed-pool test", "a job can be enqueued with a bare blocking send without checking that the pool was shut down: after an interrupt the caller blocks forever", pos)
}

// R18m: an interrupted walk says so. Node routines that are interrupted return without recording a completion;
// if the walk then reports (completions, nil) the command sees neither an error nor a failed target and exits 0.
// So the walk may return a nil error only on a path on which its context was found not done, or fail-fast was
// triggered (then the failed completion is in the map).
func ruleInterruptedWalkReportsIt(c *Check, rule string) {
	c.Rule(rule, "every return of the walk with a nil error is reached through the branch on which ctx.Err() was nil or the branch on which the fail-fast flag was set", 1)
	w := findWalker(c, rule)
	if w == nil {
		return
	}
	walk := w.Walk
	ff := fk("dag.Walker", "failFastTriggered")
	// a helper that hands out the flag (read under the mutex, say)
	returnsFlag := func(v ssa.Value) bool {
		call, ok := v.(*ssa.Call)
		if !ok {
			return false
		}
		h := call.Call.StaticCallee()
		if h == nil || len(h.Blocks) == 0 || !engine.InPackage(h, "dag") {
			return false
		}
		n := 0
		for _, r := range engine.Returns(h) {
			if r.Block() == h.Recover || len(r.Results) != 1 {
				continue
			}
			for _, o := range engine.Origins(r.Results[0]) {
				if o == nil || !isLoadOfField(o, ff) {
					return false
				}
				n++
			}
		}
		return n > 0
	}
	allowed := engine.CutEdgesWhere(func(a engine.Atom) bool {
		switch a.Op {
		case "nil":
			for _, o := range engine.Origins(a.V) {
				if call, _ := engine.CallOf(o); call != nil && strings.HasSuffix(engine.CalleeName(call), "context.Context).Err") {
					return true
				}
			}
		case "true":
			return isLoadOfField(a.V, ff) || returnsFlag(a.V)
		}
		return false
	})
	// the places where a nil error is put into the result: a `return x, nil`, (when results are spilled to
	// cells because of a defer) the store of nil into the error cell, the edge on which a nil constant enters
	// the phi that is returned (`var err error; if …{ err = ctx.Err() }; return m, err`), or a nil-producing
	// place of a walker helper whose result is returned
	isNil := func(v ssa.Value) bool { k, ok := v.(*ssa.Const); return ok && k.Value == nil }
	nSites := 0
	var at ssa.Instruction
	var produces func(fn *ssa.Function, depth int) bool
	var valueMayBeUnjustifiedNil func(fn *ssa.Function, v ssa.Value, use ssa.Instruction, depth int) bool
	reachable := func(fn *ssa.Function, in ssa.Instruction) bool {
		r, _ := engine.PathExists(fn, nil, engine.IsInstr(in), engine.PathQuery{CutEdge: allowed, Shallow: true})
		return r
	}
	valueMayBeUnjustifiedNil = func(fn *ssa.Function, v ssa.Value, use ssa.Instruction, depth int) bool {
		switch x := v.(type) {
		case *ssa.Const:
			if x.Value == nil {
				nSites++
				if reachable(fn, use) {
					at = use
					return true
				}
			}
			return false
		case *ssa.Phi:
			for i, e := range x.Edges {
				pred := x.Block().Preds[i]
				last := pred.Instrs[len(pred.Instrs)-1]
				if isNil(e) {
					nSites++
					si := -1
					for j, sc := range pred.Succs {
						if sc == x.Block() {
							si = j
						}
					}
					if si >= 0 && !allowed(pred, si) && reachable(fn, last) && reachable(fn, use) {
						at = last
						return true
					}
					continue
				}
				if valueMayBeUnjustifiedNil(fn, e, last, depth) {
					return true
				}
			}
			return false
		case *ssa.UnOp:
			if x.Op == token.MUL {
				sts, _ := engine.ReachingStores(x)
				for _, st := range sts {
					if valueMayBeUnjustifiedNil(fn, st.Val, st, depth) {
						return true
					}
				}
			}
			return false
		case *ssa.MakeInterface, *ssa.ChangeInterface:
			return false // a concrete error value
		}
		if call, ri := engine.CallOf(v); call != nil {
			if cc, ok := call.(*ssa.Call); ok {
				if h := cc.Call.StaticCallee(); h != nil && len(h.Blocks) > 0 && engine.InPackage(h, "dag") && depth < 3 && ri == engine.ErrResultIndex(h.Signature) {
					if reachable(fn, cc) && produces(h, depth+1) {
						return true
					}
				}
			}
		}
		return false
	}
	produces = func(fn *ssa.Function, depth int) bool {
		idx := engine.ErrResultIndex(fn.Signature)
		for _, r := range engine.Returns(fn) {
			if r.Block() == fn.Recover || idx < 0 || idx >= len(r.Results) {
				continue
			}
			if valueMayBeUnjustifiedNil(fn, r.Results[idx], r, depth) {
				return true
			}
		}
		return false
	}
	reach := produces(walk, 0)
	pos := c.P.Pos(walk.Pos())
	if at != nil {
		pos = c.P.InstrPos(at)
	}
	if nSites == 0 {
		c.Unknown(rule, "interrupted-walk-reports-it/"+c.P.FuncName(walk), "the walk never returns a nil error", pos)
		return
	}
	c.Require(!reach, rule, "interrupted-walk-reports-it/"+c.P.FuncName(walk), "a nil error is returned only when the context is not done or fail-fast recorded the failure", "the walk can return a nil error without having looked at its context: when an interrupt makes every routine return (without a completion) before the walk notices the cancellation, the command gets an empty completion map and no error — it prints 'completed successfully' and exits 0", pos)
}

// R18o: shutting the pool down never waits for work. On an interrupt the workers leave on ctx.Done() without
// draining the queue, so anything the shutdown would wait for (a WaitGroup counting accepted jobs, a result
// channel) may never arrive; Execute defers the shutdown, so a blocking shutdown keeps the interrupted process
// alive — holding the workspace lock.
func rulePoolShutdownDoesNotBlock(c *Check, rule string) {
	c.Rule(rule, "the function that closes the pool's job channel, and everything it calls inside the worker package, contains no WaitGroup.Wait and no channel receive outside a select that has a default or a context arm", 1)
	jobCh := fk("worker.TaskWorkerPool", "jobCh")
	var shut *ssa.Function
	for _, fn := range c.P.Funcs {
		if !engine.InPackage(fn, "worker") {
			continue
		}
		for _, s := range engine.SitesIn(fn) {
			if b, ok := s.Common().Value.(*ssa.Builtin); ok && b.Name() == "close" && len(s.Common().Args) == 1 && isLoadOfField(s.Common().Args[0], jobCh) {
				shut = engine.TopFunc(fn)
			}
		}
	}
	if shut == nil {
		c.Unknown(rule, "shutdown-does-not-block", "anchor-unresolved: no function of internal/worker closes the job channel", "-")
		return
	}
	reach := c.G.ReachableFuncs([]*ssa.Function{shut}, func(f *ssa.Function) bool { return !engine.InPackage(f, "worker") })
	bad := ""
	for f := range reach {
		if !engine.InPackage(f, "worker") {
			continue
		}
		for _, b := range f.Blocks {
			for _, in := range b.Instrs {
				switch x := in.(type) {
				case *ssa.Call:
					if engine.CalleeName(x) == "(*sync.WaitGroup).Wait" {
						bad = "it waits for a WaitGroup (" + c.P.InstrPos(x) + ")"
					}
				case *ssa.UnOp:
					if x.Op == token.ARROW {
						bad = "it receives from a channel without an alternative (" + c.P.InstrPos(x) + ")"
					}
				case *ssa.Select:
					if x.Blocking {
						hasCtx := false
						for _, st := range x.States {
							if call, _ := engine.CallOf(st.Chan); call != nil && strings.HasSuffix(engine.CalleeName(call), "context.Context).Done") {
								hasCtx = true
							}
						}
						if !hasCtx {
							bad = "it blocks in a select without a context arm (" + c.P.InstrPos(x) + ")"
						}
					}
				}
			}
		}
	}
	c.Require(bad == "", rule, "shutdown-does-not-block/"+c.P.FuncName(shut), "closing the pool only closes the job channel", "the pool's shutdown can block: "+bad+". After an interrupt the workers have left without draining the queue, so a job that was accepted but never started is never accounted for: the deferred shutdown does not return, grog stays alive after Ctrl-C and keeps the workspace lock", c.P.Pos(shut.Pos()))
}
