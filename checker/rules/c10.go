package rules

import (
	"fmt"
	"sort"
	"strings"

	"golang.org/x/tools/go/ssa"

	"grogverif/engine"
)

func init() { register("C10", runC10) }

type lockerInfo struct {
	Lock, Unlock *ssa.Function
	OpenFn       *ssa.Function       // the function containing the exclusive create (Lock itself or a helper of it)
	Open         ssa.CallInstruction // the exclusive create
	OpenSite     ssa.CallInstruction // the site in Lock that leads to it
	PathField    engine.FieldKey
}

func findLocker(c *Check, rule string) *lockerInfo {
	li := &lockerInfo{}
	for _, s := range c.G.CallsTo("os.OpenFile", "os.Link") {
		fn := s.Parent()
		if !engine.InPackage(fn, "locking") || fn.Signature.Recv() == nil {
			continue
		}
		idx := 0
		if engine.CalleeName(s) == "os.Link" {
			idx = 1
		}
		arg := s.Common().Args[idx]
		if ld, ok := arg.(*ssa.UnOp); ok {
			if fa, ok := ld.X.(*ssa.FieldAddr); ok {
				li.Lock, li.Open, li.PathField = fn, s, engine.FieldKeyOf(fa.X.Type(), fa.Field)
			}
		}
	}
	if li.Lock == nil {
		c.Unknown(rule, "anchor/lock-acquire", "anchor-unresolved: no method in internal/locking opens a path held in a struct field", "-")
		return nil
	}
	// the acquire method is the top of the chain of in-package callers (the create may sit in a helper)
	li.OpenFn, li.OpenSite = li.Lock, li.Open
	for hop := 0; hop < 3; hop++ {
		var callers []ssa.CallInstruction
		for _, cs := range c.G.CallersOf(li.Lock) {
			if engine.InPackage(cs.Parent(), "locking") && cs.Parent() != li.Lock {
				callers = append(callers, cs)
			}
		}
		if len(callers) != 1 {
			break
		}
		li.Lock, li.OpenSite = callers[0].Parent(), callers[0]
	}
	for _, fn := range c.P.Funcs {
		if engine.InPackage(fn, "locking") && fn != li.Lock && fn.Signature.Recv() != nil && len(removesOf(fn, li.PathField)) > 0 {
			li.Unlock = fn
		}
	}
	if li.Unlock == nil {
		c.Unknown(rule, "anchor/lock-release", "anchor-unresolved: no release method removing the lock path", "-")
		return nil
	}
	return li
}

func removesOf(fn *ssa.Function, pathField engine.FieldKey) []ssa.CallInstruction {
	direct := func(s ssa.CallInstruction) bool {
		return engine.CalleeName(s) == "os.Remove" && isLoadOfField(s.Common().Args[0], pathField)
	}
	return engine.Calls(fn, func(s ssa.CallInstruction) bool {
		if direct(s) {
			return true
		}
		// a helper of the same package that removes the path on every path to its return
		call, ok := s.(*ssa.Call)
		if !ok {
			return false
		}
		h := call.Call.StaticCallee()
		if h == nil || len(h.Blocks) == 0 || h.Pkg != fn.Pkg || len(engine.Calls(h, direct)) == 0 {
			return false
		}
		isRet := func(in ssa.Instruction) bool { _, r := in.(*ssa.Return); return r && in.Parent() == h }
		skip, _ := engine.PathExists(h, nil, isRet, engine.PathQuery{Shallow: true, CutInstr: func(in ssa.Instruction) bool {
			cs, ok := in.(ssa.CallInstruction)
			return ok && direct(cs)
		}})
		return !skip
	})
}

func runC10(c *Check, tier string) {
	c.Decides = "the per-process structural conditions of the lock protocol: acquisition succeeds only through an exclusive create (O_CREATE|O_EXCL) of the lock path followed by a successful PID write; a lock file that is unreadable, unparsable or names a dead process is removed and acquisition retried (stale recovery exists for each class); each such removal is a check-then-act on a path another process may have re-created (reported as known findings: the protocol cannot be made safe without a different primitive); the build command executes only after a successful acquire (unless skip_workspace_lock), a failed or cancelled acquire is fatal, and the release is registered only after a successful acquire; the liveness probe treats EPERM as alive and non-positive PIDs as dead."
	c.NotDec = "mutual exclusion under all interleavings of several processes and crash points (a model-checking question), PID reuse."
	li := findLocker(c, "R10a")
	if li == nil {
		c.Rule("R10a", "anchors", 1)
		return
	}
	ruleR10a(c, li)
	ruleR10b(c, li, "R10b", true)
	ruleR10c(c, li)
	ruleR10d(c, li)
	ruleR10e(c, li)
	ruleR10f(c, li)
	ruleSingleRelease(c, li, "R10g")
	ruleWaiterReprobes(c, li, "R10h")
}

func ruleR10a(c *Check, li *lockerInfo) {
	c.Rule("R10a", "the acquire function opens the lock path with O_CREATE|O_EXCL and returns nil only after that open (or the write to the file it returned) succeeded", 2)
	fname := c.P.FuncName(li.Lock)
	okFlags := engine.CalleeName(li.Open) == "os.Link"
	if !okFlags {
		if k, ok := li.Open.Common().Args[1].(*ssa.Const); ok && k.Value != nil {
			f := k.Int64()
			okFlags = f&0x40 != 0 && f&0x80 != 0
		}
	}
	c.Require(okFlags, "R10a", "exclusive-create/"+fname, "the lock file is created with O_CREATE|O_EXCL", "the lock file is opened without O_CREATE|O_EXCL: two processes can both 'acquire' the lock", c.P.InstrPos(li.Open))
	// success only via successful open / write
	var writes []ssa.CallInstruction
	for _, s := range callsNamed(li.OpenFn, "(*os.File).Write", "(*os.File).WriteString") {
		if engine.OriginsAllFromCall(s.Common().Args[0], map[ssa.CallInstruction]int{li.Open: 0}, false) {
			writes = append(writes, s)
		}
	}
	cut := engine.NilErrEdgesOf(append([]ssa.CallInstruction{li.Open}, writes...)...)
	reach, at := engine.PathExists(li.Lock, nil, successReturn, engine.PathQuery{CutEdge: cut})
	pos := c.P.InstrPos(li.Open)
	if at != nil {
		pos = c.P.InstrPos(at)
	}
	c.Require(!reach, "R10a", "acquire-only-by-create/"+fname, "`return nil` is reachable only through a successful exclusive create / PID write", "the acquire function can report success without having created the lock file exclusively", pos)
}

// removal sites classified by the test that guards them
func classifyRemovals(c *Check, li *lockerInfo) map[string][]ssa.CallInstruction {
	return classifyRemovalsIn(c, li, li.Lock, true)
}

// holderJudge: the acquire loop may leave "is there a live holder?" to a helper that reads the lock file,
// removes it when it is stale and answers with a bool. Returns that helper, its call in the loop and the
// index of the bool among its results.
func holderJudge(c *Check, li *lockerInfo) (*ssa.Function, *ssa.Call, int) {
	for _, s := range engine.SitesIn(li.Lock) {
		call, ok := s.(*ssa.Call)
		if !ok || engine.LoopOf(call) == nil {
			continue
		}
		h := call.Call.StaticCallee()
		if h == nil || len(h.Blocks) == 0 || !engine.InPackage(h, "locking") || h == li.Lock {
			continue
		}
		probes := false
		for _, hs := range engine.SitesIn(h) {
			for _, f := range c.G.Callees[hs] {
				if engine.InPackage(f, "locking") && len(callsNamed(f, "os.FindProcess")) > 0 {
					probes = true
				}
			}
		}
		if !probes || len(removesOf(h, li.PathField)) == 0 {
			continue
		}
		res := h.Signature.Results()
		for i := 0; i < res.Len(); i++ {
			if res.At(i).Type().String() == "bool" {
				return h, call, i
			}
		}
	}
	return nil, nil, -1
}

func classifyRemovalsIn(c *Check, li *lockerInfo, fn *ssa.Function, needLoop bool) map[string][]ssa.CallInstruction {
	out := map[string][]ssa.CallInstruction{}
	for _, rm := range removesOf(fn, li.PathField) {
		if needLoop && engine.LoopOf(rm) == nil {
			out["cleanup"] = append(out["cleanup"], rm)
			continue
		}
		tests := staleTests(c)
		all := func(a engine.Atom) bool {
			for _, t := range tests {
				if t.pred(a) {
					return true
				}
			}
			return false
		}
		// the removal must be reachable only when one of the stale conditions holds ...
		if r, _ := engine.PathExists(fn, nil, engine.IsInstr(rm), engine.PathQuery{CutEdge: engine.CutEdgesWhere(all)}); r {
			out["unclassified"] = append(out["unclassified"], rm)
			continue
		}
		// ... and it recovers class X when X alone suffices to reach it (the other classes' edges cut)
		n := 0
		for _, t := range tests {
			others := func(a engine.Atom) bool {
				for _, o := range tests {
					if o.name != t.name && o.pred(a) {
						return true
					}
				}
				return false
			}
			if r, _ := engine.PathExists(fn, nil, engine.IsInstr(rm), engine.PathQuery{CutEdge: engine.CutEdgesWhere(others)}); r {
				out[t.name] = append(out[t.name], rm)
				n++
			}
		}
		if n == 0 {
			out["unclassified"] = append(out["unclassified"], rm)
		}
	}
	return out
}

type staleTest struct {
	name string
	pred func(a engine.Atom) bool
}

// staleTests: the branch facts that mean "no live holder".
func staleTests(c *Check) []staleTest {
	return []staleTest{
		{"unreadable", func(a engine.Atom) bool {
			if a.Op != "nonnil" {
				return false
			}
			for _, o := range engine.Origins(a.V) {
				if call, _ := engine.CallOf(o); call != nil && (engine.CalleeName(call) == "os.ReadFile" || engine.CalleeName(call) == "io.ReadAll") {
					return true
				}
			}
			return false
		}},
		{"unparsable", func(a engine.Atom) bool {
			if a.Op != "nonnil" {
				return false
			}
			for _, o := range engine.Origins(a.V) {
				if call, _ := engine.CallOf(o); call != nil && strings.HasPrefix(engine.CalleeName(call), "strconv.") {
					return true
				}
			}
			return false
		}},
		{"dead-pid", func(a engine.Atom) bool {
			if a.Op != "false" {
				return false
			}
			call, _ := engine.CallOf(a.V)
			if call == nil {
				return false
			}
			for _, f := range c.G.Callees[call] {
				if engine.InPackage(f, "locking") && len(callsNamed(f, "os.FindProcess")) > 0 {
					return true
				}
			}
			return false
		}},
	}
}

func ruleR10b(c *Check, li *lockerInfo, rule string, reportCheckThenAct bool) {
	c.Rule(rule, "stale recovery: for each class of 'no live holder' (unreadable, unparsable, dead PID) the acquire loop removes the lock path and retries without waiting; but each such removal acts on a path whose content was tested earlier (check-then-act): another process can have re-created the file in between; the loop waits only after the liveness probe confirmed a live holder", map[bool]int{true: 7, false: 4}[reportCheckThenAct])
	fn := li.Lock
	fname := c.P.FuncName(fn)
	classes := classifyRemovals(c, li)
	judge, judgeCall, judgeIdx := holderJudge(c, li)
	if judge != nil {
		for k, v := range classifyRemovalsIn(c, li, judge, false) {
			classes[k] = append(classes[k], v...)
		}
	}
	isWaitInstr := func(in ssa.Instruction) bool {
		switch x := in.(type) {
		case *ssa.Select:
			return x.Blocking
		case *ssa.Call:
			return engine.CalleeName(x) == "time.Sleep"
		}
		return false
	}
	// the judge's answer at its call site in the loop
	judgeSays := func(truth string) func(b *ssa.BasicBlock, i int) bool {
		return engine.CutEdgesWhere(func(a engine.Atom) bool {
			if judgeCall == nil || a.Op != truth {
				return false
			}
			ex, ok := a.V.(*ssa.Extract)
			return ok && ex.Tuple == ssa.Value(judgeCall) && ex.Index == judgeIdx
		})
	}
	for _, cls := range []string{"unreadable", "unparsable", "dead-pid"} {
		rms := classes[cls]
		key := "stale-recovery/" + cls + "/" + fname
		if len(rms) == 0 {
			c.Bad(rule, key, "a lock file that is "+cls+" (left by a process that died, e.g. between the exclusive create and the PID write) is never removed: it blocks every later build forever", c.P.Pos(fn.Pos()))
			continue
		}
		if judge != nil && rms[0].Parent() == judge {
			// the helper answers "no live holder" after the removal, and on that answer the loop retries at once
			answersDead := true
			engine.PathExists(judge, rms[0], func(in ssa.Instruction) bool {
				r, ok := in.(*ssa.Return)
				if !ok || in.Parent() != judge || judgeIdx >= len(r.Results) {
					return false
				}
				if k, isK := engine.BoolConst(r.Results[judgeIdx]); !isK || k {
					answersDead = false
				}
				return false
			}, engine.PathQuery{Shallow: true})
			retries := false
			if lp := engine.LoopOf(judgeCall); lp != nil {
				toHeader := func(in ssa.Instruction) bool { return in == lp.Header.Instrs[0] }
				retries, _ = engine.PathExists(fn, judgeCall, toHeader, engine.PathQuery{CutInstr: isWaitInstr, CutEdge: judgeSays("true"), Shallow: true})
			}
			c.Require(answersDead && retries, rule, key, "the "+cls+" lock file is removed, the helper answers 'no live holder' and acquisition is retried at once", "after classifying the lock file as "+cls+" the loop does not retry the acquisition", c.P.InstrPos(rms[0]))
			for _, rm := range rms {
				if !reportCheckThenAct {
					break
				}
				c.Bad(rule, "stale-removal-check-then-act/"+cls+"/"+fname, "os.Remove(lock path) after testing the file's content is not atomic with that test: "+map[string]string{
					"unreadable": "a contender that finds the file unreadable deletes whatever is there now",
					"unparsable": "an empty file is the normal state of a lock between the holder's exclusive create and its separate PID write, so a contender deletes a live lock and both proceed",
					"dead-pid":   "between reading a dead PID and removing the path another contender may already have removed the stale file and created its own lock, which is then deleted",
				}[cls], c.P.InstrPos(rm))
			}
			continue
		}
		// after the removal the loop retries immediately: the header is reached without a blocking wait
		lp := engine.LoopOf(rms[0])
		blocked := true
		if lp != nil {
			isWait := func(in ssa.Instruction) bool {
				switch x := in.(type) {
				case *ssa.Select:
					return x.Blocking
				case *ssa.Call:
					n := engine.CalleeName(x)
					return n == "time.Sleep"
				}
				return false
			}
			toHeader := func(in ssa.Instruction) bool { return in == lp.Header.Instrs[0] }
			r, _ := engine.PathExists(fn, rms[0], toHeader, engine.PathQuery{CutInstr: isWait})
			blocked = !r
		}
		c.Require(!blocked, rule, key, "the "+cls+" lock file is removed and acquisition retried at once", "after classifying the lock file as "+cls+" the loop does not retry the acquisition", c.P.InstrPos(rms[0]))
		for _, rm := range rms {
			if !reportCheckThenAct {
				break
			}
			c.Bad(rule, "stale-removal-check-then-act/"+cls+"/"+fname, "os.Remove(lock path) after testing the file's content is not atomic with that test: "+map[string]string{
				"unreadable": "a contender that finds the file unreadable deletes whatever is there now",
				"unparsable": "an empty file is the normal state of a lock between the holder's exclusive create and its separate PID write, so a contender deletes a live lock and both proceed",
				"dead-pid":   "between reading a dead PID and removing the path another contender may already have removed the stale file and created its own lock, which is then deleted",
			}[cls], c.P.InstrPos(rm))
		}
	}
	// waiting is allowed only with evidence of a live holder
	if lp := engine.LoopOf(li.OpenSite); lp != nil {
		alive := engine.CutEdgesWhere(func(a engine.Atom) bool {
			if a.Op != "true" {
				return false
			}
			call, _ := engine.CallOf(a.V)
			if call == nil {
				return false
			}
			for _, f := range c.G.Callees[call] {
				if engine.InPackage(f, "locking") && len(callsNamed(f, "os.FindProcess")) > 0 {
					return true
				}
			}
			return false
		})
		if judge != nil {
			// the helper says 'alive' only past the probe's true edge
			probeTrue := alive
			honest := true
			engine.PathExists(judge, nil, func(in ssa.Instruction) bool {
				r, ok := in.(*ssa.Return)
				if !ok || in.Parent() != judge || judgeIdx >= len(r.Results) {
					return false
				}
				if k, isK := engine.BoolConst(r.Results[judgeIdx]); !isK || k {
					honest = false
				}
				return false
			}, engine.PathQuery{CutEdge: probeTrue, Shallow: true})
			if honest {
				js := judgeSays("true")
				alive = func(b *ssa.BasicBlock, i int) bool { return probeTrue(b, i) || js(b, i) }
			}
		}
		bad := ""
		for b := range lp.Body {
			for _, in := range b.Instrs {
				isWait := false
				switch x := in.(type) {
				case *ssa.Select:
					isWait = x.Blocking
				case *ssa.Call:
					isWait = engine.CalleeName(x) == "time.Sleep"
				}
				if !isWait {
					continue
				}
				// reachable within an iteration without the probe's true edge?
				var bodyEntry *ssa.BasicBlock
				for _, sb := range lp.Header.Succs {
					if lp.Body[sb] {
						bodyEntry = sb
					}
				}
				start := ssa.Instruction(nil)
				if bodyEntry != nil && bodyEntry != fn.Blocks[0] {
					start = firstInstrBefore(bodyEntry)
				}
				if r, _ := engine.PathExists(fn, start, engine.IsInstr(in), engine.PathQuery{CutEdge: alive}); r {
					bad = "the acquire loop can wait (" + c.P.InstrPos(in) + ") without the liveness probe having confirmed a live holder: a lock file left by a dead process (e.g. empty, from a crash between create and PID write) blocks every later build"
				}
			}
		}
		c.Require(bad == "", rule, "wait-only-for-live-holder/"+fname, "every wait in the acquire loop is dominated by the liveness probe answering 'alive'", bad, c.P.InstrPos(li.OpenSite))
	}
	if n := len(classes["unclassified"]); n > 0 {
		c.Unknown(rule, "stale-removal/unclassified/"+fname, fmt.Sprintf("%d removal(s) of the lock path inside the acquire loop are guarded by a condition the rule does not recognise", n), c.P.InstrPos(classes["unclassified"][0]))
	}
}

func ruleR10c(c *Check, li *lockerInfo) {
	c.Rule("R10c", "in every function that starts the executor: Execute is reachable only through the skip_workspace_lock branch or after Lock returned nil; a failing Lock never returns normally; the deferred release is registered only after Lock returned nil", 3)
	exec := anchor(c, "R10c", "execution", "Executor", "Execute")
	if exec == nil {
		return
	}
	isRet := func(in ssa.Instruction) bool { _, r := in.(*ssa.Return); return r }
	skip := atomDerivedFrom(c, "true", fk("config.WorkspaceConfig", "SkipWorkspaceLock"))
	for _, fn := range c.G.CallerFuncs(exec) {
		fname := c.P.FuncName(fn)
		locks := callsToFn(c, fn, li.Lock)
		// the acquisition may be wrapped: a helper of the command that locks (or honours
		// skip_workspace_lock) and hands back the release function
		var helper *ssa.Function
		var helperSite ssa.CallInstruction
		if len(locks) == 0 {
			for _, s := range engine.SitesIn(fn) {
				call, ok := s.(*ssa.Call)
				if !ok {
					continue
				}
				if h := call.Call.StaticCallee(); h != nil && len(h.Blocks) > 0 && len(callsToFn(c, h, li.Lock)) > 0 {
					helper, helperSite = h, s
				}
			}
		}
		if len(locks) == 0 && helper == nil {
			c.Bad("R10c", "lock-before-execute/"+fname, "the executor is started without acquiring the workspace lock", c.P.Pos(fn.Pos()))
			continue
		}
		lockFn := fn // the function that contains the Lock call
		if helper != nil {
			lockFn = helper
			locks = callsToFn(c, helper, li.Lock)
		}
		lk := locks[0]
		bad := ""
		for _, e := range callsToFn(c, fn, exec) {
			if helper == nil {
				if r, _ := engine.PathExists(fn, nil, engine.IsInstr(e), engine.PathQuery{CutInstr: engine.IsInstr(lk), CutEdge: engine.CutEdgesWhere(skip)}); r {
					bad = "the executor can start without the lock although skip_workspace_lock is not set"
				}
				if r, _ := engine.PathExists(fn, lk, engine.IsInstr(e), engine.PathQuery{CutEdge: engine.NilErrEdgesOf(lk), CutInstr: isNoReturnCall}); r {
					bad = "the executor can start although acquiring the lock failed"
				}
				continue
			}
			// the helper call dominates Execute, and the helper returns only with the lock held or on the skip branch
			if r, _ := engine.PathExists(fn, nil, engine.IsInstr(e), engine.PathQuery{CutInstr: engine.IsInstr(helperSite), CutEdge: engine.CutEdgesWhere(skip), Shallow: true}); r {
				bad = "the executor can start without passing the lock-acquiring helper although skip_workspace_lock is not set"
			}
			if r, _ := engine.PathExists(helper, nil, isRet, engine.PathQuery{CutInstr: engine.IsInstr(lk), CutEdge: engine.CutEdgesWhere(skip), Shallow: true}); r {
				bad = "the lock-acquiring helper can return without the lock although skip_workspace_lock is not set"
			}
			if r, _ := engine.PathExists(helper, lk, isRet, engine.PathQuery{CutEdge: engine.NilErrEdgesOf(lk), CutInstr: isNoReturnCall, Shallow: true}); r {
				bad = "the lock-acquiring helper returns normally although acquiring the lock failed: the executor would start"
			}
		}
		c.Require(bad == "", "R10c", "lock-before-execute/"+fname, "Execute is dominated by a successful Lock (or by skip_workspace_lock)", bad, c.P.InstrPos(lk))
		// failing lock is fatal
		r, _ := engine.PathExists(lockFn, lk, isRet, engine.PathQuery{CutEdge: engine.NilErrEdgesOf(lk), CutInstr: isNoReturnCall, Shallow: true})
		c.Require(!r, "R10c", "failed-lock-is-fatal/"+fname, "a failed or cancelled Lock ends in Fatalf/os.Exit", "after a failed or cancelled Lock the command returns normally: deferred functions (the lock release!) still run, and a waiter that never held the lock deletes the holder's lock file", c.P.InstrPos(lk))
		// the release is registered only after success
		okRel := false
		if helper == nil {
			rel := sitesReaching(c, fn, fnSet(li.Unlock))
			okRel = len(rel) > 0
			for _, s := range rel {
				if _, isDefer := s.(*ssa.Defer); !isDefer {
					continue
				}
				if r, _ := engine.PathExists(fn, nil, engine.IsInstr(s), engine.PathQuery{CutInstr: engine.IsInstr(lk)}); r {
					okRel = false
				}
				if r, _ := engine.PathExists(fn, lk, engine.IsInstr(s), engine.PathQuery{CutEdge: engine.NilErrEdgesOf(lk), CutInstr: isNoReturnCall}); r {
					okRel = false
				}
			}
		} else {
			// the helper hands back the release: a function literal that unlocks, created only after Lock
			// returned nil, and the caller defers what the helper returned
			var releases []ssa.Instruction
			for _, b := range helper.Blocks {
				for _, in := range b.Instrs {
					mc, ok := in.(*ssa.MakeClosure)
					if !ok {
						continue
					}
					if lit, ok := mc.Fn.(*ssa.Function); ok && c.G.ReachableFuncs([]*ssa.Function{lit}, nil)[li.Unlock] {
						releases = append(releases, mc)
					}
				}
			}
			okRel = len(releases) > 0
			for _, mc := range releases {
				if r, _ := engine.PathExists(helper, nil, engine.IsInstr(mc), engine.PathQuery{CutInstr: engine.IsInstr(lk), Shallow: true}); r {
					okRel = false
				}
				if r, _ := engine.PathExists(helper, lk, engine.IsInstr(mc), engine.PathQuery{CutEdge: engine.NilErrEdgesOf(lk), CutInstr: isNoReturnCall, Shallow: true}); r {
					okRel = false
				}
			}
			deferred := false
			for _, s := range engine.SitesIn(fn) {
				d, isDefer := s.(*ssa.Defer)
				if !isDefer {
					continue
				}
				for _, o := range engine.Origins(d.Call.Value) {
					if call, _ := engine.CallOf(o); call == helperSite {
						deferred = true
					}
				}
			}
			if !deferred {
				okRel = false
			}
		}
		c.Require(okRel, "R10c", "release-after-acquire/"+fname, "the deferred Unlock is registered only after Lock returned nil", "the lock release is registered before (or regardless of) a successful acquire: a process that never held the lock removes the lock file of the process that does", c.P.InstrPos(lk))
	}
}

func ruleR10d(c *Check, li *lockerInfo) {
	c.Rule("R10d", "the liveness probe returns false for pid <= 0, counts EPERM as alive and answers true whenever the null signal was delivered; Unlock removes exactly the lock path", 3)
	var probe *ssa.Function
	for _, fn := range c.P.Funcs {
		if engine.InPackage(fn, "locking") && len(callsNamed(fn, "os.FindProcess")) > 0 {
			probe = fn
		}
	}
	if probe == nil {
		c.Bad("R10d", "liveness-probe", "no liveness probe of the PID recorded in the lock file: a lock left behind by a dead process blocks forever", "-")
	} else {
		// pid <= 0 => false
		okNonPos := false
		for _, b := range probe.Blocks {
			for i := range b.Succs {
				a, ok := engine.EdgeAtom(b, i)
				if !ok || a.Op != "le" {
					continue
				}
				if k, isK := a.Other.(*ssa.Const); isK && k.Int64() == 0 && a.V == ssa.Value(probe.Params[0]) {
					if r, ok := b.Succs[i].Instrs[0].(*ssa.Return); ok {
						if bv, isB := engine.BoolConst(r.Results[0]); isB && !bv {
							okNonPos = true
						}
					}
				}
			}
		}
		eperm := false
		for _, s := range callsNamed(probe, "errors.Is") {
			if ld, ok := s.Common().Args[1].(*ssa.MakeInterface); ok {
				if k, ok := ld.X.(*ssa.Const); ok && k.Value != nil && k.Int64() == 1 { // EPERM
					eperm = true
				}
				if strings.Contains(ld.X.String(), "EPERM") {
					eperm = true
				}
			}
		}
		// a process that answers the null signal is alive, whatever else one could find out about it
		for _, sg := range callsNamed(probe, "(*os.Process).Signal") {
			errIdx := engine.ErrResultIndex(sg.Common().Signature())
			nonNil := engine.CutEdgesWhere(func(a engine.Atom) bool {
				if a.Op != "nonnil" {
					return false
				}
				for _, o := range engine.Origins(a.V) {
					if call, i := engine.CallOf(o); call == sg && i == errIdx {
						return true
					}
				}
				return false
			})
			bad := ""
			for _, r := range engine.Returns(probe) {
				if len(r.Results) != 1 {
					continue
				}
				for _, lf := range engine.PhiLeaves(r.Results[0]) {
					if k, isK := engine.BoolConst(lf.Val); isK && k {
						continue
					}
					var reach bool
					if lf.Pred == nil {
						reach, _ = engine.PathExists(probe, sg, engine.IsInstr(r), engine.PathQuery{CutEdge: nonNil, Shallow: true})
					} else {
						// the edge pred -> phi block must itself be takable with err == nil
						cutIn := false
						for si, sb := range lf.Pred.Succs {
							if sb == lf.Phi.Block() && nonNil(lf.Pred, si) {
								cutIn = true
							}
						}
						if !cutIn {
							term := lf.Pred.Instrs[len(lf.Pred.Instrs)-1]
							if lf.Pred == sg.Block() {
								reach = true
							} else {
								reach, _ = engine.PathExists(probe, sg, engine.IsInstr(term), engine.PathQuery{CutEdge: nonNil, Shallow: true})
							}
						}
					}
					if reach {
						bad = "after the holder answered the null signal (err == nil) the probe can still answer 'not running' (" + c.P.InstrPos(r) + ")"
					}
				}
			}
			c.Require(bad == "", "R10d", "signal-answer-means-alive/"+c.P.FuncName(probe), "when Signal(0) returns nil the probe returns true", bad+": a live holder is taken for dead (by a name comparison, say), its lock file is removed and two builds run at once", c.P.InstrPos(sg))
		}
		c.Require(okNonPos && eperm, "R10d", "liveness-probe/"+c.P.FuncName(probe), "pid <= 0 is dead; EPERM (another user's live process) is alive", fmt.Sprintf("the liveness probe misjudges (pid<=0 dead: %v, EPERM alive: %v): a live holder's lock could be broken or garbage PIDs keep it forever", okNonPos, eperm), c.P.Pos(probe.Pos()))
	}
	rms := removesOf(li.Unlock, li.PathField)
	var others []string
	for _, s := range engine.SitesIn(li.Unlock) {
		n := engine.CalleeName(s)
		if strings.HasPrefix(n, "os.Remove") && !containsCall(rms, s) {
			others = append(others, n)
		}
	}
	sort.Strings(others)
	c.Require(len(rms) == 1 && len(others) == 0, "R10d", "unlock-removes-lock-path/"+c.P.FuncName(li.Unlock), "Unlock removes the lock path", "Unlock does not remove exactly the lock path", c.P.Pos(li.Unlock.Pos()))
}

// R10e: one lock per workspace. Mutual exclusion is between processes that open the same path; the path must
// therefore be a function of the workspace's identity (the grog root and the workspace root) and of nothing
// that can differ between two builds of the same workspace (platform, flags, environment, time, process).
func ruleR10e(c *Check, li *lockerInfo) {
	c.Rule("R10e", "the lock file path derives (value-flow graph, backward from the locker's path field) from no field of the workspace configuration other than the grog root and the workspace root, and from no process-, time- or environment-dependent call", 1)
	allowed := map[engine.FieldKey]bool{fk("config.WorkspaceConfig", "Root"): true, fk("config.WorkspaceConfig", "WorkspaceRoot"): true}
	back := c.G.Backward([]Node{li.PathField}, func(e *engine.Edge) bool {
		if e.Kind == engine.EField {
			return false
		}
		if k, ok := e.To.(engine.FieldKey); ok && allowed[k] {
			return false // where the two roots come from is the workspace's identity
		}
		return true
	})
	var bad []string
	for n := range back.Parent {
		switch x := n.(type) {
		case engine.FieldKey:
			if x.T == "config.WorkspaceConfig" && !allowed[x] {
				bad = append(bad, "config field "+x.F)
			}
		case ssa.Value:
			if call, _ := engine.CallOf(x); call != nil {
				switch engine.CalleeName(call) {
				case "os.Getenv", "os.LookupEnv", "os.Getpid", "os.Hostname", "time.Now", "os.Getwd", "os.Executable":
					bad = append(bad, engine.CalleeName(call))
				}
			}
			if g, ok := x.(*ssa.Global); ok && g.Pkg != nil && g.Pkg.Pkg.Path() == "runtime" {
				bad = append(bad, "runtime."+g.Name())
			}
		}
	}
	sort.Strings(bad)
	c.Require(len(bad) == 0, "R10e", "lock-path-is-workspace-identity/"+li.PathField.String(), "the lock path depends only on the grog root and the workspace root", "the lock path also depends on "+strings.Join(bad, ", ")+": two builds of the same workspace that differ in it (a native and a --platform build, say) lock different files and run at the same time", c.P.Pos(li.Lock.Pos()))
}

// R10f: nobody but the holder takes the lock file away. A command that removes a directory above the lock file
// (the workspace's cache directory, or the whole grog root) removes the lock of a build that is running: the
// next build finds no lock file and starts next to it.
func ruleR10f(c *Check, li *lockerInfo) {
	c.Rule("R10f", "outside internal/locking, every os.Remove/os.RemoveAll whose path derives from the workspace's grog directory or the grog root (the directories above the lock file) is executed by a command that acquired the workspace lock first", 1)
	rootDir := c.P.Func("config", "WorkspaceConfig", "GetWorkspaceRootDir")
	rootKey := fk("config.WorkspaceConfig", "Root")
	n := 0
	for _, s := range c.G.CallsTo("os.RemoveAll", "os.Remove") {
		fn := s.Parent()
		if engine.InPackage(fn, "locking") || !engine.IsFirstParty(pkgPathOf(fn)) || len(s.Common().Args) == 0 {
			continue
		}
		// only the path itself (not a path below it: a Join with a further element names something else)
		above := false
		for _, o := range engine.Origins(s.Common().Args[0]) {
			if o == nil {
				continue
			}
			if call, _ := engine.CallOf(o); call != nil && rootDir != nil && call.Common().StaticCallee() == rootDir {
				above = true
			}
			if ld, ok := o.(*ssa.UnOp); ok {
				if fa, ok := ld.X.(*ssa.FieldAddr); ok && engine.FieldKeyOf(fa.X.Type(), fa.Field) == rootKey {
					above = true
				}
			}
		}
		if !above {
			continue
		}
		n++
		top := engine.TopFunc(fn)
		locked := false
		for _, l := range callsToFn(c, top, li.Lock) {
			if r, _ := engine.PathExists(top, nil, engine.IsInstr(s), engine.PathQuery{CutInstr: engine.IsInstr(l)}); !r || fn != top {
				locked = true
			}
		}
		name := c.P.FuncName(fn)
		for use, run := range cobraCommands(c) {
			if run == top || run == fn {
				name = "grog " + use
			}
		}
		c.Require(locked, "R10f", "lock-dir-removed-under-lock/"+name, "the command holds the workspace lock when it removes the directory", "the directory that holds the lock file is removed without holding the workspace lock: run while a build is in progress it deletes that build's lock file, and the next build starts although the first is still running", c.P.InstrPos(s))
	}
	if n == 0 {
		c.OK("R10f", "lock-dir-removed-under-lock", "no removal of a directory above the lock file outside internal/locking", "-")
	}
}
