package rules

import (
	"fmt"
	"go/types"
	"sort"
	"strings"

	"golang.org/x/tools/go/ssa"

	"grogverif/engine"
)

func init() { register("C19", runC19) }

func runC19(c *Check, tier string) {
	c.Decides = "every recursive or worklist traversal over the graph's adjacency lists descends into a node only on the 'never seen' branch of a per-node mark (set membership, three-colour map, in-degree counter reaching zero, or the IsSelected mark) and sets that mark on every path — so each node is expanded at most once and the work is bounded by nodes + edges, not by the number of paths; pairwise output-conflict checks enumerate pairs (quadratic), not paths; the map that guards a descent is the map that is marked."
	c.NotDec = "constant factors, actual running times, third-party code."
	ruleTraversals(c, "R19a", false)
	// the one recursion that is not a marked traversal: it descends only into what is not yet materialised
	ruleRerunOnlyWhenNeeded(c, "R19b")
	ruleNoSplicedSubResults(c, "R19c")
}

type traversal struct {
	Fn    *ssa.Function
	Loop  *engine.Loop
	Site  ssa.Instruction // recursive call or worklist push
	Kind  string          // "recursion" | "worklist"
	Elem  ssa.Value
	Table string // non-empty: tabled exception reason
}

// adjacency values: reads of the edge maps, or results of the accessor functions.
func isAdjacency(c *Check, v ssa.Value, depth int) bool {
	if v == nil || depth > 6 {
		return false
	}
	switch x := v.(type) {
	case *ssa.Lookup:
		if isEdgeMapType(x.X.Type()) {
			return true // any map label -> []BuildNode is an adjacency map (the edge maps handed to a helper)
		}
		return isLoadOfField(x.X, fInEdges) || isLoadOfField(x.X, fOutEdges) || isAdjacency(c, x.X, depth+1)
	case *ssa.Call:
		for _, f := range c.G.Callees[x] {
			if engine.InPackage(f, "dag") && returnsNodeSlice(f) && (readsFieldDeep(c, f, fInEdges) || readsFieldDeep(c, f, fOutEdges)) {
				return true
			}
		}
		// the declared dependency labels of a node are the same relation, one lookup away
		if x.Call.IsInvoke() && x.Call.Method.Name() == "GetDependencies" && engine.TypeKey(x.Call.Value.Type()) == "model.BuildNode" {
			return true
		}
		if b, ok := x.Call.Value.(*ssa.Builtin); ok && b.Name() == "append" {
			for _, a := range x.Call.Args {
				if isAdjacency(c, a, depth+1) {
					return true
				}
			}
		}
	case *ssa.Phi:
		for _, e := range x.Edges {
			if isAdjacency(c, e, depth+1) {
				return true
			}
		}
	case *ssa.Slice:
		return isAdjacency(c, x.X, depth+1)
	case *ssa.UnOp:
		if isLoadOfField(x, fInEdges) || isLoadOfField(x, fOutEdges) {
			return true
		}
		for _, o := range engine.Origins(x) {
			if o != nil && o != ssa.Value(x) && isAdjacency(c, o, depth+1) {
				return true
			}
		}
	}
	return false
}

// isEdgeMapType: map[label.TargetLabel][]model.BuildNode
func isEdgeMapType(t types.Type) bool {
	m, ok := t.Underlying().(*types.Map)
	if !ok || engine.TypeKey(m.Key()) != "label.TargetLabel" {
		return false
	}
	sl, ok := m.Elem().Underlying().(*types.Slice)
	return ok && engine.TypeKey(sl.Elem()) == "model.BuildNode"
}

func returnsNodeSlice(f *ssa.Function) bool {
	res := f.Signature.Results()
	for i := 0; i < res.Len(); i++ {
		if sl, ok := res.At(i).Type().Underlying().(*types.Slice); ok {
			k := engine.TypeKey(sl.Elem())
			if k == "model.BuildNode" || k == "model.Target" {
				return true
			}
		}
	}
	return false
}

// neverSeenAtom: the branch establishes that the per-node mark was not set before.
func neverSeenAtom(c *Check, a engine.Atom) (ssa.Value, bool) {
	markOf := func(v ssa.Value) (ssa.Value, bool) {
		switch x := v.(type) {
		case *ssa.Lookup:
			if isLoadOfField(x.X, fInEdges) || isLoadOfField(x.X, fOutEdges) || isEdgeMapType(x.X.Type()) {
				return nil, false
			}
			if _, isMap := x.X.Type().Underlying().(*types.Map); isMap {
				return x.X, true
			}
		case *ssa.Extract:
			if lk, ok := x.Tuple.(*ssa.Lookup); ok && lk.CommaOk {
				if isLoadOfField(lk.X, fInEdges) || isLoadOfField(lk.X, fOutEdges) {
					return nil, false
				}
				return lk.X, true
			}
		case *ssa.Call:
			if x.Call.IsInvoke() && x.Call.Method.Name() == "GetIsSelected" {
				return x.Call.Value, true
			}
		}
		return nil, false
	}
	switch a.Op {
	case "false", "nil":
		if ex, ok := a.V.(*ssa.Extract); ok && ex.Index == 0 {
			// comma-ok value part compared: not a membership test
			if _, isLk := ex.Tuple.(*ssa.Lookup); isLk {
				if m, ok := markOf(a.V); ok && a.Op == "nil" {
					return m, true
				}
			}
		}
		if m, ok := markOf(a.V); ok {
			return m, true
		}
	case "eq":
		if k, ok := a.Other.(*ssa.Const); ok && isZeroConst(k) {
			if m, ok := markOf(a.V); ok {
				return m, true
			}
			if ex, ok := a.V.(*ssa.Extract); ok && ex.Index == 0 {
				if lk, ok := ex.Tuple.(*ssa.Lookup); ok {
					return lk.X, true
				}
			}
		}
	}
	return nil, false
}

func isZeroConst(k *ssa.Const) bool {
	if k.Value == nil {
		return true
	}
	switch k.Value.String() {
	case "0", "false", `""`:
		return true
	}
	return false
}

// findTraversals locates recursive / worklist traversals over adjacency.
func findTraversals(c *Check) []traversal {
	var out []traversal
	for _, fn := range c.P.Funcs {
		if !(engine.InPackage(fn, "dag") || engine.InPackage(fn, "selection") || engine.InPackage(fn, "analysis") || engine.InPackage(fn, "cmd") || engine.InPackage(fn, "execution") || engine.InPackage(fn, "hashing") || engine.InPackage(fn, "completions")) {
			continue
		}
		for _, lp := range engine.LoopsOf(fn) {
			r := lp.RangedValue()
			if r == nil || !isAdjacency(c, r, 0) {
				continue
			}
			// the loop element
			for b := range lp.Body {
				for _, in := range b.Instrs {
					site, ok := in.(ssa.CallInstruction)
					if !ok {
						continue
					}
					// (a) recursion: the call can reach fn again (fn itself, or its top function through a closure variable)
					rec := false
					for _, cal := range c.G.CalleesOf(site) {
						if cal == fn || (cal != nil && c.G.ReachableFuncs([]*ssa.Function{cal}, nil)[fn]) {
							rec = true
						}
					}
					if rec {
						out = append(out, traversal{Fn: fn, Loop: lp, Site: site, Kind: "recursion"})
					}
				}
			}
		}
		// (b) worklist: an outer loop pops from a slice that the body extends with adjacency
		for _, lp := range engine.LoopsOf(fn) {
			for b := range lp.Body {
				for _, in := range b.Instrs {
					call, ok := in.(*ssa.Call)
					if !ok {
						continue
					}
					bi, ok := call.Call.Value.(*ssa.Builtin)
					if !ok || bi.Name() != "append" || len(call.Call.Args) < 2 {
						continue
					}
					// pushed values are adjacency (spread) or elements of an adjacency loop
					pushAdj := false
					for _, a := range call.Call.Args[1:] {
						if isAdjacency(c, a, 0) {
							pushAdj = true
						}
						// a frame (struct literal) that carries an adjacency list or a neighbour
						for _, fv := range frameFieldValues(a) {
							if isAdjacency(c, fv, 0) {
								pushAdj = true
							}
						}
					}
					if !pushAdj {
						if inner := engine.LoopOf(call); inner != nil && inner != lp && inner.RangedValue() != nil && isAdjacency(c, inner.RangedValue(), 0) {
							pushAdj = true
						}
					}
					if !pushAdj {
						continue
					}
					// the appended-to slice is consumed (indexed / sliced / len-tested) by the outer loop header or body
					if !worklistOf(lp, call) {
						continue
					}
					out = append(out, traversal{Fn: fn, Loop: lp, Site: call, Kind: "worklist"})
				}
			}
		}
	}
	// (c) worklist fed through a helper: the helper ranges over adjacency and returns the neighbours that
	// still have to be visited; its caller appends them to the list it pops from. The helper's append is
	// the push: the never-seen test and the mark belong there.
	for _, fn := range c.P.Funcs {
		if !(engine.InPackage(fn, "dag") || engine.InPackage(fn, "selection") || engine.InPackage(fn, "analysis") || engine.InPackage(fn, "cmd") || engine.InPackage(fn, "execution") || engine.InPackage(fn, "hashing")) {
			continue
		}
		if fn.Signature.Results().Len() == 0 {
			continue
		}
		if _, isSlice := fn.Signature.Results().At(0).Type().Underlying().(*types.Slice); !isSlice {
			continue
		}
		// result spread into an append inside a loop of a caller
		feedsWorklist := false
		for _, cs := range c.G.CallersOf(fn) {
			v := cs.Value()
			if v == nil || cs.Parent() == fn {
				continue
			}
			var results []ssa.Value
			if fn.Signature.Results().Len() == 1 {
				results = append(results, v)
			} else {
				for _, ref := range *v.Referrers() {
					if ex, ok := ref.(*ssa.Extract); ok && ex.Index == 0 {
						results = append(results, ex)
					}
				}
			}
			for _, r := range results {
				for _, ref := range *r.Referrers() {
					if call, ok := ref.(*ssa.Call); ok {
						if bi, ok := call.Call.Value.(*ssa.Builtin); ok && bi.Name() == "append" && len(call.Call.Args) == 2 && call.Call.Args[1] == r && engine.InLoop(call) {
							feedsWorklist = true
						}
					}
				}
			}
		}
		if !feedsWorklist {
			continue
		}
		for _, lp := range engine.LoopsOf(fn) {
			r := lp.RangedValue()
			if r == nil || !isAdjacency(c, r, 0) {
				continue
			}
			for b := range lp.Body {
				for _, in := range b.Instrs {
					call, ok := in.(*ssa.Call)
					if !ok {
						continue
					}
					bi, ok := call.Call.Value.(*ssa.Builtin)
					if !ok || bi.Name() != "append" || !types.Identical(call.Type(), fn.Signature.Results().At(0).Type()) {
						continue
					}
					out = append(out, traversal{Fn: fn, Loop: lp, Site: call, Kind: "recursion"})
				}
			}
		}
	}
	sort.Slice(out, func(i, j int) bool {
		a, b := c.P.FuncName(out[i].Fn), c.P.FuncName(out[j].Fn)
		if a != b {
			return a < b
		}
		return out[i].Site.Pos() < out[j].Site.Pos()
	})
	return out
}

// frameFieldValues: for `append(stack, T{f: v, ...})` (or &T{...}) the values stored into the fields of the
// pushed composite literal.
func frameFieldValues(arg ssa.Value) []ssa.Value {
	var elems []ssa.Value
	if sl, ok := arg.(*ssa.Slice); ok {
		if al, ok := sl.X.(*ssa.Alloc); ok {
			for _, ref := range *al.Referrers() {
				if ia, ok := ref.(*ssa.IndexAddr); ok {
					for _, r2 := range *ia.Referrers() {
						if st, ok := r2.(*ssa.Store); ok && st.Addr == ssa.Value(ia) {
							elems = append(elems, st.Val)
						}
					}
				}
			}
		}
	} else {
		elems = append(elems, arg)
	}
	var out []ssa.Value
	for _, e := range elems {
		var lit *ssa.Alloc
		switch x := e.(type) {
		case *ssa.Alloc:
			lit = x
		case *ssa.UnOp:
			lit, _ = x.X.(*ssa.Alloc)
		}
		if lit == nil {
			continue
		}
		for _, ref := range *lit.Referrers() {
			if fa, ok := ref.(*ssa.FieldAddr); ok {
				for _, r2 := range *fa.Referrers() {
					if st, ok := r2.(*ssa.Store); ok && st.Addr == ssa.Value(fa) {
						out = append(out, st.Val)
					}
				}
			}
		}
	}
	return out
}

// worklistOf: the slice extended by `app` is the one the loop `lp` pops from.
func worklistOf(lp *engine.Loop, app *ssa.Call) bool {
	roots := sliceRoots(app)
	// the outermost loop containing the append whose header tests len(worklist) or which indexes it
	for b := range lp.Body {
		for _, in := range b.Instrs {
			switch x := in.(type) {
			case *ssa.Call:
				if bi, ok := x.Call.Value.(*ssa.Builtin); ok && bi.Name() == "len" && b == lp.Header {
					if r := sliceRoots(x.Call.Args[0]); intersects(r, roots) {
						return true
					}
				}
			}
		}
	}
	// only the outermost matching loop counts: require that the header's condition involves len of the slice
	return false
}

func intersects(a, b map[ssa.Value]bool) bool {
	for x := range a {
		if b[x] {
			return true
		}
	}
	return false
}

func ruleTraversals(c *Check, rule string, onlyDupFree bool) {
	c.Rule(rule, "each recursive call / worklist push in a loop over graph adjacency is reachable (within the loop body, for worklists within the pop iteration) only through a 'never seen' branch of a per-node mark, and that mark is set on every path (before the descent, or after it on every path to return)", map[bool]int{true: 3, false: 6}[onlyDupFree])
	tabled := map[string]string{
		"cmd/cmds.buildTree":                          "renders the dependency *tree* for `grog graph -o tree`: one line per path is the output format, not a graph algorithm named by the property",
		"cmd/cmds.printTree":                          "tree rendering for `grog graph`, see buildTree",
		"(*execution.Executor).LoadDependencyOutputs": "the per-target OutputsLoaded mark is its visited set: an iteration leaves a dependency alone when the mark is set (R19b decides that the descent is reachable only past the mark-is-false branch or a failed restore), and the re-run that follows the descent sets the mark (R03h)",
	}
	seenFn := map[string]bool{}
	for _, t := range findTraversals(c) {
		if onlyDupFree && !engine.InPackage(t.Fn, "dag") {
			continue
		}
		fname := c.P.FuncName(t.Fn)
		key := "visit-once/" + fname
		if why, ok := tabled[c.P.FuncName(engine.TopFunc(t.Fn))]; ok {
			if !seenFn[key] {
				c.OK(rule, key, "tabled: "+why, c.P.InstrPos(t.Site))
			}
			seenFn[key] = true
			continue
		}
		seenFn[key] = true
		// region start: for recursion the body of the adjacency loop; for worklists the body of the pop loop
		var bodyEntry *ssa.BasicBlock
		for _, s := range t.Loop.Header.Succs {
			if t.Loop.Body[s] {
				bodyEntry = s
			}
		}
		// candidate marks: every map (or selection flag) some branch of the function tests for "never seen"
		var marks []ssa.Value
		for _, b := range t.Fn.Blocks {
			for i := range b.Succs {
				if a, ok := engine.EdgeAtom(b, i); ok {
					if m, ok := neverSeenAtom(c, a); ok {
						dup := false
						for _, x := range marks {
							if sameMark(x, m) {
								dup = true
							}
						}
						if !dup {
							marks = append(marks, m)
						}
					}
				}
			}
		}
		start := firstInstrBefore(bodyEntry)
		// the guard and the mark that is set must be the same map: "not in the memo" does not make a
		// node visited-once when what gets marked is another set
		guarded, okMark := false, false
		for _, m := range marks {
			cut := engine.CutEdgesWhere(func(a engine.Atom) bool {
				x, ok := neverSeenAtom(c, a)
				return ok && sameMark(x, m)
			})
			reach, _ := engine.PathExists(t.Fn, start, engine.IsInstr(t.Site), engine.PathQuery{CutEdge: cut})
			if t.Kind == "recursion" && reach {
				// the guard may sit at the top of the function instead (visited check on the parameter before the loop)
				reach, _ = engine.PathExists(t.Fn, nil, engine.IsInstr(t.Site), engine.PathQuery{CutEdge: cut})
			}
			if reach {
				continue
			}
			guarded = true
			if markAlwaysSet(c, t, []ssa.Value{m}) {
				okMark = true
			}
		}
		if !guarded {
			c.Bad(rule, key, fmt.Sprintf("the %s at %s descends into a neighbour without a 'never seen' test: every path to a node is walked separately, which is exponential on diamond-shaped graphs (and the result lists a node once per path)", t.Kind, c.P.InstrPos(t.Site)), c.P.InstrPos(t.Site))
			continue
		}
		// the mark must be set on every path
		if !okMark {
			c.Bad(rule, key, "the per-node mark that guards the descent is not set on every path (conditional memoisation, or the map that is tested is not the map that is marked): unmarked nodes are re-expanded once per path reaching them", c.P.InstrPos(t.Site))
			continue
		}
		c.OK(rule, key, fmt.Sprintf("%s guarded by a never-seen test on a per-node mark that is always set", t.Kind), c.P.InstrPos(t.Site))
	}
}

func sameMark(a, b ssa.Value) bool {
	return a == b || sameSlice(a, b) || sameVar(a, b) || engine.ExprKey(a) == engine.ExprKey(b)
}

// markAlwaysSet: a MapUpdate on one of the mark maps (or a Select() call for the
// IsSelected mark) dominates the descent, or follows it on every path to return.
func markAlwaysSet(c *Check, t traversal, marks []ssa.Value) bool {
	fns := engine.AnonFuncsDeep(engine.TopFunc(t.Fn))
	isMarkSet := func(in ssa.Instruction) bool {
		switch x := in.(type) {
		case *ssa.MapUpdate:
			for _, m := range marks {
				if sameSlice(x.Map, m) || sameVar(x.Map, m) || engine.ExprKey(x.Map) == engine.ExprKey(m) {
					return true
				}
			}
		case *ssa.Call:
			if x.Call.IsInvoke() && x.Call.Method.Name() == "Select" {
				return true
			}
		}
		return false
	}
	_ = fns
	// (pre) every path from function entry to the site passes a mark-set
	if reach, _ := engine.PathExists(t.Fn, nil, engine.IsInstr(t.Site), engine.PathQuery{CutInstr: isMarkSet}); !reach {
		return true
	}
	// (post) every path from the site to a return passes a mark-set
	isRet := func(in ssa.Instruction) bool { _, r := in.(*ssa.Return); return r }
	if reach, _ := engine.PathExists(t.Fn, t.Site, isRet, engine.PathQuery{CutInstr: isMarkSet}); !reach {
		return true
	}
	// in-degree style: the decrement (MapUpdate) happens in the same block before the test
	return false
}

var _ = strings.Contains
