package rules

import (
	"go/constant"
	"go/types"
	"strconv"

	"golang.org/x/tools/go/ssa"

	"grogverif/engine"
)

// Root-package encoding. The root package has two spellings on its way in ("." from
// filepath.Rel, "" in labels); label equality — and with it the duplicate-label test, the
// dependency lookup and the selection — is string equality, so every label must be built
// from the canonical spelling. The rule is a contradiction rule (Engler et al.): a function
// that compares a string against "." (or hands it to a normaliser) believes the value may be
// "."; every label.TargetLabel it then builds from that value (directly, or through a helper
// that stores its parameter into the Package field without normalising it) must be built from
// the normalised value.

func isDotConst(v ssa.Value) bool {
	k, ok := v.(*ssa.Const)
	return ok && k.Value != nil && k.Value.Kind() == constant.String && constant.StringVal(k.Value) == "."
}

// neDot is the edge predicate "v != \".\"" for one value.
func neDot(v ssa.Value) func(b *ssa.BasicBlock, i int) bool {
	return engine.CutEdgesWhere(func(a engine.Atom) bool {
		if a.Op != "ne" || a.Other == nil {
			return false
		}
		return (a.V == v && isDotConst(a.Other)) || (a.Other == v && isDotConst(a.V))
	})
}

type rootPkg struct {
	c *Check
	// rawSink[fn][i]: parameter i of fn reaches a TargetLabel.Package store un-normalised
	rawSink map[*ssa.Function]map[int]bool
	busy    map[*ssa.Function]bool
}

func isStringType(t types.Type) bool {
	b, ok := t.Underlying().(*types.Basic)
	return ok && b.Info()&types.IsString != 0
}

// normaliser: a helper whose every returned string is a constant or its parameter under a != "." edge
func (r *rootPkg) normaliser(call *ssa.Call) bool {
	h := call.Common().StaticCallee()
	if h == nil || len(h.Blocks) == 0 || h.Signature.Results().Len() != 1 || !isStringType(h.Signature.Results().At(0).Type()) {
		return false
	}
	tests := false
	for _, ret := range engine.Returns(h) {
		if !r.normalAt(h, ret.Results[0], ret, map[ssa.Value]bool{}) {
			return false
		}
	}
	for _, b := range h.Blocks {
		for i := range b.Succs {
			if a, ok := engine.EdgeAtom(b, i); ok && (a.Op == "ne" || a.Op == "eq") && a.Other != nil && (isDotConst(a.Other) || isDotConst(a.V)) {
				tests = true
			}
		}
	}
	return tests
}

// normalAt: v, as used by instruction use, cannot be the raw "." spelling
func (r *rootPkg) normalAt(fn *ssa.Function, v ssa.Value, use ssa.Instruction, seen map[ssa.Value]bool) bool {
	if seen[v] {
		return true
	}
	seen[v] = true
	switch x := v.(type) {
	case *ssa.Const:
		return !isDotConst(x)
	case *ssa.Call:
		if r.normaliser(x) {
			return true
		}
	case *ssa.Phi:
		for i, e := range x.Edges {
			if i >= len(x.Block().Preds) {
				return false
			}
			pred := x.Block().Preds[i]
			cut := neDot(e)
			edgeOK := false
			for si, sb := range pred.Succs {
				if sb == x.Block() && cut(pred, si) {
					edgeOK = true
				}
			}
			if edgeOK {
				continue
			}
			term := pred.Instrs[len(pred.Instrs)-1]
			if r.normalAt(fn, e, term, seen) {
				continue
			}
			return false
		}
		return true
	}
	if use == nil {
		return false
	}
	reach, _ := engine.PathExists(fn, nil, engine.IsInstr(use), engine.PathQuery{CutEdge: neDot(v), Shallow: true})
	return !reach
}

// derivedFrom: v is p, or a phi over values derived from p, or a normaliser applied to one
func derivedFrom(v, p ssa.Value, seen map[ssa.Value]bool) bool {
	if v == p {
		return true
	}
	if seen[v] {
		return false
	}
	seen[v] = true
	switch x := v.(type) {
	case *ssa.Phi:
		for _, e := range x.Edges {
			if derivedFrom(e, p, seen) {
				return true
			}
		}
	case *ssa.Call:
		if h := x.Common().StaticCallee(); h != nil && x.Common().Signature().Results().Len() == 1 && isStringType(x.Type()) {
			for _, a := range x.Common().Args {
				if isStringType(a.Type()) && derivedFrom(a, p, seen) && len(x.Common().Args) == 1 {
					return true
				}
			}
		}
	}
	return false
}

type pkgUse struct {
	v   ssa.Value
	at  ssa.Instruction
	how string
}

// packageUses lists where fn stores a string into TargetLabel.Package or passes one to a raw sink
func (r *rootPkg) packageUses(fn *ssa.Function, depth int) []pkgUse {
	var out []pkgUse
	for _, b := range fn.Blocks {
		for _, in := range b.Instrs {
			switch x := in.(type) {
			case *ssa.Store:
				fa, ok := x.Addr.(*ssa.FieldAddr)
				if !ok {
					continue
				}
				pt, ok := fa.X.Type().Underlying().(*types.Pointer)
				if !ok || engine.TypeKey(pt.Elem()) != "label.TargetLabel" {
					continue
				}
				st, _ := pt.Elem().Underlying().(*types.Struct)
				if st == nil || st.Field(fa.Field).Name() != "Package" {
					continue
				}
				out = append(out, pkgUse{x.Val, x, "stored into TargetLabel.Package"})
			case *ssa.Call:
				h := x.Common().StaticCallee()
				if h == nil || depth <= 0 || !engine.IsFirstParty(pkgPathOf(h)) {
					continue
				}
				sinks := r.rawSinks(h, depth-1)
				for i, a := range x.Common().Args {
					if sinks[i] {
						out = append(out, pkgUse{a, x, "passed to " + r.c.P.FuncName(h) + ", which stores it into TargetLabel.Package as it is"})
					}
				}
			}
		}
	}
	return out
}

func pkgPathOf(fn *ssa.Function) string {
	if fn.Pkg == nil || fn.Pkg.Pkg == nil {
		return ""
	}
	return fn.Pkg.Pkg.Path()
}

func (r *rootPkg) rawSinks(fn *ssa.Function, depth int) map[int]bool {
	if m, ok := r.rawSink[fn]; ok {
		return m
	}
	if r.busy[fn] || len(fn.Blocks) == 0 {
		return nil
	}
	r.busy[fn] = true
	m := map[int]bool{}
	for _, u := range r.packageUses(fn, depth) {
		for i, p := range fn.Params {
			if !isStringType(p.Type()) || !derivedFrom(u.v, p, map[ssa.Value]bool{}) {
				continue
			}
			if !r.normalAt(fn, u.v, u.at, map[ssa.Value]bool{}) {
				m[i] = true
			}
		}
	}
	r.busy[fn] = false
	r.rawSink[fn] = m
	return m
}

// believesDot: fn compares a value derived from p against "." or hands it to a normaliser
func (r *rootPkg) believesDot(fn *ssa.Function, p ssa.Value) bool {
	for _, b := range fn.Blocks {
		for _, in := range b.Instrs {
			switch x := in.(type) {
			case *ssa.BinOp:
				if (isDotConst(x.Y) && derivedFrom(x.X, p, map[ssa.Value]bool{})) || (isDotConst(x.X) && derivedFrom(x.Y, p, map[ssa.Value]bool{})) {
					return true
				}
			case *ssa.Call:
				if r.normaliser(x) && len(x.Common().Args) == 1 && derivedFrom(x.Common().Args[0], p, map[ssa.Value]bool{}) {
					return true
				}
			}
		}
	}
	return false
}

func ruleRootPackageCanonical(c *Check, rule string, min int) {
	c.Rule(rule, "a function that tests a package path against \".\" (so believes it may be the raw spelling of the root package) builds every label.TargetLabel from the normalised value: each store of that path into TargetLabel.Package, and each hand-over to a helper that stores it there as it is, is reachable only past the != \".\" branch or the reassignment", min)
	r := &rootPkg{c: c, rawSink: map[*ssa.Function]map[int]bool{}, busy: map[*ssa.Function]bool{}}
	for _, fn := range c.P.Funcs {
		if len(fn.Blocks) == 0 || !engine.IsFirstParty(pkgPathOf(fn)) {
			continue
		}
		for _, p := range fn.Params {
			if !isStringType(p.Type()) || !r.believesDot(fn, p) {
				continue
			}
			n := 0
			for _, u := range r.packageUses(fn, 3) {
				if !derivedFrom(u.v, p, map[ssa.Value]bool{}) {
					continue
				}
				n++
				ok := r.normalAt(fn, u.v, u.at, map[ssa.Value]bool{})
				key := "root-encoding/" + c.P.FuncName(fn) + "/" + p.Name() + "#" + strconv.Itoa(n)
				c.Require(ok, rule, key, "the package path is "+u.how+" only after the \".\" spelling was replaced", "the package path is "+u.how+" on a path where it can still be \".\": the label //.:name is a different map key from //:name, so a dependency on the root-package node is reported missing (a valid graph is refused) and a duplicate of it in another BUILD file of the root directory is not noticed", c.P.InstrPos(u.at))
			}
		}
	}
}
