package rules

import (
	"fmt"
	"go/token"
	"go/types"
	"strings"

	"golang.org/x/tools/go/ssa"

	"grogverif/engine"
)

// Role-based anchors of the graph walker (internal/dag).
type walkerInfo struct {
	Walker       *types.Named
	Walk         *ssa.Function // spawns one routine per node
	Routine      *ssa.Function // per-node routine: waits for ready/cancel, calls the callback
	OnComplete   *ssa.Function // records a completion, releases dependants
	StartNode    *ssa.Function // sends `ready`
	CancelNode   *ssa.Function // closes `cancel`
	CallbackCall ssa.CallInstruction
	Spawns       []*ssa.Go // go Routine(...)
}

var (
	fReady     = fk("dag.nodeInfo", "ready")
	fCancel    = fk("dag.nodeInfo", "cancel")
	fInEdges   = fk("dag.DirectedTargetGraph", "inEdges")
	fOutEdges  = fk("dag.DirectedTargetGraph", "outEdges")
	fIsSuccess = fk("dag.Completion", "IsSuccess")
)

func isLoadOfField(v ssa.Value, key engine.FieldKey) bool {
	switch x := v.(type) {
	case *ssa.UnOp:
		if fa, ok := x.X.(*ssa.FieldAddr); ok {
			return engine.FieldKeyOf(fa.X.Type(), fa.Field) == key
		}
	case *ssa.Field:
		return engine.FieldKeyOf(x.X.Type(), x.Field) == key
	}
	return false
}

func findWalker(c *Check, rule string) *walkerInfo {
	w := &walkerInfo{Walker: c.P.Type("dag", "Walker")}
	if w.Walker == nil {
		c.Unknown(rule, "anchor/dag.Walker", "anchor-unresolved: type dag.Walker not found", "-")
		return nil
	}
	cm := c.P.Type("dag", "CompletionMap")
	for _, fn := range c.P.Funcs {
		if !engine.InPackage(fn, "dag") {
			continue
		}
		for _, b := range fn.Blocks {
			for _, in := range b.Instrs {
				switch x := in.(type) {
				case *ssa.Call:
					if !x.Call.IsInvoke() && x.Call.StaticCallee() == nil {
						if _, isB := x.Call.Value.(*ssa.Builtin); !isB {
							if ld, ok := x.Call.Value.(*ssa.UnOp); ok {
								if fa, ok := ld.X.(*ssa.FieldAddr); ok && engine.TypeKey(fa.X.Type()) == "dag.Walker" {
									if _, isSig := ld.Type().Underlying().(*types.Signature); isSig && len(x.Call.Args) == 2 {
										w.Routine = fn
										w.CallbackCall = x
									}
								}
							}
						}
					}
					if b, ok := x.Call.Value.(*ssa.Builtin); ok && b.Name() == "close" && isLoadOfField(x.Call.Args[0], fCancel) {
						w.CancelNode = engine.TopFunc(fn)
					}
				case *ssa.MapUpdate:
					// the completion handler records the completion it was handed (a snapshot copy
					// of the map elsewhere is not the handler)
					if cm != nil && types.Identical(x.Map.Type(), cm) {
						for _, p := range fn.Params {
							if engine.TypeKey(p.Type()) == "dag.Completion" {
								w.OnComplete = fn
							}
						}
					}
				case *ssa.Send:
					if isLoadOfField(x.Chan, fReady) {
						w.StartNode = engine.TopFunc(fn)
					}
				}
			}
		}
	}
	// the completion handler is the function the routine hands the completion to: a helper that only records
	// it (`recordCompletionLocked`) is lifted to its only caller that also takes the completion
	for i := 0; i < 3 && w.OnComplete != nil; i++ {
		var up *ssa.Function
		multi := false
		for _, cs := range c.G.CallersOf(w.OnComplete) {
			p := engine.TopFunc(cs.Parent())
			if p == nil || p == w.OnComplete || !engine.InPackage(p, "dag") {
				continue
			}
			takes := false
			for _, prm := range p.Params {
				if engine.TypeKey(prm.Type()) == "dag.Completion" {
					takes = true
				}
			}
			if !takes {
				continue
			}
			if up != nil && up != p {
				multi = true
			}
			up = p
		}
		if up == nil || multi {
			break
		}
		w.OnComplete = up
	}
	// the cancel function of the walker is the walker's own method through which the channel is closed: a
	// closer that lives on the per-node record (or behind sync.Once.Do) is lifted to its only caller
	for i := 0; i < 4 && w.CancelNode != nil; i++ {
		if rv := w.CancelNode.Signature.Recv(); rv != nil && engine.TypeKey(rv.Type()) == "dag.Walker" {
			break
		}
		var up *ssa.Function
		multi := false
		for _, cs := range c.G.CallersOf(w.CancelNode) {
			p := engine.TopFunc(cs.Parent())
			if p == nil || p == w.CancelNode || !engine.InPackage(p, "dag") {
				continue
			}
			if up != nil && up != p {
				multi = true
			}
			up = p
		}
		if up == nil || multi {
			break
		}
		w.CancelNode = up
	}
	if w.Routine != nil {
		for _, fn := range c.P.Funcs {
			for _, b := range fn.Blocks {
				for _, in := range b.Instrs {
					if g, ok := in.(*ssa.Go); ok {
						for _, cal := range c.G.Callees[g] {
							if cal == w.Routine {
								w.Walk = fn
								w.Spawns = append(w.Spawns, g)
							}
						}
					}
				}
			}
		}
	}
	missing := []string{}
	for name, f := range map[string]*ssa.Function{"walk": w.Walk, "node-routine": w.Routine, "completion-handler": w.OnComplete, "ready-sender": w.StartNode, "cancel-closer": w.CancelNode} {
		if f == nil {
			missing = append(missing, name)
		}
	}
	if len(missing) > 0 {
		c.Unknown(rule, "anchor/walker-roles", "anchor-unresolved: could not identify walker roles: "+strings.Join(missing, ", "), "-")
		return nil
	}
	return w
}

// ---------------------------------------------------------------------------
// R03a: the release rule is a ∀ over the dependant's in-edges requiring success.

func ruleRelease(c *Check, rule string, w *walkerInfo) {
	ruleReleaseIn(c, rule, w, w.OnComplete, 0)
}

func ruleReleaseIn(c *Check, rule string, w *walkerInfo, fn *ssa.Function, depth int) {
	sites := sitesReaching(c, fn, fnSet(w.StartNode))
	fname := c.P.FuncName(w.OnComplete)
	if len(sites) == 0 {
		c.Bad(rule, "release/"+fname, "the completion handler never releases a dependant", c.P.Pos(fn.Pos()))
		return
	}
	for _, site := range sites {
		key := "release-forall-deps/" + fname
		pos := c.P.InstrPos(site)
		args := site.Common().Args
		dependant := args[len(args)-1]
		// guard: the innermost If whose true edge is required to reach the site and whose condition is a phi (flag)
		var guard ssa.Value
		for _, b := range fn.Blocks {
			ifi, ok := lastIf(b)
			if !ok {
				continue
			}
			a := engine.CondAtom(ifi.Cond, true)
			if a.Op != "true" {
				continue
			}
			if _, isPhi := a.V.(*ssa.Phi); !isPhi {
				continue
			}
			v := a.V
			if ok, _ := engine.PathExists(fn, nil, engine.IsInstr(site), engine.PathQuery{CutEdge: engine.CutEdgesWhere(func(x engine.Atom) bool { return x.Op == "true" && x.V == v })}); !ok {
				guard = v
			}
		}
		if guard == nil {
			// helper style: `if w.allDepsDone(dependant) { start }`
			if why, ok, found := releaseGuardedByHelper(c, fn, site, dependant); found {
				c.Require(ok, rule, key, "released only when a helper that ranges over all of inEdges[dependant] and returns false on the first missing or unsuccessful dependency returned true", why, pos)
				continue
			}
			// the release loop may have been moved into a helper of the completion handler: judge it there
			if call, ok := site.(*ssa.Call); ok && depth < 2 {
				if h := call.Call.StaticCallee(); h != nil && h != w.StartNode && len(h.Blocks) > 0 && engine.InPackage(h, "dag") && len(sitesReaching(c, h, fnSet(w.StartNode))) > 0 && len(engine.LoopsOf(h)) > 0 {
					ruleReleaseIn(c, rule, w, h, depth+1)
					continue
				}
			}
			c.Unknown(rule, key, "the release of a dependant is not guarded by a recognised all-dependencies-done test (flag-style ∀ loop or bool helper expected)", pos)
			continue
		}
		phi := guard.(*ssa.Phi)
		lp := engine.LoopOf(phi)
		if lp == nil || lp.Header != phi.Block() {
			c.Unknown(rule, key, "the all-done flag is not a loop-carried variable", pos)
			continue
		}
		// (1) full range over inEdges[dependant]
		ranged := lp.RangedValue()
		if ranged == nil {
			c.Bad(rule, key, "the dependency loop is not a full range (it may stop before the last dependency)", pos)
			continue
		}
		okRange := false
		why := "the loop does not range over the dependant's in-edges"
		switch r := ranged.(type) {
		case *ssa.Lookup:
			if isLoadOfField(r.X, fInEdges) {
				if call, _ := engine.CallOf(r.Index); call != nil && call.Common().IsInvoke() && call.Common().Method.Name() == "GetLabel" && sameVar(call.Common().Value, dependant) {
					okRange = true
				} else {
					why = "the in-edge list is not the one of the dependant being released"
				}
			} else if isLoadOfField(r.X, fOutEdges) {
				why = "the loop ranges over out-edges (dependants), not the dependant's dependencies"
			}
		case *ssa.Call:
			if strings.HasSuffix(engine.CalleeName(r), "DirectedTargetGraph).GetDependencies") && len(r.Call.Args) == 2 && sameVar(r.Call.Args[1], dependant) {
				okRange = true
			}
		}
		if !okRange {
			c.Bad(rule, key, why, pos)
			continue
		}
		// (2) bad edges: lookup-miss and !IsSuccess
		type cfgEdge struct {
			b *ssa.BasicBlock
			i int
		}
		var bad []cfgEdge
		haveMiss, haveFail := false, false
		for b := range lp.Body {
			for i := range b.Succs {
				a, ok := engine.EdgeAtom(b, i)
				if !ok {
					continue
				}
				if a.Op == "false" {
					if ex, ok := a.V.(*ssa.Extract); ok && ex.Index == 1 {
						if lk, ok := ex.Tuple.(*ssa.Lookup); ok && lk.CommaOk && engine.TypeKey(lk.X.Type()) == "dag.CompletionMap" {
							bad = append(bad, cfgEdge{b, i})
							haveMiss = true
						}
					}
					if isLoadOfField(a.V, fIsSuccess) {
						bad = append(bad, cfgEdge{b, i})
						haveFail = true
					}
				}
			}
		}
		if !haveMiss || !haveFail {
			c.Bad(rule, key, fmt.Sprintf("a dependency that %s does not block the release", map[bool]string{true: "failed", false: "has not completed yet"}[haveMiss]), pos)
			continue
		}
		afterBad := map[*ssa.BasicBlock]bool{}
		for _, e := range bad {
			for b := range engine.ReachableWithin(e.b.Succs[e.i], lp.Body, lp.Header) {
				afterBad[b] = true
			}
		}
		// (3) flag sources
		problem := ""
		for _, lf := range engine.PhiLeaves(phi) {
			inLoop := lf.Pred != nil && lp.Body[lf.Pred]
			if lf.Self {
				if inLoop && afterBad[lf.Pred] {
					problem = "after a dependency was found missing or failed the flag can keep its previous value"
				}
				continue
			}
			bv, isConst := engine.BoolConst(lf.Val)
			if !isConst {
				problem = "the flag receives a non-constant value"
				continue
			}
			if bv && inLoop {
				problem = "the flag is set back to true inside the loop: one successful dependency hides an earlier missing/failed one"
			}
			if !bv && !inLoop {
				// false from outside the loop is harmless (never releases)
			}
		}
		// every bad edge must lead to a `false` source: all latch edges reachable after a bad edge carry false
		for i, e := range phi.Edges {
			pred := phi.Block().Preds[i]
			if lp.Body[pred] && afterBad[pred] {
				if bv, ok := engine.BoolConst(e); !(ok && !bv) {
					problem = "a missing or failed dependency does not clear the flag"
				}
			}
		}
		for _, e := range bad {
			if e.b.Succs[e.i] == lp.Header {
				for i, pe := range phi.Edges {
					if phi.Block().Preds[i] == e.b {
						if bv, ok := engine.BoolConst(pe); !(ok && !bv) {
							problem = "a missing or failed dependency does not clear the flag"
						}
					}
				}
			}
		}
		// (3b) every iteration examines the dependency: no path around the completion lookup
		if lp.IterationCanSkip(func(in ssa.Instruction) bool {
			lk, ok := in.(*ssa.Lookup)
			return ok && lk.CommaOk && engine.TypeKey(lk.X.Type()) == "dag.CompletionMap"
		}, nil) {
			problem = "an iteration can skip a dependency without looking its completion up (conditional `continue`): dependencies of the skipped kind (e.g. aliases) no longer hold the dependant back"
		}
		// (4) early exits must come from bad paths only
		for b := range lp.Body {
			if b == lp.Header {
				continue
			}
			for _, s := range b.Succs {
				if !lp.Body[s] && !afterBad[b] {
					if ok, _ := engine.PathExists(fn, s.Instrs[0], engine.IsInstr(site), engine.PathQuery{}); ok || s.Instrs[0] == ssa.Instruction(site) {
						problem = "the dependency loop can be left early on a satisfied dependency and still release the dependant"
					}
				}
			}
		}
		if problem != "" {
			c.Bad(rule, key, problem, pos)
			continue
		}
		c.OK(rule, key, "released only when a flag that starts true before a full range over inEdges[dependant] and is cleared on every missing or unsuccessful dependency is still true", pos)
	}
	// a failed completion never reaches a release (judged in the completion handler itself: a release helper
	// is one of its sites)
	if depth > 0 {
		return
	}
	var compParam ssa.Value
	for _, p := range fn.Params {
		if engine.TypeKey(p.Type()) == "dag.Completion" {
			compParam = p
		}
	}
	if compParam == nil {
		c.Unknown(rule, "failed-never-releases/"+fname, "completion parameter not found", "-")
		return
	}
	for _, site := range sites {
		ok, _ := engine.PathExists(fn, nil, engine.IsInstr(site), engine.PathQuery{CutEdge: engine.CutEdgesWhere(func(a engine.Atom) bool {
			return a.Op == "true" && isLoadOfField(a.V, fIsSuccess) && completionIsParam(a.V, compParam)
		})})
		c.Require(!ok, rule, "failed-never-releases/"+fname, "every release site is dominated by the IsSuccess branch of the node's own completion", "a failed node can release its dependants", c.P.InstrPos(site))
	}
}

func completionIsParam(load ssa.Value, param ssa.Value) bool {
	u, ok := load.(*ssa.UnOp)
	if !ok {
		if f, ok := load.(*ssa.Field); ok {
			return f.X == param
		}
		return false
	}
	fa, ok := u.X.(*ssa.FieldAddr)
	if !ok {
		return false
	}
	if al, ok := fa.X.(*ssa.Alloc); ok {
		// local copy of the parameter
		for _, r := range *al.Referrers() {
			if st, ok := r.(*ssa.Store); ok && st.Addr == ssa.Value(al) && st.Val == param {
				return true
			}
		}
	}
	return fa.X == param
}

func lastIf(b *ssa.BasicBlock) (*ssa.If, bool) {
	if len(b.Instrs) == 0 {
		return nil, false
	}
	i, ok := b.Instrs[len(b.Instrs)-1].(*ssa.If)
	return i, ok
}

// ---------------------------------------------------------------------------
// R03b: the callback runs at most once per routine, only after `ready`, one routine per selected node.

func ruleOncePerNode(c *Check, rule string, w *walkerInfo) {
	rname := c.P.FuncName(w.Routine)
	// exactly one callback call site in the whole program
	n := 0
	for _, s := range c.G.Sites {
		if ld, ok := s.Common().Value.(*ssa.UnOp); ok && !s.Common().IsInvoke() {
			if fa, ok := ld.X.(*ssa.FieldAddr); ok && engine.TypeKey(fa.X.Type()) == "dag.Walker" {
				if _, isSig := ld.Type().Underlying().(*types.Signature); isSig && len(s.Common().Args) == 2 {
					n++
				}
			}
		}
	}
	c.Require(n == 1 && !engine.InLoop(w.CallbackCall), rule, "callback-once/"+rname, "the walk callback is invoked at exactly one site, outside any loop", fmt.Sprintf("the walk callback has %d call sites or is invoked in a loop: a node could be executed more than once", n), c.P.InstrPos(w.CallbackCall))
	// only after ready
	var sel *ssa.Select
	readyIdx := -1
	for _, b := range w.Routine.Blocks {
		for _, in := range b.Instrs {
			if s, ok := in.(*ssa.Select); ok {
				for i, st := range s.States {
					if st.Dir == types.RecvOnly && isLoadOfField(st.Chan, fReady) {
						sel = s
						readyIdx = i
					}
				}
			}
			if u, ok := in.(*ssa.UnOp); ok && u.Op == token.ARROW && isLoadOfField(u.X, fReady) {
				// plain receive
				if ok, _ := engine.PathExists(w.Routine, nil, engine.IsInstr(w.CallbackCall), engine.PathQuery{CutInstr: engine.IsInstr(u)}); !ok {
					readyIdx = -2
				}
			}
		}
	}
	okReady := readyIdx == -2
	if sel != nil {
		idx := int64(readyIdx)
		reach, _ := engine.PathExists(w.Routine, nil, engine.IsInstr(w.CallbackCall), engine.PathQuery{CutEdge: engine.CutEdgesWhere(func(a engine.Atom) bool {
			if a.Op != "eq" {
				return false
			}
			ex, ok := a.V.(*ssa.Extract)
			if !ok || ex.Tuple != ssa.Value(sel) || ex.Index != 0 {
				return false
			}
			k, ok := a.Other.(*ssa.Const)
			return ok && k.Int64() == idx
		})})
		okReady = !reach
	}
	c.Require(okReady, rule, "callback-after-ready/"+rname, "the callback is reachable only through the receive on the node's ready channel", "the callback can run without the node having been released (ready not received)", c.P.InstrPos(w.CallbackCall))
	// spawn sites: in a range over the graph's nodes, guarded by GetIsSelected
	for _, g := range w.Spawns {
		key := "spawn-per-selected-node/" + c.P.FuncName(g.Parent())
		lp := engine.LoopOf(g)
		okLoop := lp != nil && lp.IsFullRange() && len(engine.LoopsContaining(g)) == 1
		okSel := !spawnOnlyForSelected(g.Parent(), g)
		c.Require(okLoop && !okSel, rule, key, "one routine is spawned per element of a single full range over the nodes, under the GetIsSelected() branch", fmt.Sprintf("routine spawn is not once-per-selected-node (single full range: %v, guarded by GetIsSelected: %v)", okLoop, !okSel), c.P.InstrPos(g))
	}
}

func isSelectedTrue(a engine.Atom) bool {
	call, _ := engine.CallOf(a.V)
	return a.Op == "true" && call != nil && call.Common().IsInvoke() && call.Common().Method.Name() == "GetIsSelected"
}

// spawnOnlyForSelected: the instruction is reachable only under GetIsSelected(),
// or only after a successful lookup in a local map that is filled exclusively
// under GetIsSelected() (the set of registered nodes).
func spawnOnlyForSelected(fn *ssa.Function, at ssa.Instruction) bool {
	if r, _ := engine.PathExists(fn, nil, engine.IsInstr(at), engine.PathQuery{CutEdge: engine.CutEdgesWhere(isSelectedTrue)}); !r {
		return true
	}
	registered := func(a engine.Atom) bool {
		if a.Op != "true" {
			return false
		}
		ex, ok := a.V.(*ssa.Extract)
		if !ok || ex.Index != 1 {
			return false
		}
		lk, ok := ex.Tuple.(*ssa.Lookup)
		if !ok || !lk.CommaOk {
			return false
		}
		// every update of that map happens under GetIsSelected()
		return mapFilledOnlyUnderSelected(fn, lk.X, 0)
	}
	r, _ := engine.PathExists(fn, nil, engine.IsInstr(at), engine.PathQuery{CutEdge: engine.CutEdgesWhere(func(a engine.Atom) bool { return isSelectedTrue(a) || registered(a) })})
	if !r {
		return true
	}
	// the instruction sits in a loop over a local list that is appended to only for selected nodes
	// (the routines to start are collected first and counted with one Add)
	if lp := engine.LoopOf(at); lp != nil && lp.RangedValue() != nil {
		if _, isSlice := lp.RangedValue().Type().Underlying().(*types.Slice); isSlice {
			n, all := 0, true
			for _, b := range fn.Blocks {
				for _, in := range b.Instrs {
					call, ok := in.(*ssa.Call)
					if !ok || in == at {
						continue
					}
					bi, isB := call.Call.Value.(*ssa.Builtin)
					if !isB || bi.Name() != "append" || lp.Body[call.Block()] || !sameSlice(call, lp.RangedValue()) {
						continue
					}
					n++
					if alp := engine.LoopOf(call); alp == nil || !alp.IsFullRange() || !spawnOnlyForSelected(fn, call) {
						all = false
					}
				}
			}
			if n > 0 && all {
				return true
			}
		}
	}
	return false
}

// mapFilledOnlyUnderSelected: the map value is a fresh map of fn whose every update happens under
// GetIsSelected(), or the result of a first-party function that returns such a map.
func mapFilledOnlyUnderSelected(fn *ssa.Function, m ssa.Value, depth int) bool {
	if depth > 3 {
		return false
	}
	orig := engine.Origins(m)
	if len(orig) == 0 {
		return false
	}
	for _, o := range orig {
		if o == nil {
			continue // the zero map: every lookup misses
		}
		switch x := o.(type) {
		case *ssa.MakeMap:
			owner := x.Parent()
			n := 0
			for _, b := range owner.Blocks {
				for _, in := range b.Instrs {
					mu, ok := in.(*ssa.MapUpdate)
					if !ok {
						continue
					}
					same := false
					for _, mo := range engine.Origins(mu.Map) {
						if mo == ssa.Value(x) {
							same = true
						}
					}
					if !same {
						continue
					}
					n++
					if r, _ := engine.PathExists(owner, nil, engine.IsInstr(mu), engine.PathQuery{CutEdge: engine.CutEdgesWhere(isSelectedTrue)}); r {
						return false
					}
				}
			}
			if n == 0 {
				return false
			}
			// the map must not be handed to anything that could add to it
			for _, ref := range *x.Referrers() {
				switch r := ref.(type) {
				case *ssa.MapUpdate, *ssa.Lookup, *ssa.Range, *ssa.Return, *ssa.DebugRef, *ssa.Phi, *ssa.Store:
				case *ssa.Call:
					if b, ok := r.Call.Value.(*ssa.Builtin); ok && (b.Name() == "len" || b.Name() == "delete") {
						continue
					}
					// handed to a first-party function that only reads it (copies it into a registry, say)
					h := r.Call.StaticCallee()
					if h == nil || len(h.Blocks) == 0 {
						return false
					}
					for i, a := range r.Call.Args {
						if a == ssa.Value(x) && !mapParamOnlyRead(h, i, 0) {
							return false
						}
					}
				default:
					return false
				}
			}
		default:
			call, idx := engine.CallOf(o)
			if call == nil {
				return false
			}
			h := call.Common().StaticCallee()
			if h == nil || len(h.Blocks) == 0 {
				return false
			}
			for _, r := range engine.Returns(h) {
				if idx >= len(r.Results) || !mapFilledOnlyUnderSelected(h, r.Results[idx], depth+1) {
					return false
				}
			}
		}
	}
	return true
}

// releaseGuardedByHelper: the release site is dominated by the true edge of a call
// H(dependant) to a first-party bool function that is a return-style ∀ over the
// dependant's in-edges. Returns (problem, ok, found).
func releaseGuardedByHelper(c *Check, fn *ssa.Function, site ssa.CallInstruction, dependant ssa.Value) (string, bool, bool) {
	for _, b := range fn.Blocks {
		ifi, ok := lastIf(b)
		if !ok {
			continue
		}
		a := engine.CondAtom(ifi.Cond, true)
		call, _ := engine.CallOf(a.V)
		if a.Op != "true" || call == nil || len(c.G.Callees[call]) != 1 {
			continue
		}
		v := a.V
		if r, _ := engine.PathExists(fn, nil, engine.IsInstr(site), engine.PathQuery{CutEdge: engine.CutEdgesWhere(func(x engine.Atom) bool { return x.Op == "true" && x.V == v })}); r {
			continue
		}
		h := c.G.Callees[call][0]
		if h.Signature.Results().Len() != 1 || h.Signature.Results().At(0).Type().String() != "bool" {
			continue
		}
		// which parameter receives the dependant
		var prm *ssa.Parameter
		for i, arg := range call.Common().Args {
			if sameVar(arg, dependant) && i < len(h.Params) {
				prm = h.Params[i]
			}
		}
		if prm == nil {
			return "the all-dependencies-done helper is not asked about the dependant being released", false, true
		}
		// the ∀ loop inside the helper
		var lp *engine.Loop
		for _, l := range engine.LoopsOf(h) {
			r := l.RangedValue()
			lk, ok := r.(*ssa.Lookup)
			if !ok {
				if cl, _ := engine.CallOf(r); cl != nil && strings.HasSuffix(engine.CalleeName(cl), "DirectedTargetGraph).GetDependencies") && len(cl.Common().Args) == 2 && sameVar(cl.Common().Args[1], prm) {
					lp = l
				}
				continue
			}
			if isLoadOfField(lk.X, fInEdges) {
				if k, _ := engine.CallOf(lk.Index); k != nil && k.Common().IsInvoke() && k.Common().Method.Name() == "GetLabel" && sameVar(k.Common().Value, prm) {
					lp = l
				}
			} else if isLoadOfField(lk.X, fOutEdges) {
				return "the helper ranges over out-edges (dependants), not the dependant's dependencies", false, true
			}
		}
		if lp == nil {
			return "the helper does not range over the in-edges of the node it is asked about (full range expected)", false, true
		}
		mayBeTrue := func(in ssa.Instruction) bool {
			r, ok := in.(*ssa.Return)
			if !ok {
				return false
			}
			if k, isK := engine.BoolConst(r.Results[0]); isK {
				return k
			}
			return true
		}
		// bad edges
		haveMiss, haveFail := false, false
		for bb := range lp.Body {
			for i := range bb.Succs {
				at, ok := engine.EdgeAtom(bb, i)
				if !ok || at.Op != "false" {
					continue
				}
				isBad := false
				if ex, ok := at.V.(*ssa.Extract); ok && ex.Index == 1 {
					if lk, ok := ex.Tuple.(*ssa.Lookup); ok && lk.CommaOk && engine.TypeKey(lk.X.Type()) == "dag.CompletionMap" {
						isBad, haveMiss = true, true
					}
				}
				if isLoadOfField(at.V, fIsSuccess) {
					isBad, haveFail = true, true
				}
				if !isBad {
					continue
				}
				first := bb.Succs[i].Instrs[0]
				if r, _ := engine.PathExists(h, first, mayBeTrue, engine.PathQuery{}); r || mayBeTrue(first) {
					return "after a missing or unsuccessful dependency the helper can still return true", false, true
				}
			}
		}
		if !haveMiss || !haveFail {
			return fmt.Sprintf("a dependency that %s does not make the helper return false", map[bool]string{true: "failed", false: "has not completed yet"}[haveMiss]), false, true
		}
		if w := lp.EarlyExitReaches(mayBeTrue); w != "" {
			return "the helper can return true before it has looked at every dependency: " + w, false, true
		}
		if lp.IterationCanSkip(func(in ssa.Instruction) bool {
			lk, ok := in.(*ssa.Lookup)
			return ok && lk.CommaOk && engine.TypeKey(lk.X.Type()) == "dag.CompletionMap"
		}, nil) {
			return "an iteration of the helper can skip a dependency without looking its completion up", false, true
		}
		// no `return true` before the loop
		if r, _ := engine.PathExists(h, nil, mayBeTrue, engine.PathQuery{CutInstr: func(in ssa.Instruction) bool { return in == lp.Header.Instrs[0] }}); r {
			return "the helper can return true without entering the dependency loop", false, true
		}
		return "", true, true
	}
	return "", false, false
}

// mapParamOnlyRead: the i-th parameter of h (a map) is only ranged over, looked up or measured, never updated,
// stored or handed on to something that could.
func mapParamOnlyRead(h *ssa.Function, i int, depth int) bool {
	if i >= len(h.Params) || depth > 2 {
		return false
	}
	p := h.Params[i]
	if p.Referrers() == nil {
		return true
	}
	for _, ref := range *p.Referrers() {
		switch r := ref.(type) {
		case *ssa.Lookup, *ssa.Range, *ssa.DebugRef:
		case *ssa.MapUpdate:
			if r.Map == ssa.Value(p) {
				return false
			}
		case *ssa.Call:
			if b, ok := r.Call.Value.(*ssa.Builtin); ok && b.Name() == "len" {
				continue
			}
			g := r.Call.StaticCallee()
			if g == nil || len(g.Blocks) == 0 {
				return false
			}
			for j, a := range r.Call.Args {
				if a == ssa.Value(p) && !mapParamOnlyRead(g, j, depth+1) {
					return false
				}
			}
		default:
			return false
		}
	}
	return true
}
