package rules

import (
	"go/token"
	"go/types"
	"strings"

	"golang.org/x/tools/go/ssa"

	"grogverif/engine"
)

func init() { register("C15", runC15) }

func runC15(c *Check, tier string) {
	c.Decides = "the minimal-mode hit sits under the same hit conditions as mode all and propagates the stored output hash; in minimal mode the executing method is reachable only after the dependency-output loading returned nil; the dependency-loading loop visits every direct dependency (no early return of a possibly-nil value) and re-runs a dependency only after loading that dependency's own dependencies; dependencies reached through aliases are not dropped; a failed lookup/restore of a dependency always leads to the recursive load and the re-run before the loader returns; the resolver keeps every dependency."
	c.NotDec = "lock-step equivalence of two builds, the bytes that are materialised, cache faults at run time."
	g := analyseGate(c, "R15a")
	ruleR15a(c, g)
	ruleR15b(c, g)
	ruleR15c(c)
	ruleR01b(c, "R15d")
	// a dependency whose restore failed must not be marked as loaded (all load tasks awaited, errors returned)
	ruleR01d(c, "R15e")
	// minimal mode loads exactly the dependencies the resolver hands back
	ruleResolverTotal(c, "R15f")
	// both modes restore through the same handlers
	useFamily(c, "R15g", famRestore, 20)
	ruleAliasChainsFollowed(c, "R15j", "dag", "analysis")
	ruleRerunBypassesGate(c, "R15k")
	ruleRerunOnlyWhenNeeded(c, "R15l")
	ruleLoadedMarkAfterLoads(c, "R15m")
	shareRule(c, "R15n", "a failed load of a dependency's directory output is reported: the error channel of the restore has room for at least one error (same obligation as R04d)", 1, "R04d", func(sub *Check) { ruleR04d(sub) }, func(k string) bool { return strings.Contains(k, "output/handlers") })
	shareRule(c, "R15h", "an executed dependency counts as materialised: the completion function sets Target.OutputsLoaded on every path to success, so minimal mode does not run it again where mode all would not (same obligation as R03h)", 1, "R03h", func(sub *Check) { ruleExecutedCountsAsLoaded(sub, "R03h") }, nil)
	shareRule(c, "R15i", "no goroutine started inside a worker slot runs commands: the dependency re-runs of minimal mode are sequential (same obligation as R03g)", 1, "R03g", func(sub *Check) { ruleNoSpawnInsideSlot(sub, "R03g") }, nil)
	// a restore that failed half way is reported as failed
	ruleDeferredResultNotClobbered(c, "R15o", "output", "output/handlers", "caching", "caching/backends", "execution", "loading", "locking")
	// round 8: the dependency loader holds at most one dependency lock at a time (minimal mode must not hang where mode all succeeds)
	ruleNoDeferredUnlockInLoop(c, "R15p", "execution", "caching", "output", "maps")
}

func modeAtom(c *Check, op string) func(a engine.Atom) bool {
	key := fk("execution.Executor", "loadOutputsMode")
	k := c.P.Const("config", "LoadOutputsMinimal")
	return func(a engine.Atom) bool {
		if a.Op != op || !isLoadOfField(a.V, key) || a.Other == nil {
			return false
		}
		return constIs(a.Other, k)
	}
}

func ruleR15a(c *Check, g *gateInfo) {
	c.Rule("R15a", "the hit return taken under load_outputs == minimal is dominated by the same hit conditions (checked by R13a over all hit returns) and assigns Target.OutputHash from the looked-up result before returning", 1)
	if g == nil {
		return
	}
	gname := c.P.FuncName(g.Fn)
	isStore := func(in ssa.Instruction) bool {
		st, ok := in.(*ssa.Store)
		if !ok {
			return false
		}
		fa, ok := st.Addr.(*ssa.FieldAddr)
		if !ok || engine.FieldKeyOf(fa.X.Type(), fa.Field) != fk("model.Target", "OutputHash") {
			return false
		}
		base, ok := fieldReadOn(st.Val, "OutputHash")
		return ok && engine.OriginsAllFromCall(base, map[ssa.CallInstruction]int{g.Lookup: 0}, false)
	}
	found := false
	for _, h := range g.Hits {
		// a minimal-mode hit: reachable only via the mode == minimal edge
		if reach, _ := engine.PathExists(g.Fn, nil, engine.IsInstr(h), engine.PathQuery{CutEdge: engine.CutEdgesWhere(modeAtom(c, "eq"))}); reach {
			continue
		}
		found = true
		reach, _ := engine.PathExists(g.Fn, nil, engine.IsInstr(h), engine.PathQuery{CutInstr: isStore})
		c.Require(!reach, "R15a", "minimal-hit-propagates-output-hash/"+gname, "the minimal-mode hit assigns Target.OutputHash from the looked-up result on every path", "in minimal mode a cache hit can return without propagating the stored output hash: dependants cannot compute their keys (or key on a stale digest)", c.P.InstrPos(h))
	}
	if !found {
		// the hit handling inside a bool helper: its `true` answers are the hits; the one that is specific to
		// load_outputs == minimal assigns the output hash from the looked-up result (a parameter there)
		lo := c.P.Func("output", "Registry", "LoadOutputs")
		for _, hs := range gateHelpersCalling(c, g.Fn, lo) {
			res := hs.Helper.Signature.Results()
			if res.Len() != 1 || res.At(0).Type().String() != "bool" {
				continue
			}
			stores := map[ssa.Instruction]bool{}
			engine.WithCtx([]*ssa.Call{hs.Call}, func() {
				for _, b := range hs.Helper.Blocks {
					for _, in := range b.Instrs {
						if isStore(in) {
							stores[in] = true
						}
					}
				}
			})
			for _, r := range engine.Returns(hs.Helper) {
				if !mayBeTrueReturn(r) {
					continue
				}
				if reach, _ := engine.PathExists(hs.Helper, nil, engine.IsInstr(r), engine.PathQuery{CutEdge: engine.CutEdgesWhere(modeAtom(c, "eq"))}); reach {
					continue
				}
				found = true
				reach, _ := engine.PathExists(hs.Helper, nil, engine.IsInstr(r), engine.PathQuery{CutInstr: func(in ssa.Instruction) bool { return stores[in] }})
				c.Require(!reach, "R15a", "minimal-hit-propagates-output-hash/"+gname, "the minimal-mode hit (in "+c.P.FuncName(hs.Helper)+") assigns Target.OutputHash from the looked-up result on every path", "in minimal mode a cache hit can return without propagating the stored output hash: dependants cannot compute their keys (or key on a stale digest)", c.P.InstrPos(r))
			}
		}
	}
	if !found {
		c.Bad("R15a", "minimal-hit-propagates-output-hash/"+gname, "no hit return is specific to load_outputs == minimal: minimal mode would load outputs like mode all (or the mode test left the hit branch)", c.P.Pos(g.Fn.Pos()))
	}
}

func ruleR15b(c *Check, g *gateInfo) {
	c.Rule("R15b", "in the gate, under load_outputs == minimal the executing method is reachable only after the dependency-output loading ran and returned nil", 1)
	if g == nil {
		return
	}
	ldo := anchor(c, "R15b", "execution", "Executor", "LoadDependencyOutputs")
	if ldo == nil {
		return
	}
	gname := c.P.FuncName(g.Fn)
	loads := callsToFn(c, g.Fn, ldo)
	execs := callsToFn(c, g.Fn, g.Ex.ExecMethod)
	if len(loads) == 0 {
		c.Bad("R15b", "load-deps-before-execute/"+gname, "the gate never loads dependency outputs before executing in minimal mode", c.P.Pos(g.Fn.Pos()))
		return
	}
	bad := ""
	for _, e := range execs {
		// (1) in minimal mode (cut the mode != minimal edges) execution is unreachable without passing the load
		if reach, _ := engine.PathExists(g.Fn, nil, engine.IsInstr(e), engine.PathQuery{
			CutInstr: func(in ssa.Instruction) bool {
				for _, l := range loads {
					if in == ssa.Instruction(l) {
						return true
					}
				}
				return false
			},
			CutEdge: engine.CutEdgesWhere(modeAtom(c, "ne")),
		}); reach {
			bad = "with load_outputs=minimal the target can be executed without its dependencies' outputs having been loaded"
		}
		// (2) a failed load never reaches execution
		for _, l := range loads {
			if reach, _ := engine.PathExists(g.Fn, l, engine.IsInstr(e), engine.PathQuery{CutEdge: engine.NilErrEdgesOf(l)}); reach {
				bad = "the target is executed although loading its dependencies' outputs failed"
			}
		}
	}
	c.Require(bad == "", "R15b", "load-deps-before-execute/"+gname, "execution in minimal mode is dominated by a successful LoadDependencyOutputs", bad, c.P.InstrPos(loads[0]))
}

func ruleR15c(c *Check) {
	c.Rule("R15c", "the dependency-loading loop is a full range over the target's direct dependencies; it can be left early only by returning a definitely non-nil error; a dependency is re-run only after its own dependencies were loaded", 2)
	ldo := anchor(c, "R15c", "execution", "Executor", "LoadDependencyOutputs")
	if ldo == nil {
		return
	}
	fname := c.P.FuncName(ldo)
	lo := c.P.Func("output", "Registry", "LoadOutputs")
	var loadCalls []ssa.CallInstruction
	staticTo := func(fn *ssa.Function) func(ssa.CallInstruction) bool {
		return func(s ssa.CallInstruction) bool {
			for _, cal := range c.G.CalleesOf(s) {
				if cal == fn {
					return true
				}
			}
			return false
		}
	}
	if lo != nil {
		var leaks []string
		loadCalls, leaks = liftedSites(c, ldo, staticTo(lo), 0)
		for _, l := range leaks {
			c.Bad("R15c", "all-dependencies-loaded/"+fname, "a helper of the dependency loader loses the restore error: "+l, "-")
		}
	}
	if len(loadCalls) == 0 {
		c.Unknown("R15c", "all-dependencies-loaded/"+fname, "no output restore call in the dependency loader", "-")
		return
	}
	lp := engine.LoopOf(loadCalls[0])
	if lp == nil || !lp.IsFullRange() {
		c.Bad("R15c", "all-dependencies-loaded/"+fname, "dependency outputs are not loaded in a full range over the direct dependencies", c.P.InstrPos(loadCalls[0]))
		return
	}
	rng, _ := engine.CallOf(lp.RangedValue())
	okRange := rng != nil && strings.HasSuffix(engine.CalleeName(rng), "GetTargetDependencies")
	// early exits: returns inside/after leaving the loop body whose error is not definitely non-nil
	bad := ""
	for b := range lp.Body {
		if b == lp.Header {
			continue
		}
		for _, s := range b.Succs {
			if lp.Body[s] {
				continue
			}
			// every return reachable from this exit must return a definitely non-nil error
			engine.PathExists(ldo, firstOf(s), func(in ssa.Instruction) bool {
				r, ok := in.(*ssa.Return)
				if !ok {
					return false
				}
				if !definitelyNonNilReturn(ldo, r) {
					bad = "the loop over the dependencies is left at " + c.P.InstrPos(r) + " with a value that may be nil: the remaining dependencies' outputs are never loaded although the call reports success"
				}
				return false
			}, engine.PathQuery{})
			if r, ok := s.Instrs[0].(*ssa.Return); ok && !definitelyNonNilReturn(ldo, r) {
				bad = "the loop over the dependencies is left at " + c.P.InstrPos(r) + " with a value that may be nil: the remaining dependencies' outputs are never loaded although the call reports success"
			}
		}
	}
	// every iteration loads (or re-runs) the dependency; only a dependency without any output may be skipped
	if bad == "" {
		var work []ssa.Instruction
		for _, l := range loadCalls {
			work = append(work, l)
		}
		if ex := findExec(c, "R15c"); ex != nil {
			for _, s := range sitesReaching(c, ldo, fnSet(ex.ExecMethod)) {
				work = append(work, s)
			}
		}
		isWork := func(in ssa.Instruction) bool {
			for _, w := range work {
				if in == w {
					return true
				}
			}
			return false
		}
		noOutputs := engine.CutEdgesWhere(func(a engine.Atom) bool {
			arg, ok := lenArg(a.V)
			if !ok || !(a.Op == "eq" || a.Op == "le") {
				return false
			}
			k, isK := a.Other.(*ssa.Const)
			if !isK || k.Value == nil || k.Int64() != 0 {
				return false
			}
			call, _ := engine.CallOf(arg)
			return call != nil && strings.HasSuffix(engine.CalleeName(call), "model.Target).AllOutputs")
		})
		// (1) every iteration looks the dependency's result up (unless it has no outputs at all)
		tc := c.P.Func("caching", "TargetResultCache", "Load")
		lookups, _ := liftedSites(c, ldo, staticTo(tc), 0)
		isLookup := func(in ssa.Instruction) bool {
			for _, l := range lookups {
				if in == ssa.Instruction(l) {
					return true
				}
			}
			return false
		}
		skipMsg := "an iteration can skip a dependency without loading or re-running it (a shortcut that is neither `len(dep.AllOutputs()) == 0` nor 'already materialised in this build'): that dependency's outputs (e.g. a bin_output) are missing or stale when the dependant runs"
		// a dependency that is already materialised in this build (Target.OutputsLoaded) needs nothing
		alreadyThere := engine.CutEdgesWhere(func(a engine.Atom) bool { return a.Op == "true" && availabilityValue(a.V, 0) })
		noWork := func(b *ssa.BasicBlock, i int) bool { return noOutputs(b, i) || alreadyThere(b, i) }
		if len(lookups) == 0 || lp.IterationCanSkip(func(in ssa.Instruction) bool { return isLookup(in) || isWork(in) }, noWork) {
			bad = skipMsg
		}
		// (2) after the lookup the iteration loads the outputs or re-runs the dependency. The merged error
		// variable (lookup error / load error) can only be nil after the load call, so its nil edge is
		// infeasible on paths that bypass the load.
		errCalls := map[ssa.CallInstruction]int{}
		for _, l := range lookups {
			errCalls[l] = engine.ErrResultIndex(l.Common().Signature())
		}
		for _, l := range loadCalls {
			errCalls[l] = engine.ErrResultIndex(l.Common().Signature())
		}
		mergedNil := engine.CutEdgesWhere(func(a engine.Atom) bool {
			return a.Op == "nil" && engine.OriginsAllFromCall(a.V, errCalls, false)
		})
		toHeader := func(in ssa.Instruction) bool { return in == lp.Header.Instrs[0] }
		for _, l := range lookups {
			if r, _ := engine.PathExists(ldo, l, toHeader, engine.PathQuery{CutInstr: isWork, CutEdge: func(b *ssa.BasicBlock, i int) bool {
				return mergedNil(b, i) || (lp.Body[b] && !lp.Body[b.Succs[i]])
			}}); r {
				bad = skipMsg
			}
		}
	}
	c.Require(okRange && bad == "", "R15c", "all-dependencies-loaded/"+fname, "every direct dependency is visited; the loop is only left early with a non-nil error",
		map[bool]string{true: bad, false: "the loop does not range over GetTargetDependencies(target)"}[okRange], c.P.InstrPos(loadCalls[0]))

	// re-run only after the dependency's own dependencies were loaded
	ex := findExec(c, "R15c")
	if ex == nil {
		return
	}
	reruns := sitesReaching(c, ldo, fnSet(ex.ExecMethod))
	recs := callsToFn(c, ldo, ldo)
	bad = ""
	for _, r := range reruns {
		if r.Common().StaticCallee() == ldo || containsCall(recs, r) {
			continue
		}
		ok := false
		for _, rec := range recs {
			if w := onlyAfterSuccess(ldo, rec, r); w == "" {
				ok = true
			}
		}
		if !ok {
			bad = "a dependency can be re-executed (" + c.P.InstrPos(r) + ") without its own dependencies' outputs having been loaded first"
		}
	}
	if len(reruns) == 0 {
		bad = "a dependency whose outputs cannot be loaded is never re-run"
	}
	// a dependency whose restore failed is re-run: after a failed lookup/restore no return is reachable
	// without passing a site that leads to the executing method (the recursive load or the re-run itself)
	{
		lo2 := c.P.Func("output", "Registry", "LoadOutputs")
		tc2 := c.P.Func("caching", "TargetResultCache", "Load")
		statTo := func(fn *ssa.Function) func(ssa.CallInstruction) bool {
			return func(s ssa.CallInstruction) bool {
				for _, cal := range c.G.CalleesOf(s) {
					if cal == fn {
						return true
					}
				}
				return false
			}
		}
		var restores []ssa.CallInstruction
		if lo2 != nil {
			r, _ := liftedSites(c, ldo, statTo(lo2), 0)
			restores = append(restores, r...)
		}
		if tc2 != nil {
			r, _ := liftedSites(c, ldo, statTo(tc2), 0)
			restores = append(restores, r...)
		}
		isRerun := func(in ssa.Instruction) bool {
			for _, r := range reruns {
				if in == ssa.Instruction(r) {
					return true
				}
			}
			return false
		}
		isRet := func(in ssa.Instruction) bool { _, r := in.(*ssa.Return); return r && in.Parent() == ldo }
		lost := ""
		for _, rs := range restores {
			if isRerun(rs) {
				continue
			}
			if r, at := engine.PathExists(ldo, rs, isRet, engine.PathQuery{CutEdge: engine.NilErrEdgesOf(restores...), CutInstr: isRerun}); r {
				lost = "after a failed restore of a dependency (" + c.P.InstrPos(rs) + ") the loader can return (" + c.P.InstrPos(at) + ") without re-running it: with load_outputs=all the same failure makes the gate fall through to execution, so the two modes diverge (minimal fails or skips where all rebuilds)"
			}
		}
		c.Require(lost == "" && len(restores) > 0, "R15c", "failed-restore-leads-to-rerun/"+fname, "every failed lookup/restore of a dependency leads to the recursive load and the re-run before the loader returns", lost, c.P.Pos(ldo.Pos()))
	}
	c.Require(bad == "", "R15c", "rerun-after-recursive-load/"+fname, "every re-run of a dependency is dominated by a successful recursive load of that dependency's dependencies", bad, c.P.Pos(ldo.Pos()))
}

func containsCall(list []ssa.CallInstruction, x ssa.CallInstruction) bool {
	for _, l := range list {
		if l == x {
			return true
		}
	}
	return false
}

func firstOf(b *ssa.BasicBlock) ssa.Instruction {
	// PathExists starts after the given instruction; use the first one and also test it by the caller
	return b.Instrs[0]
}

// definitelyNonNilReturn: the returned error is dominated by a non-nil test on that value,
// or is the result of fmt.Errorf/errors.New.
func definitelyNonNilReturn(fn *ssa.Function, r *ssa.Return) bool {
	if len(r.Results) == 0 {
		return false
	}
	v := r.Results[len(r.Results)-1]
	orig := engine.Origins(v)
	if len(orig) == 0 {
		return false
	}
	for _, o := range orig {
		if o == nil {
			return false
		}
		if call, _ := engine.CallOf(o); call != nil {
			n := engine.CalleeName(call)
			if n == "fmt.Errorf" || n == "errors.New" {
				continue
			}
		}
		// dominated by "o != nil"
		reach, _ := engine.PathExists(fn, nil, engine.IsInstr(r), engine.PathQuery{CutEdge: engine.CutEdgesWhere(func(a engine.Atom) bool {
			if a.Op != "nonnil" {
				return false
			}
			for _, x := range engine.Origins(a.V) {
				if x == o {
					return true
				}
			}
			return false
		})})
		if reach {
			return false
		}
	}
	return true
}

// ruleAliasChainsFollowed: an alias may point to another alias. A function that turns a node into the target it
// stands for (returns *model.Target and reads Alias.Actual) has to keep resolving until it holds a target: the
// read of Actual sits in a loop, or the function calls itself (or another resolver) on what it looked up.
func ruleAliasChainsFollowed(c *Check, rule string, pkgs ...string) {
	c.Rule(rule, "in "+strings.Join(pkgs, ", ")+": every function that resolves a node to the *model.Target it stands for (returns *model.Target and reads Alias.Actual) follows alias chains to their end — the read of Actual is inside a loop, or the function recurses on the looked-up node", 2)
	actual := fk("model.Alias", "Actual")
	isResolver := func(fn *ssa.Function) bool {
		res := fn.Signature.Results()
		if res.Len() == 0 || engine.TypeKey(res.At(0).Type()) != "model.Target" {
			return false
		}
		if _, isPtr := res.At(0).Type().(*types.Pointer); !isPtr {
			return false
		}
		return readsField(c, fn, actual)
	}
	for _, fn := range c.P.Funcs {
		in := false
		for _, p := range pkgs {
			if engine.InPackage(fn, p) {
				in = true
			}
		}
		if !in || !isResolver(fn) {
			continue
		}
		ok := true
		var at ssa.Instruction
		for _, b := range fn.Blocks {
			for _, instr := range b.Instrs {
				var hit bool
				switch x := instr.(type) {
				case *ssa.FieldAddr:
					hit = engine.FieldKeyOf(x.X.Type(), x.Field) == actual
				case *ssa.Field:
					hit = engine.FieldKeyOf(x.X.Type(), x.Field) == actual
				}
				if !hit {
					continue
				}
				if engine.InLoop(instr) {
					continue
				}
				// recursion / delegation to another resolver after the read
				rec, _ := engine.PathExists(fn, instr, func(i ssa.Instruction) bool {
					call, isCall := i.(ssa.CallInstruction)
					if !isCall {
						return false
					}
					for _, cal := range c.G.CalleesOf(call) {
						if cal == fn || (cal != nil && len(cal.Blocks) > 0 && isResolver(cal) && cal != fn) {
							return true
						}
					}
					return false
				}, engine.PathQuery{Shallow: true})
				if !rec {
					ok, at = false, instr
				}
			}
		}
		pos := c.P.Pos(fn.Pos())
		if at != nil {
			pos = c.P.InstrPos(at)
		}
		c.Require(ok, rule, "alias-chain-followed/"+c.P.FuncName(fn), "the alias is resolved in a loop (or recursively) until a target is reached", "the alias is resolved for one hop only: a dependency declared through an alias of an alias resolves to nothing and is silently dropped — its outputs are not loaded in minimal mode, its digest is missing from the dependant's change hash, and the test/testonly rule does not see it", pos)
	}
}

// R15k: a dependency whose outputs cannot be restored is executed, not asked again whether it is cached. The
// gate answers "hit" from the target-result entry alone under load_outputs=minimal; the entry is still there
// when the blobs are gone, so a re-run routed through the gate does nothing and the dependant runs without its
// dependency's outputs.
func ruleRerunBypassesGate(c *Check, rule string) {
	c.Rule(rule, "the dependency loader reaches the executing method through a call chain that does not pass the cache-hit gate: a failed restore is answered by an execution", 1)
	ldo := anchor(c, rule, "execution", "Executor", "LoadDependencyOutputs")
	ex := findExec(c, rule)
	gate := findGate(c, rule)
	if ldo == nil || ex == nil || gate == nil {
		return
	}
	top := engine.TopFunc(gate)
	reach := c.G.ReachableFuncs([]*ssa.Function{ldo}, func(f *ssa.Function) bool { return f == gate || (f == top && f != ldo) })
	c.Require(reach[ex.ExecMethod], rule, "rerun-bypasses-gate/"+c.P.FuncName(ldo), "the loader calls the executing method without going through the gate", "every route from the dependency loader to the executing method passes the cache-hit gate ("+c.P.FuncName(gate)+"): under load_outputs=minimal the gate reports a hit as long as the target-result entry exists, so a dependency whose blobs are gone is 're-run' without running and the dependant executes without its outputs (or fails where mode all succeeds)", c.P.Pos(ldo.Pos()))
}

// availabilityValue: v is Target.OutputsLoaded, read directly or through an accessor that returns it.
func availabilityValue(v ssa.Value, depth int) bool {
	key := fk("model.Target", "OutputsLoaded")
	if depth > 4 || v == nil {
		return false
	}
	switch x := v.(type) {
	case *ssa.UnOp:
		if x.Op != token.MUL {
			return false
		}
		if fa, ok := x.X.(*ssa.FieldAddr); ok {
			return engine.FieldKeyOf(fa.X.Type(), fa.Field) == key
		}
		if _, ok := x.X.(*ssa.Alloc); ok {
			// a local (a result cell spilled for a defer, a named variable)
			sts, zero := engine.ReachingStores(x)
			if zero || len(sts) == 0 {
				return false
			}
			for _, st := range sts {
				if !availabilityValue(st.Val, depth+1) {
					return false
				}
			}
			return true
		}
		return false
	case *ssa.Field:
		return engine.FieldKeyOf(x.X.Type(), x.Field) == key
	case *ssa.Phi:
		for _, e := range x.Edges {
			if !availabilityValue(e, depth+1) {
				return false
			}
		}
		return len(x.Edges) > 0
	case *ssa.Call:
		h := x.Call.StaticCallee()
		if h == nil || len(h.Blocks) == 0 || h.Signature.Results().Len() != 1 {
			return false
		}
		n := 0
		for _, r := range engine.Returns(h) {
			if r.Block() == h.Recover {
				continue
			}
			n++
			if len(r.Results) != 1 || !availabilityValue(r.Results[0], depth+1) {
				return false
			}
		}
		return n > 0
	}
	return false
}

// R15l (also R03i, R19b): a dependency is run again by the dependency loader only when its restore failed or it
// has not been materialised in this build. A dependency that the walker already executed (a no-cache target,
// say) must not be executed once more for every dependant: that is more than once per build, more commands than
// load_outputs=all runs, and once per path on diamond-shaped graphs.
func ruleRerunOnlyWhenNeeded(c *Check, rule string) {
	c.Rule(rule, "in the dependency loader every call that leads to the executing method is reachable only through the failure branch of a lookup/restore of that dependency or through the branch on which Target.OutputsLoaded (read directly or through an accessor) is false", 1)
	ldo := anchor(c, rule, "execution", "Executor", "LoadDependencyOutputs")
	ex := findExec(c, rule)
	if ldo == nil || ex == nil {
		return
	}
	fname := c.P.FuncName(ldo)
	statTo := func(fn *ssa.Function) func(ssa.CallInstruction) bool {
		return func(s ssa.CallInstruction) bool {
			for _, cal := range c.G.CalleesOf(s) {
				if cal == fn {
					return true
				}
			}
			return false
		}
	}
	// allowedIn: the edges of fn that justify running a dependency again (failed lookup/restore of fn's own,
	// lifted, sites; availability flag false)
	allowedIn := func(fn *ssa.Function) func(*ssa.BasicBlock, int) bool {
		errCalls := map[ssa.CallInstruction]int{}
		for _, f := range []*ssa.Function{c.P.Func("output", "Registry", "LoadOutputs"), c.P.Func("caching", "TargetResultCache", "Load")} {
			if f == nil {
				continue
			}
			sites, _ := liftedSites(c, fn, statTo(f), 0)
			for _, s := range sites {
				errCalls[s] = engine.ErrResultIndex(s.Common().Signature())
			}
		}
		return engine.CutEdgesWhere(func(a engine.Atom) bool {
			switch a.Op {
			case "nonnil":
				for _, o := range engine.Origins(a.V) {
					if call, i := engine.CallOf(o); call != nil {
						if idx, ok := errCalls[call]; ok && idx == i {
							return true
						}
					}
				}
			case "false":
				return availabilityValue(a.V, 0)
			}
			return false
		})
	}
	// ungated: the sites of fn that lead to the executing method and are reachable without an allowed edge. An
	// ungated static call of a first-party helper (the extracted body of the dependency loop, say) is judged
	// inside that helper: the path is ungated only when it is ungated at every level.
	var ungated func(fn *ssa.Function, depth int, seen map[*ssa.Function]bool) (n int, bad []ssa.CallInstruction)
	ungated = func(fn *ssa.Function, depth int, seen map[*ssa.Function]bool) (int, []ssa.CallInstruction) {
		allowed := allowedIn(fn)
		n := 0
		var bad []ssa.CallInstruction
		for _, r := range sitesReaching(c, fn, fnSet(ex.ExecMethod)) {
			n++
			reach, _ := engine.PathExists(fn, nil, engine.IsInstr(r), engine.PathQuery{CutEdge: allowed, Shallow: true})
			if !reach {
				continue
			}
			if call, ok := r.(*ssa.Call); ok && depth < 2 {
				h := call.Call.StaticCallee()
				if h != nil && len(h.Blocks) > 0 && h != ldo && h != ex.ExecMethod && !seen[h] && engine.IsFirstParty(pkgPathOf(h)) && h.Parent() == nil {
					seen[h] = true
					_, inner := ungated(h, depth+1, seen)
					bad = append(bad, inner...)
					continue
				}
			}
			bad = append(bad, r)
		}
		return n, bad
	}
	n, bad := ungated(ldo, 0, map[*ssa.Function]bool{ldo: true})
	isBad := map[ssa.CallInstruction]bool{}
	for _, b := range bad {
		isBad[b] = true
	}
	report := func(r ssa.CallInstruction) {
		what := "re-run"
		for _, cal := range c.G.CalleesOf(r) {
			if cal == ldo {
				what = "recursive-load"
			}
		}
		c.Require(!isBad[r], rule, what+"-only-when-needed/"+fname, "reached only after a failed lookup/restore or for a dependency that is not yet materialised", "a dependency can be run again although its outputs were restored and it was already executed or loaded in this build (for instance because it carries the no-cache tag): one build executes it once in the walker and once more for every dependant — and once per path on diamond-shaped graphs of such targets", c.P.InstrPos(r))
	}
	inLdo := map[ssa.CallInstruction]bool{}
	for _, r := range sitesReaching(c, ldo, fnSet(ex.ExecMethod)) {
		inLdo[r] = true
		if !isBad[r] {
			// discharged here or inside the helper it calls
			report(r)
		}
	}
	for _, b := range bad {
		report(b)
	}
	if n == 0 {
		c.Unknown(rule, "re-run-only-when-needed/"+fname, "no call in the dependency loader reaches the executing method", "-")
	}
}

// R15m: a dependency counts as loaded when it is loaded. Dependants that find Target.OutputsLoaded set go ahead
// without waiting; the restore function may set the mark only when nothing that can still fail — or is still
// writing into the workspace — lies ahead of it.
func ruleLoadedMarkAfterLoads(c *Check, rule string) {
	c.Rule(rule, "in the registry's restore function no wait for a load task (and no handler Load) is reachable after the store OutputsLoaded = true", 1)
	lo := anchor(c, rule, "output", "Registry", "LoadOutputs")
	if lo == nil {
		return
	}
	key := fk("model.Target", "OutputsLoaded")
	pending := func(in ssa.Instruction) bool {
		call, ok := in.(ssa.CallInstruction)
		if !ok {
			return false
		}
		cc := call.Common()
		if cc.IsInvoke() && (cc.Method.Name() == "Wait" || cc.Method.Name() == "Load") {
			return true
		}
		n := engine.CalleeName(call)
		return strings.HasSuffix(n, ").Wait") || strings.HasSuffix(n, ".SubmitErr") || strings.HasSuffix(n, ".Submit")
	}
	isMark := func(in ssa.Instruction) bool {
		st, ok := in.(*ssa.Store)
		if !ok {
			return false
		}
		fa, ok := st.Addr.(*ssa.FieldAddr)
		if !ok || engine.FieldKeyOf(fa.X.Type(), fa.Field) != key {
			return false
		}
		k, isK := engine.BoolConst(st.Val)
		return isK && k
	}
	// the mark may be set by a helper of the restore function (a call that can reach the store counts as the mark)
	var mayMark func(h *ssa.Function, depth int) bool
	mayMark = func(h *ssa.Function, depth int) bool {
		if h == nil || len(h.Blocks) == 0 || depth <= 0 || !engine.IsFirstParty(pkgPathOf(h)) {
			return false
		}
		for _, b := range h.Blocks {
			for _, in := range b.Instrs {
				if isMark(in) {
					return true
				}
				if call, ok := in.(*ssa.Call); ok && mayMark(call.Call.StaticCallee(), depth-1) {
					return true
				}
			}
		}
		return false
	}
	n := 0
	for _, b := range lo.Blocks {
		for _, in := range b.Instrs {
			if !isMark(in) {
				call, ok := in.(*ssa.Call)
				if !ok || !mayMark(call.Call.StaticCallee(), 2) {
					continue
				}
			}
			n++
			reach, at := engine.PathExists(lo, in, pending, engine.PathQuery{DeepTo: true})
			pos := c.P.InstrPos(in)
			what := ""
			if at != nil {
				what = " (" + c.P.InstrPos(at) + ")"
			}
			c.Require(!reach, rule, "loaded-mark-after-loads/"+c.P.FuncName(lo), "the mark is set after every load task was waited for", "the target is marked OutputsLoaded while load tasks are still pending"+what+": under load_outputs=minimal a second dependant that asks for the same dependency finds the mark, skips the restore and starts its command while the outputs are still being written (or after a load that is about to fail)", pos)
		}
	}
	if n == 0 {
		c.Unknown(rule, "loaded-mark-after-loads/"+c.P.FuncName(lo), "the restore function never sets OutputsLoaded", c.P.Pos(lo.Pos()))
	}
}
