package rules

import (
	"fmt"
	"go/constant"
	"sort"
	"strconv"
	"strings"

	"golang.org/x/tools/go/ssa"

	"grogverif/engine"
)

func init() { register("C20", runC20) }

func runC20(c *Check, tier string) {
	c.Decides = "the two edge maps are written only by the edge-adding function, which records to under from and from under to symmetrically; `deps` reads only the dependency side and `rdeps` only the dependant side; the transitive traversals visit each node once and append it only on the never-seen branch (so each label is printed once) and descend unconditionally (filters are applied to the result, not to the walk); the query commands reach the same filter function as the build selector; `owners`/`changes` compare cleaned joins of package and *resolved* inputs."
	c.NotDec = "'rebuilds ⊆ owners ∪ rdeps' (needs executions), output formatting, pattern semantics (C17)."
	ruleR20a(c)
	ruleTraversals(c, "R20b", true)
	ruleR20b2(c)
	ruleR20c(c)
	ruleR20d(c)
	ruleMemoKeyComplete(c, "R20f", "hashing", "dag", "selection", "cmd", "loading")
	ruleEdgesFromAllNodes(c, "R20g")
	ruleNoDigestInDescription(c, "R20h")
	// the key reads exactly the files `owners` attributes to the target: one file per listed input
	ruleR09f(c, "R20i")
	// a dependency named twice is one edge: the direct queries print each label once
	ruleRepeatedDependencyIsOneEdge(c, "R20j")
	ruleReachableListUnfiltered(c, "R20m")
	ruleWrittenOnlyByLoader(c, "R20k", "model.Alias", "Actual", "the graph's edges come from Alias.GetDependencies() = [Actual], so `deps`/`rdeps` answer for the rewritten graph, not for the declared one (an alias of an alias loses its edge to the intermediate alias)")
	ruleWrittenOnlyByLoader(c, "R20l", "model.Target", "Inputs", "`owners` answers from what the loader resolved (patterns minus exclude_inputs) while the change hash is computed from the rewritten list: editing a file that `owners` attributes to no target re-executes targets")
	// round 7: a memo inside a traversal remembers complete closures only
	ruleNoMemoOfPartialTraversal(c, "R20n", "dag", "analysis", "selection")
	// round 8: owners, the key and the build agree on what a target's inputs are
	ruleInputsFilteredByExclusionsOnly(c, "R20o")
}

// cobraCommands maps the `Use` word of each cobra command to its Run function.
func cobraCommands(c *Check) map[string]*ssa.Function {
	out := map[string]*ssa.Function{}
	useKey := fk("github.com/spf13/cobra.Command", "Use")
	runKey := fk("github.com/spf13/cobra.Command", "Run")
	for _, e := range c.G.In[useKey] {
		st, ok := e.Via.(*ssa.Store)
		if !ok {
			continue
		}
		k, ok := st.Val.(*ssa.Const)
		if !ok || k.Value == nil || k.Value.Kind() != constant.String {
			continue
		}
		use := strings.Fields(constant.StringVal(k.Value))
		if len(use) == 0 {
			continue
		}
		base := st.Addr.(*ssa.FieldAddr).X
		for _, e2 := range c.G.In[runKey] {
			st2, ok := e2.Via.(*ssa.Store)
			if !ok || st2.Addr.(*ssa.FieldAddr).X != base {
				continue
			}
			for _, fn := range c.G.FuncValuesReaching(st2.Val) {
				out[use[0]] = engine.Unwrap(fn)
			}
		}
	}
	return out
}

// edgeSide: which edge maps fn (transitively, inside package dag) reads.
func edgeSide(c *Check, fn *ssa.Function) (in, out bool) {
	for f := range c.G.ReachableFuncs([]*ssa.Function{fn}, func(f *ssa.Function) bool { return !engine.InPackage(f, "dag") }) {
		if !engine.InPackage(f, "dag") {
			continue
		}
		if readsField(c, f, fInEdges) {
			in = true
		}
		if readsField(c, f, fOutEdges) {
			out = true
		}
	}
	return
}

func ruleR20a(c *Check) {
	c.Rule("R20a", "inEdges/outEdges are map-updated in exactly one function, which appends `to` under from's label in the out map and `from` under to's label in the in map; the deps command uses only in-edge accessors, rdeps only out-edge accessors", 3)
	type upd struct {
		mu   *ssa.MapUpdate
		side string
	}
	var ups []upd
	for _, fn := range c.P.Funcs {
		for _, b := range fn.Blocks {
			for _, in := range b.Instrs {
				mu, ok := in.(*ssa.MapUpdate)
				if !ok {
					continue
				}
				if isLoadOfField(mu.Map, fInEdges) {
					ups = append(ups, upd{mu, "in"})
				}
				if isLoadOfField(mu.Map, fOutEdges) {
					ups = append(ups, upd{mu, "out"})
				}
			}
		}
	}
	owners := map[*ssa.Function]bool{}
	for _, u := range ups {
		owners[u.mu.Parent()] = true
	}
	var ownerList []*ssa.Function
	for f := range owners {
		ownerList = append(ownerList, f)
	}
	c.Require(len(owners) == 1, "R20a", "edge-maps-single-writer", "the edge maps are updated only in "+names(c, ownerList), "the edge maps are updated in several functions ("+names(c, ownerList)+"): the two directions can get out of step", "-")
	if len(owners) == 1 {
		fn := ownerList[0]
		// params: (g, from, to)
		labelOf := func(v ssa.Value) ssa.Value {
			call, _ := engine.CallOf(v)
			if call != nil && call.Common().IsInvoke() && call.Common().Method.Name() == "GetLabel" {
				return call.Common().Value
			}
			return nil
		}
		appended := func(v ssa.Value) ssa.Value {
			call, ok := v.(*ssa.Call)
			if !ok {
				return nil
			}
			if b, ok := call.Call.Value.(*ssa.Builtin); !ok || b.Name() != "append" {
				return nil
			}
			// varargs slice of one element
			if sl, ok := call.Call.Args[1].(*ssa.Slice); ok {
				if al, ok := sl.X.(*ssa.Alloc); ok {
					for _, r := range *al.Referrers() {
						if ia, ok := r.(*ssa.IndexAddr); ok {
							for _, rr := range *ia.Referrers() {
								if st, ok := rr.(*ssa.Store); ok {
									return st.Val
								}
							}
						}
					}
				}
			}
			return nil
		}
		var inKey, inVal, outKey, outVal ssa.Value
		for _, u := range ups {
			if u.side == "in" {
				inKey, inVal = labelOf(u.mu.Key), appended(u.mu.Value)
			} else {
				outKey, outVal = labelOf(u.mu.Key), appended(u.mu.Value)
			}
		}
		ok := inKey != nil && outKey != nil && inVal != nil && outVal != nil && inKey != outKey && inKey == outVal && outKey == inVal
		// from = key of the out map; to = key of the in map: edge from -> to means `to` depends on... (dependency first)
		c.Require(ok, "R20a", "edges-inverse-by-construction/"+c.P.FuncName(fn), "out[from] gets `to` and in[to] gets `from` in the same call", "the two edge maps are not updated symmetrically (out[x]+=y must be paired with in[y]+=x): deps and rdeps would not be inverses", c.P.Pos(fn.Pos()))
	}
	cmds := cobraCommands(c)
	for name, wantIn := range map[string]bool{"deps": true, "rdeps": false} {
		fn := cmds[name]
		if fn == nil {
			c.Unknown("R20a", "query-side/"+name, "anchor-unresolved: cobra command `"+name+"` not found", "-")
			continue
		}
		usesIn, usesOut := false, false
		for _, s := range engine.SitesIn(fn) {
			for _, cal := range c.G.Callees[s] {
				if engine.InPackage(cal, "dag") && returnsNodeSlice(cal) {
					i, o := edgeSide(c, cal)
					usesIn = usesIn || i
					usesOut = usesOut || o
				}
			}
		}
		// the accessor may be picked as a function value (a method expression handed to a shared query runner)
		for _, b := range fn.Blocks {
			for _, in := range b.Instrs {
				for _, op := range in.Operands(nil) {
					if op == nil || *op == nil {
						continue
					}
					var f *ssa.Function
					switch x := (*op).(type) {
					case *ssa.Function:
						f = x
					case *ssa.MakeClosure:
						f, _ = x.Fn.(*ssa.Function)
					}
					if f == nil {
						continue
					}
					if u := engine.Unwrap(f); u != nil {
						f = u
					}
					if engine.InPackage(f, "dag") && len(f.Blocks) > 0 && returnsNodeSlice(f) {
						i, o := edgeSide(c, f)
						usesIn = usesIn || i
						usesOut = usesOut || o
					}
				}
			}
		}
		ok := (wantIn && usesIn && !usesOut) || (!wantIn && usesOut && !usesIn)
		c.Require(ok, "R20a", "query-side/"+name, "`"+name+"` reads only the "+map[bool]string{true: "in-edge (dependency)", false: "out-edge (dependant)"}[wantIn]+" side", fmt.Sprintf("`%s` reads the wrong side of the graph (in-edges: %v, out-edges: %v)", name, usesIn, usesOut), c.P.Pos(fn.Pos()))
	}
}

// R20b2: in the dag traversals that return node lists, the result append is on the
// never-seen branch and the descent is unconditional (no predicate prunes the walk).
func ruleR20b2(c *Check) {
	c.Rule("R20c", "in the graph's transitive accessors a node is appended to the result only on the never-seen branch (each label once) and nothing but the visited test guards the descent (filtering happens on the result, so nodes behind a non-matching node are still found)", 2)
	for _, t := range findTraversals(c) {
		if !engine.InPackage(t.Fn, "dag") || !returnsNodeSlice(engine.TopFunc(t.Fn)) {
			continue
		}
		fname := c.P.FuncName(t.Fn)
		var bodyEntry *ssa.BasicBlock
		for _, s := range t.Loop.Header.Succs {
			if t.Loop.Body[s] {
				bodyEntry = s
			}
		}
		// result appends of the loop element inside the loop
		cut := engine.CutEdgesWhere(func(a engine.Atom) bool { _, ok := neverSeenAtom(c, a); return ok })
		dupFree := true
		for b := range t.Loop.Body {
			for _, in := range b.Instrs {
				call, ok := in.(*ssa.Call)
				if !ok || call == t.Site {
					continue
				}
				bi, ok := call.Call.Value.(*ssa.Builtin)
				if !ok || bi.Name() != "append" {
					continue
				}
				if sl, ok := call.Type().Underlying().(interface{ Elem() interface{} }); ok {
					_ = sl
				}
				if reach, _ := engine.PathExists(t.Fn, firstInstrBefore(bodyEntry), engine.IsInstr(call), engine.PathQuery{CutEdge: cut}); reach {
					if r2, _ := engine.PathExists(t.Fn, nil, engine.IsInstr(call), engine.PathQuery{CutEdge: cut}); r2 {
						// a worklist that is only ever extended on the never-seen branch holds each node once,
						// so listing the popped element at pop time lists each node once
						if t.Kind == "worklist" && poppedFromWorklist(call, t.Site.(*ssa.Call)) {
							if pushUnguarded, _ := engine.PathExists(t.Fn, firstInstrBefore(bodyEntry), engine.IsInstr(t.Site), engine.PathQuery{CutEdge: cut}); !pushUnguarded {
								continue
							}
						}
						dupFree = false
					}
				}
			}
		}
		c.Require(dupFree, "R20c", "result-duplicate-free/"+fname, "nodes are appended to the result only on the never-seen branch", "a node is appended to the result once per path reaching it: transitive deps/rdeps print duplicate labels on diamond-shaped graphs", c.P.InstrPos(t.Site))
		// unconditional descent: no other branch in the loop body dominates the descent
		extra := 0
		for b := range t.Loop.Body {
			if b == t.Loop.Header {
				continue
			}
			if _, isIf := lastIf(b); !isIf || !b.Dominates(t.Site.Block()) || b == t.Site.Block() {
				continue
			}
			// the header of an inner loop over the neighbours is iteration, not a filter
			isInnerHeader := false
			for _, l := range engine.LoopsContaining(t.Site) {
				if l.Header == b {
					isInnerHeader = true
				}
			}
			if isInnerHeader {
				continue
			}
			guard := false
			for i := range b.Succs {
				if a, ok := engine.EdgeAtom(b, i); ok {
					if _, ok := neverSeenAtom(c, a); ok {
						guard = true
					}
					// error checks are fine
					if a.Op == "nil" || a.Op == "nonnil" {
						guard = true
					}
					// so is the bookkeeping of an explicit frame stack: `if frame.next >= len(frame.neighbours)`
					if isIndexBoundAtom(a) {
						guard = true
					}
				}
			}
			if !guard {
				extra++
			}
		}
		c.Require(extra == 0, "R20c", "descent-unconditional/"+fname, "only the visited test guards the descent", "the walk is pruned by an additional condition (a filter/predicate inside the traversal): nodes reachable only through a non-matching node are silently dropped from transitive queries", c.P.InstrPos(t.Site))
	}
}

// isIndexBoundAtom: an index compared with the length of a list (manual iteration over a stored neighbour list).
func isIndexBoundAtom(a engine.Atom) bool {
	switch a.Op {
	case "lt", "le", "gt", "ge", "eq", "ne": // `pos == len(xs)`: an index that grows by one meets the length exactly
		if _, ok := lenArg(a.V); ok {
			return true
		}
		if a.Other != nil {
			if _, ok := lenArg(a.Other); ok {
				return true
			}
		}
	}
	return false
}

// isListExhaustedAtom: the edge on which a manually advanced index has reached the length of its list
// (`idx >= len(xs)` true, or `idx < len(xs)` false).
func isListExhaustedAtom(a engine.Atom) bool {
	switch a.Op {
	case "ge", "gt":
		if a.Other != nil {
			_, ok := lenArg(a.Other)
			return ok
		}
	case "le", "lt":
		_, ok := lenArg(a.V)
		return ok
	case "eq":
		// `idx == len(xs)`: an index that only ever grows by one meets the length exactly
		if _, ok := lenArg(a.V); ok {
			return true
		}
		if a.Other != nil {
			_, ok := lenArg(a.Other)
			return ok
		}
	}
	return false
}

// poppedFromWorklist: every appended element of `app` is read from the slice that `push` extends.
func poppedFromWorklist(app, push *ssa.Call) bool {
	roots := sliceRoots(push)
	if len(app.Call.Args) < 2 {
		return false
	}
	var elems []ssa.Value
	for _, a := range app.Call.Args[1:] {
		// the compiler packs `append(s, x)` into a one-element varargs array
		if sl, isSl := a.(*ssa.Slice); isSl {
			if al, isAl := sl.X.(*ssa.Alloc); isAl {
				for _, ref := range *al.Referrers() {
					if ia, isIA := ref.(*ssa.IndexAddr); isIA {
						for _, r2 := range *ia.Referrers() {
							if st, isSt := r2.(*ssa.Store); isSt && st.Addr == ssa.Value(ia) {
								elems = append(elems, st.Val)
							}
						}
					}
				}
				continue
			}
		}
		elems = append(elems, a)
	}
	if len(elems) == 0 {
		return false
	}
	for _, a := range elems {
		ok := false
		for _, o := range engine.Origins(a) {
			var base ssa.Value
			switch x := o.(type) {
			case *ssa.UnOp:
				if ia, isIA := x.X.(*ssa.IndexAddr); isIA {
					base = ia.X
				}
			case *ssa.Index:
				base = x.X
			}
			if base != nil && intersects(sliceRoots(base), roots) {
				ok = true
			}
		}
		if !ok {
			// variadic spread `append(res, xs...)` or anything else: not the popped element
			return false
		}
	}
	return true
}

func ruleR20c(c *Check) {
	c.Rule("R20d", "list, deps, rdeps, changes, taint and owners-style queries construct their selector with selection.New and reach the same filter function as the build selector", 4)
	newSel := anchor(c, "R20d", "selection", "", "New")
	filt := selectorFilterFunc(c, "R20d")
	if newSel == nil || filt == nil {
		return
	}
	cmds := cobraCommands(c)
	var namesL []string
	for n := range cmds {
		namesL = append(namesL, n)
	}
	sort.Strings(namesL)
	for _, name := range []string{"list", "deps", "rdeps", "changes", "taint"} {
		fn := cmds[name]
		if fn == nil {
			c.Unknown("R20d", "query-filter/"+name, "anchor-unresolved: cobra command `"+name+"` not found (have "+strings.Join(namesL, ",")+")", "-")
			continue
		}
		reach := c.G.ReachableFuncs([]*ssa.Function{fn}, nil)
		c.Require(reach[newSel] && reach[filt], "R20d", "query-filter/"+name, "`"+name+"` builds a selection.Selector and reaches nodeMatchesFilters", "`"+name+"` no longer filters through the selector shared with `build` (its matches could differ from what a build selects)", c.P.Pos(fn.Pos()))
	}
}

func ruleR20d(c *Check) {
	c.Rule("R20e", "owners and changes derive the compared path from Target.Inputs (resolved) joined with the package through filepath.Join (which cleans ./ and ..) and made absolute by the workspace helper, and compare it as a whole (no prefix / substring / pattern test)", 2)
	cmds := cobraCommands(c)
	abs := c.P.Func("config", "", "GetPathAbsoluteToWorkspaceRoot")
	for _, name := range []string{"owners", "changes"} {
		fn := cmds[name]
		if fn == nil || abs == nil {
			c.Unknown("R20e", "input-path/"+name, "anchor-unresolved: command or path helper not found", "-")
			continue
		}
		fns := c.G.ReachableFuncs([]*ssa.Function{fn}, func(f *ssa.Function) bool { return !engine.InPackage(f, "cmd") })
		ok := false
		why := "no absolute path derived from Target.Inputs"
		for f := range fns {
			if !engine.InPackage(f, "cmd") {
				continue
			}
			for _, s := range callsToFn(c, f, abs) {
				back := c.G.Backward([]Node{s.Common().Args[0]}, localTo(f))
				if !back.Has(fk("model.Target", "Inputs")) {
					if back.Has(fk("model.Target", "UnresolvedInputs")) {
						why = "the compared path is built from UnresolvedInputs (glob patterns), not the resolved inputs"
					}
					continue
				}
				joined := false
				for n := range back.Parent {
					if call, okc := n.(*ssa.Call); okc && engine.CalleeName(call) == "path/filepath.Join" {
						joined = true
					}
				}
				if joined && back.Has(fk("label.TargetLabel", "Package")) {
					ok = true
				} else {
					why = "the input path is not built with filepath.Join(package, input): spellings like ./x or a/../x do not compare equal to the edited file's path"
				}
			}
		}
		c.Require(ok, "R20e", "input-path/"+name, "compares GetPathAbsoluteToWorkspaceRoot(filepath.Join(package, resolved input))", why, c.P.Pos(fn.Pos()))
		// ... and compares it as a whole: a substring or prefix test on a path has no component boundary
		// (Dockerfile is a prefix of Dockerfile.dev)
		var paths []Node
		for f := range fns {
			if engine.InPackage(f, "cmd") {
				for _, s := range callsToFn(c, f, abs) {
					if v := s.Value(); v != nil {
						paths = append(paths, v)
					}
				}
			}
		}
		if len(paths) == 0 {
			continue
		}
		fwd := c.G.Forward(paths, func(e *engine.Edge) bool {
			return e.Via == nil || engine.InPackage(e.Via.Parent(), "cmd")
		})
		partial := ""
		for f := range fns {
			if !engine.InPackage(f, "cmd") {
				continue
			}
			for _, s := range engine.SitesIn(f) {
				switch engine.CalleeName(s) {
				case "strings.HasPrefix", "strings.HasSuffix", "strings.Contains", "strings.Index", "strings.EqualFold", "path/filepath.Match", "path.Match":
					for _, a := range s.Common().Args {
						if fwd.Has(a) {
							partial = engine.CalleeName(s) + " at " + c.P.InstrPos(s)
						}
					}
				}
			}
		}
		c.Require(partial == "", "R20e", "input-path-compared-whole/"+name, "the input path is compared by equality", "the absolute input path is matched with "+partial+" instead of being compared as a whole: a file whose path is a string prefix of another target's input (Dockerfile / Dockerfile.dev, app.yaml / app.yaml.tmpl) is attributed to the wrong owners", c.P.Pos(fn.Pos()))
	}
}

// R20g: what a query answers and what a build walks is one graph. Wherever edges are added to a graph from the
// loaded nodes, the loop ranges over the whole node map and over each node's GetDependencies() through the
// BuildNode interface — aliases contribute their alias -> actual edge like targets contribute theirs; a builder
// that ranges over the targets only yields a graph in which nothing is reachable through an alias.
// declaredDependencyList: the value is the result of BuildNode.GetDependencies() called through the interface,
// or of a first-party helper that returns that list or a list it fills while ranging over it (returned with
// the helper, so that a caller can ask what the helper's loop does).
func declaredDependencyList(c *Check, v ssa.Value) (*ssa.Function, bool) {
	isDirect := func(x ssa.Value) bool {
		for _, o := range engine.Origins(x) {
			if call, _ := engine.CallOf(o); call != nil && call.Common().IsInvoke() && call.Common().Method.Name() == "GetDependencies" {
				return true
			}
		}
		return false
	}
	if isDirect(v) {
		return nil, true
	}
	for _, o := range engine.Origins(v) {
		call, _ := engine.CallOf(o)
		if call == nil {
			continue
		}
		h := call.Common().StaticCallee()
		if h == nil || len(h.Blocks) == 0 || !engine.IsFirstParty(pkgPathOf(h)) {
			continue
		}
		all, any := true, false
		for _, r := range engine.Returns(h) {
			if len(r.Results) == 0 {
				continue
			}
			if isDirect(r.Results[0]) {
				any = true
				continue
			}
			// a local list appended to in loops over the declared list
			filled := false
			for _, b := range h.Blocks {
				for _, in := range b.Instrs {
					ap, ok := in.(*ssa.Call)
					if !ok {
						continue
					}
					if bi, isB := ap.Call.Value.(*ssa.Builtin); !isB || bi.Name() != "append" || !sameSlice(ap, r.Results[0]) {
						continue
					}
					if lp := engine.LoopOf(ap); lp != nil && lp.RangedValue() != nil && isDirect(lp.RangedValue()) {
						filled = true
					} else {
						all = false
					}
				}
			}
			if filled {
				any = true
			} else {
				all = false
			}
		}
		if any && all {
			return h, true
		}
	}
	return nil, false
}

func ruleEdgesFromAllNodes(c *Check, rule string) {
	c.Rule(rule, "every call of the graph's edge-adding function outside internal/dag sits in a loop over a model.BuildNodeMap (all node kinds) and a loop over the result of BuildNode.GetDependencies() called through the interface", 1)
	addEdge := anchor(c, rule, "dag", "DirectedTargetGraph", "AddEdge")
	if addEdge == nil {
		return
	}
	var loopsOf func(at ssa.Instruction, depth int) []*engine.Loop
	loopsOf = func(at ssa.Instruction, depth int) []*engine.Loop {
		loops := engine.LoopsContaining(at)
		if depth < 2 {
			if callers := c.G.CallersOf(at.Parent()); len(callers) == 1 {
				loops = append(loops, loopsOf(callers[0], depth+1)...)
			}
		}
		return loops
	}
	n := 0
	for _, s := range c.G.CallersOf(addEdge) {
		fn := s.Parent()
		if engine.InPackage(fn, "dag") {
			continue // copies between graphs (subgraph construction) start from edges that exist
		}
		// only builders: functions that create the graph they add edges to
		builds := false
		for _, cs := range engine.SitesIn(fn) {
			if h := cs.Common().StaticCallee(); h != nil && engine.InPackage(h, "dag") && h.Signature.Recv() == nil && h.Signature.Results().Len() > 0 && engine.TypeKey(h.Signature.Results().At(0).Type()) == "dag.DirectedTargetGraph" {
				builds = true
			}
		}
		if !builds {
			if callers := c.G.CallersOf(fn); len(callers) == 1 {
				for _, cs := range engine.SitesIn(callers[0].Parent()) {
					if h := cs.Common().StaticCallee(); h != nil && engine.InPackage(h, "dag") && h.Signature.Recv() == nil && h.Signature.Results().Len() > 0 && engine.TypeKey(h.Signature.Results().At(0).Type()) == "dag.DirectedTargetGraph" {
						builds = true
					}
				}
			}
		}
		if !builds {
			continue // an edge added to a finished graph for one extra node (`grog run script`)
		}
		n++
		allNodes, viaIface := false, false
		for _, lp := range loopsOf(s, 0) {
			rv := lp.RangedValue()
			if rv == nil {
				continue
			}
			if engine.TypeKey(rv.Type()) == "model.BuildNodeMap" {
				allNodes = true
			}
			if _, ok := declaredDependencyList(c, rv); ok {
				viaIface = true
			}
		}
		what := ""
		switch {
		case !allNodes:
			what = "the edges are not added in a loop over the whole node map (a narrowed view such as the targets only leaves out the alias nodes)"
		case !viaIface:
			what = "the dependencies are not taken from BuildNode.GetDependencies() through the interface (an alias's edge to its actual target is then missing)"
		}
		c.Require(what == "", rule, "edges-from-all-nodes/"+c.P.FuncName(fn), "edges are added for every node kind from its own dependency list", what+": deps/rdeps stop at aliases and the rebuild set after an edit is no longer inside owners + rdeps", c.P.InstrPos(s))
	}
	if n == 0 {
		c.Unknown(rule, "edges-from-all-nodes", "no caller of the edge-adding function outside internal/dag", "-")
	}
}

// R20h: file contents enter a target's key through its resolved inputs only. The packages that build the target
// description never compute a digest: a digest of some file put into the description (a fingerprint entry, say)
// makes the target depend on a file that `owners` does not attribute to it.
func ruleNoDigestInDescription(c *Check, rule string) {
	c.Rule(rule, "no digest computed by the packages that build the target description (loading, model, label: calls into crypto/*, hash/*, xxh3, internal/hashing) flows into a field of the loader DTOs or of the model: contents reach the key only through Target.Inputs", 1)
	n, sites, digests := 0, 0, 0
	for _, fn := range c.P.Funcs {
		if !(engine.InPackage(fn, "loading") || engine.InPackage(fn, "model") || engine.InPackage(fn, "label")) {
			continue
		}
		if fn.Synthetic != "" {
			continue
		}
		n++
		for _, s := range engine.SitesIn(fn) {
			sites++
			name := engine.CalleeName(s)
			name = strings.TrimPrefix(strings.TrimPrefix(name, "(*"), "(")
			if !(strings.HasPrefix(name, "crypto/") || strings.HasPrefix(name, "hash/") || strings.HasPrefix(name, "github.com/zeebo/xxh3") || strings.HasPrefix(name, "grog/internal/hashing")) {
				continue
			}
			digests++
			var srcs []Node
			if v := s.Value(); v != nil {
				srcs = append(srcs, v)
			}
			for _, a := range s.Common().Args {
				srcs = append(srcs, a) // a hasher object that is written to and summed later
			}
			fwd := c.G.Forward(srcs, nil)
			var hit []string
			for node := range fwd.Parent {
				if k, ok := node.(engine.FieldKey); ok && (strings.HasPrefix(k.T, "loading.") && strings.HasSuffix(k.T, "DTO") || strings.HasPrefix(k.T, "model.")) {
					hit = append(hit, k.String())
				}
			}
			if len(hit) > 0 {
				sort.Strings(hit)
				if len(hit) > 4 {
					hit = append(hit[:4], "…")
				}
				c.Bad(rule, "no-digest-in-description/"+c.P.FuncName(fn), "a digest computed while the target description is built ("+engine.CalleeName(s)+") flows into "+strings.Join(hit, ", ")+": whatever it covers becomes part of the target's state without being one of its inputs, so editing it re-executes targets that `owners` does not list", c.P.InstrPos(s))
			}
		}
	}
	c.OK(rule, "no-digest-in-description", strconv.Itoa(sites)+" call sites in "+strconv.Itoa(n)+" functions of loading, model and label, "+strconv.Itoa(digests)+" of them digest computations: none flows into the description", "-")
}
