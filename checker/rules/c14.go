package rules

import (
	"fmt"
	"strings"

	"golang.org/x/tools/go/ssa"

	"grogverif/engine"
)

func init() { register("C14", runC14) }

func runC14(c *Check, tier string) {
	c.Decides = "success/caching is dominated by exit 0 (command error nil), post-execution output checks and stored outputs (no dropped error in any function on the write path, including the handlers' helpers, so a missing declared output fails); a failing pre-execution output check is on every cache-hit path; the command context carries the target's timeout and the command is created with exec.CommandContext on it; the check runner fails on command error and on expected-output mismatch and visits every check; the completion reports success for a target with declared outputs only after a registry call that checks every declared output."
	c.NotDec = "what the checked external condition is at run time, timing of the deadline, histories in which the condition changes between builds."
	ruleR05a(c, "R14a")
	ruleR14b(c)
	ruleR14c(c, "R14c")
	ruleR14d(c, "R14d")
	ruleWritePathErrors(c, "R14e")
	ruleR14f(c, "R14f")
	// "success" is what the store path records and what the process exits with
	useFamily(c, "R14h", famStore, 20)
	// an output check (and the command) fails when its last command fails
	ruleWrapperStatus(c, "R14j")
	// a declared expected_output of the wrong type is an error, not a check that compares nothing
	ruleStarlarkFieldTypeErrors(c, "R14k")
	// the outputs that are checked after the command are the declared ones
	ruleModelSlicesNotWrittenThrough(c, "R14l")
	// a declared timeout reaches the target whatever the file format
	shareRule(c, "R14m", "every field of the annotation struct a loader unmarshals is carried into the target it builds (same obligations as R16c): a timeout that the loader drops is never enforced", 10, "R16c", func(sub *Check) { ruleR16c(sub) }, nil)
	shareRule(c, "R14i", "a non-nil execution error or any failed completion ends in a non-zero exit (same obligations as R05d)", 3, "R05d", func(sub *Check) { ruleR05d(sub, "R05d") }, nil)
	// a timeout is a failure: the walker records every error but plain cancellation
	if w := findWalker(c, "R14g"); w != nil {
		shareRule(c, "R14g", "after the callback returned the node routine reports a completion on every path unless the walk's own context is done (same obligation as R04c)", 1, "R04c", func(sub *Check) { ruleR04c(sub, w) }, func(k string) bool { return strings.Contains(k, "completion-on-every-exit") })
	}
	// round 7: the wrapper lines that carry the exit status cannot be consumed by the command
	ruleCommandNotOnStdin(c, "R14n")
	if false {
	}
}

// R14f: a target that declares outputs is reported successful only after a call that looked at every
// declared output (stored them or hashed them locally) returned nil.
func ruleR14f(c *Check, rule string) {
	c.Rule(rule, "in the completion function every `return nil` is preceded by an output-producing call on the registry (WriteOutputs / GetNoCacheOutputHash — the calls that fail when a declared output is missing), except on the branch where the target declares no outputs", 1)
	ex := findExec(c, rule)
	if ex == nil {
		return
	}
	complete := ex.Complete
	reg := c.P.Type("output", "Registry")
	producers, _ := liftedSites(c, complete, func(s ssa.CallInstruction) bool {
		sig := s.Common().Signature()
		return sig.Results().Len() == 2 && engine.TypeKey(sig.Results().At(0).Type()) == "proto/gen.TargetResult" && engine.ErrResultIndex(sig) == 1 &&
			sig.Recv() != nil && reg != nil && engine.TypeKey(sig.Recv().Type()) == "output.Registry"
	}, 0)
	key := "outputs-verified-before-success/" + c.P.FuncName(complete)
	if len(producers) == 0 {
		c.Unknown(rule, key, "no output-producing call found in the completion function", "-")
		return
	}
	isProducer := func(in ssa.Instruction) bool {
		for _, p := range producers {
			if in == ssa.Instruction(p) {
				return true
			}
		}
		return false
	}
	noOutputs := engine.CutEdgesWhere(func(a engine.Atom) bool {
		arg, ok := lenArg(a.V)
		if !ok || !(a.Op == "eq" || a.Op == "le") {
			return false
		}
		k, isK := a.Other.(*ssa.Const)
		if !isK || k.Value == nil || k.Int64() != 0 {
			return false
		}
		call, _ := engine.CallOf(arg)
		return call != nil && strings.HasSuffix(engine.CalleeName(call), "model.Target).AllOutputs")
	})
	reach, at := nilReturnReachable(complete, engine.PathQuery{CutInstr: isProducer, CutEdge: noOutputs}, 0)
	pos := c.P.Pos(complete.Pos())
	if at != nil {
		pos = c.P.InstrPos(at)
	}
	c.Require(!reach, rule, key, "success is reported only after WriteOutputs/GetNoCacheOutputHash (or for a target without outputs)", "the completion can report success for a target with declared outputs without any call that checks they exist: a command that exits 0 without creating a declared output would be reported (and, for dependants, treated) as successful", pos)
}

func ruleR14b(c *Check) {
	c.Rule("R14b", "every path to `return dag.CacheHit` passes the nil branch of the pre-execution output-check result (a failing check forces execution even when a cached result exists)", 1)
	g := analyseGate(c, "R14b")
	if g == nil {
		return
	}
	gname := c.P.FuncName(g.Fn)
	if len(g.PreChecks) == 0 {
		c.Bad("R14b", "check-forces-execution/"+gname, "the gate does not run the output checks before deciding on a cache hit", c.P.Pos(g.Fn.Pos()))
		return
	}
	ok, at := g.hitRequires(func(a engine.Atom) bool {
		set := map[ssa.CallInstruction]int{}
		for _, p := range g.PreChecks {
			set[p] = 0
		}
		return a.Op == "nil" && engine.OriginsAllFromCall(a.V, set, false)
	})
	pos := c.P.InstrPos(g.PreChecks[0])
	if at != nil {
		pos = c.P.InstrPos(at)
	}
	c.Require(ok, "R14b", "check-forces-execution/"+gname, "every hit return is dominated by the `output check error == nil` branch",
		"a cache hit is returned although the pre-execution output check failed: the check result is computed but is not part of the hit condition, so the target is restored instead of executed", pos)
}

func ruleR14c(c *Check, rule string) {
	c.Rule(rule, "when Target.Timeout > 0 the command runs on context.WithTimeout(ctx, Target.Timeout); the command is created with exec.CommandContext on the runner's context parameter and has a positive WaitDelay", 4)
	ex := findExec(c, rule)
	if ex == nil {
		return
	}
	fn := ex.ExecCommand
	fname := c.P.FuncName(fn)
	wts := callsNamed(fn, "context.WithTimeout", "context.WithDeadline")
	runs := callsToFn(c, fn, ex.RunCommand)
	if len(wts) == 0 && len(runs) > 0 && timeoutThroughHelper(c, rule, fn, fname, runs) {
		wts = nil
	} else if len(wts) == 0 || len(runs) == 0 {
		c.Bad(rule, "timeout-applied/"+fname, "no context.WithTimeout (or no command call) in the command executor", c.P.Pos(fn.Pos()))
		return
	}
	if len(wts) > 0 {
		r14cDirect(c, rule, fn, fname, wts[0], runs)
	}
	r14cRunner(c, rule, ex)
}

// timeoutThroughHelper: the command's context comes from a helper `derive(ctx, timeout)` that returns
// context.WithTimeout(ctx, timeout) whenever timeout > 0; the executor hands it Target.Timeout and runs the
// command on what it returns.
func timeoutThroughHelper(c *Check, rule string, fn *ssa.Function, fname string, runs []ssa.CallInstruction) bool {
	for _, s := range engine.SitesIn(fn) {
		call, ok := s.(*ssa.Call)
		if !ok {
			continue
		}
		h := call.Call.StaticCallee()
		if h == nil || len(h.Blocks) == 0 || !engine.IsFirstParty(pkgPathOf(h)) {
			continue
		}
		hw := callsNamed(h, "context.WithTimeout", "context.WithDeadline")
		if len(hw) != 1 || h.Signature.Results().Len() == 0 || h.Signature.Results().At(0).Type().String() != "context.Context" {
			continue
		}
		wt := hw[0]
		// the duration is a parameter of the helper, and the executor passes Target.Timeout for it
		pj := -1
		for _, o := range engine.Origins(wt.Common().Args[1]) {
			for j, p := range h.Params {
				if o == ssa.Value(p) {
					pj = j
				}
			}
		}
		if pj < 0 || pj >= len(call.Call.Args) {
			continue
		}
		_, fromField := fieldReadOn(call.Call.Args[pj], "Timeout")
		c.Require(fromField, rule, "timeout-duration/"+fname, "the deadline duration is Target.Timeout", "the context deadline is not Target.Timeout", c.P.InstrPos(call))
		// in the helper: with a positive duration every return yields the WithTimeout context
		bypass := false
		for _, r := range engine.Returns(h) {
			fromWT := false
			for _, o := range engine.Origins(r.Results[0]) {
				if cl, idx := engine.CallOf(o); cl == wt && idx == 0 {
					fromWT = true
				}
			}
			if fromWT {
				continue
			}
			if reach, _ := engine.PathExists(h, nil, engine.IsInstr(r), engine.PathQuery{Shallow: true, CutEdge: engine.CutEdgesWhere(func(a engine.Atom) bool {
				if a.V != ssa.Value(h.Params[pj]) {
					return false
				}
				k, ok := a.Other.(*ssa.Const)
				return ok && k.Value != nil && k.Int64() == 0 && (a.Op == "le" || a.Op == "eq")
			})}); reach {
				bypass = true
			}
		}
		for _, r := range runs {
			fromHelper := false
			for _, o := range engine.Origins(r.Common().Args[0]) {
				if cl, idx := engine.CallOf(o); cl == ssa.CallInstruction(call) && idx == 0 {
					fromHelper = true
				}
			}
			skip, _ := engine.PathExists(fn, nil, engine.IsInstr(r), engine.PathQuery{CutInstr: engine.IsInstr(call), Shallow: true})
			c.Require(fromHelper && !skip && !bypass, rule, "timeout-applied/"+fname, "the command runs on the context a helper derives with WithTimeout whenever the timeout is positive",
				fmt.Sprintf("the command does not run under the target's timeout (context from the deriving helper: %v; helper bypassed: %v; helper returns a context without deadline for a positive timeout: %v)", fromHelper, skip, bypass), c.P.InstrPos(r))
		}
		return true
	}
	return false
}

func r14cDirect(c *Check, rule string, fn *ssa.Function, fname string, wt ssa.CallInstruction, runs []ssa.CallInstruction) {
	_, fromField := fieldReadOn(wt.Common().Args[1], "Timeout")
	c.Require(fromField, rule, "timeout-duration/"+fname, "the deadline duration is Target.Timeout", "the context deadline is not Target.Timeout", c.P.InstrPos(wt))
	for _, r := range runs {
		ctxArg := r.Common().Args[0]
		fromWT := false
		for _, o := range engine.Origins(ctxArg) {
			if call, idx := engine.CallOf(o); call == wt && idx == 0 {
				fromWT = true
			}
		}
		// when Timeout > 0 the run is only reachable through WithTimeout
		skip, _ := engine.PathExists(fn, nil, engine.IsInstr(r), engine.PathQuery{
			CutInstr: engine.IsInstr(wt),
			CutEdge: engine.CutEdgesWhere(func(a engine.Atom) bool {
				_, isT := fieldReadOn(a.V, "Timeout")
				if !isT {
					return false
				}
				k, ok := a.Other.(*ssa.Const)
				return ok && k.Value != nil && k.Int64() == 0 && (a.Op == "le" || a.Op == "eq")
			}),
		})
		c.Require(fromWT && !skip, rule, "timeout-applied/"+fname, "the command runs on the WithTimeout context whenever Target.Timeout > 0",
			fmt.Sprintf("the command does not run under the target's timeout (context from WithTimeout: %v; timeout branch can be bypassed: %v)", fromWT, skip), c.P.InstrPos(r))
	}
}

func r14cRunner(c *Check, rule string, ex *execAnchors) {
	// runner: CommandContext on the ctx parameter, WaitDelay > 0
	rn := ex.RunCommand
	var ctxParam ssa.Value
	for _, p := range rn.Params {
		if p.Type().String() == "context.Context" {
			ctxParam = p
			break
		}
	}
	// the runner and the private helpers it was split into (the construction of the exec.Cmd)
	region := regionOf(c, rn)
	var cc, plain []ssa.CallInstruction
	for f := range region {
		cc = append(cc, callsNamed(f, "os/exec.CommandContext")...)
		plain = append(plain, callsNamed(f, "os/exec.Command")...)
	}
	okCC := len(cc) == 1 && len(plain) == 0
	if okCC {
		// the context handed to CommandContext is the runner's context parameter, possibly passed down
		// through the helper's own context parameter
		var isRunnerCtx func(v ssa.Value, in *ssa.Function, d int) bool
		isRunnerCtx = func(v ssa.Value, in *ssa.Function, d int) bool {
			for _, o := range engine.Origins(v) {
				if o == ctxParam {
					return true
				}
				p, isParam := o.(*ssa.Parameter)
				if !isParam || in == rn || d > 2 {
					continue
				}
				idx := -1
				for i, q := range in.Params {
					if q == p {
						idx = i
					}
				}
				sites := c.G.CallersOf(in)
				if idx < 0 || len(sites) == 0 {
					continue
				}
				all := true
				for _, s := range sites {
					if idx >= len(s.Common().Args) || !region[engine.TopFunc(s.Parent())] || !isRunnerCtx(s.Common().Args[idx], engine.TopFunc(s.Parent()), d+1) {
						all = false
					}
				}
				if all {
					return true
				}
			}
			return false
		}
		okCC = isRunnerCtx(cc[0].Common().Args[0], engine.TopFunc(cc[0].Parent()), 0)
	}
	pos := c.P.Pos(rn.Pos())
	if len(cc) > 0 {
		pos = c.P.InstrPos(cc[0])
	}
	c.Require(okCC, rule, "command-context/"+c.P.FuncName(rn), "the shell is started with exec.CommandContext on the runner's context parameter", "the shell is not started with exec.CommandContext on the caller's context: timeouts and cancellation would not stop it", pos)
	okWD := false
	for _, st := range storesToField(c, fk("os/exec.Cmd", "WaitDelay")) {
		if region[engine.TopFunc(st.Parent())] {
			if k, ok := st.Val.(*ssa.Const); ok && k.Value != nil && k.Int64() > 0 {
				okWD = true
			}
		}
	}
	c.Require(okWD, rule, "wait-delay/"+c.P.FuncName(rn), "cmd.WaitDelay is set to a positive constant (bounded shutdown after cancellation)", "cmd.WaitDelay is not set to a positive constant: a cancelled or timed-out command whose children keep the pipes open blocks forever", pos)
}

func ruleR14d(c *Check, rule string) {
	c.Rule(rule, "the output-check runner ranges over every check without early success, fails on a command error and on a trimmed expected/actual mismatch", 2)
	ex := findExec(c, rule)
	if ex == nil {
		return
	}
	fn := ex.OutputChecks
	fname := c.P.FuncName(fn)
	runs := callsToFn(c, fn, ex.RunCommand)
	if len(runs) == 0 {
		// the loop body was extracted: the call in the loop is the call of the helper that runs the command
		runs = sitesReaching(c, fn, fnSet(ex.RunCommand))
	}
	if len(runs) == 0 {
		c.Unknown(rule, "checks-loop/"+fname, "no command call in the check runner", "-")
		return
	}
	lp := engine.LoopOf(runs[0])
	okLoop := lp != nil && lp.IsFullRange()
	why := "the check command is not run in a full range over Target.OutputChecks"
	if okLoop {
		if _, isChecks := fieldReadOn(lp.RangedValue(), "OutputChecks"); !isChecks {
			okLoop = false
		} else if w := lp.EarlyExitReaches(successReturn); w != "" {
			okLoop = false
			why = "the loop over the checks can return success before the last check: " + w
		}
	}
	if okLoop {
		// the check command runs on every iteration
		if lp.IterationCanSkip(engine.IsInstr(runs[0]), nil) {
			okLoop = false
			why = "an iteration of the loop over the checks can skip running the check command (conditional `continue`, memoised result): a check whose condition was destroyed is not re-evaluated"
		}
	}
	c.Require(okLoop, rule, "checks-loop/"+fname, "every check is run on every call; success is returned only after the last one", why, c.P.InstrPos(runs[0]))
	// mismatch comparison: an `ne` atom between values derived from ExpectedOutput and from the command output, leading only to failure
	found := false
	okCmp := true
	// when the loop body was extracted, the comparison sits next to the command call, in the helper
	if len(callsToFn(c, fn, ex.RunCommand)) == 0 {
		if call, ok := runs[0].(*ssa.Call); ok {
			if h := call.Call.StaticCallee(); h != nil && len(callsToFn(c, h, ex.RunCommand)) > 0 {
				fn = h
				runs = callsToFn(c, h, ex.RunCommand)
				lp = engine.LoopOf(runs[0])
			}
		}
	}
	for _, b := range fn.Blocks {
		for i := range b.Succs {
			a, ok := engine.EdgeAtom(b, i)
			if !ok || a.Op != "ne" || a.Other == nil {
				continue
			}
			bx := c.G.Backward([]Node{a.V}, localTo(fn))
			by := c.G.Backward([]Node{a.Other}, localTo(fn))
			exp := fk("model.OutputCheck", "ExpectedOutput")
			hasExp := bx.Has(exp) || by.Has(exp)
			hasOut := false
			for _, r := range runs {
				if v := r.Value(); v != nil && (bx.Has(v) || by.Has(v)) {
					hasOut = true
				}
			}
			if !hasExp || !hasOut {
				continue
			}
			found = true
			s := b.Succs[i]
			if reach, _ := engine.PathExists(fn, s.Instrs[0], successReturn, engine.PathQuery{CutEdge: func(bb *ssa.BasicBlock, si int) bool { return lp != nil && lp.Body[bb] && bb.Succs[si] == lp.Header }}); reach || successReturn(s.Instrs[0]) {
				okCmp = false
			}
			// and it must not be possible to continue the loop from the mismatch edge
			if lp != nil {
				if engine.ReachableWithin(s, nil, nil)[lp.Header] && lp.Body[s] {
					okCmp = false
				}
			}
		}
	}
	c.Require(found && okCmp, rule, "mismatch-fails/"+fname, "an expected/actual mismatch leads only to an error return",
		map[bool]string{true: "after an expected/actual mismatch the runner can still continue or return success", false: "no comparison between the expected output and the command output found: expected_output is not enforced"}[found], c.P.Pos(fn.Pos()))
}

func localTo(fn *ssa.Function) engine.EdgeFilter {
	return func(e *engine.Edge) bool {
		if e.Via == nil {
			return false
		}
		return e.Via.Parent() == fn && e.Kind != engine.EField
	}
}

// ruleWritePathErrors: no dropped error in any first-party function of the output
// write path (handlers and their helpers, registry, CAS, fs backend).
func ruleWritePathErrors(c *Check, rule string) {
	c.Rule(rule, "no function on the output write path (handler Write implementations and every handlers/output/caching helper they reach) drops an error on the way to a success return", 10)
	h := c.P.Type("output/handlers", "Handler")
	roots := methodImpls(c, h, "Write")
	roots = append(roots, methodImpls(c, h, "Hash")...)
	if wo := c.P.Func("output", "Registry", "WriteOutputs"); wo != nil {
		roots = append(roots, wo)
	}
	if nc := c.P.Func("output", "Registry", "GetNoCacheOutputHash"); nc != nil {
		roots = append(roots, nc)
	}
	reach := c.G.ReachableFuncs(roots, nil)
	var fns []*ssa.Function
	for _, fn := range c.P.Funcs {
		if !reach[fn] {
			continue
		}
		// the hashing helpers the handlers reach are part of the path: one that tolerates a missing file
		// (as the input hasher does for inputs) turns a missing declared output into a success
		if engine.InPackage(fn, "output") || engine.InPackage(fn, "caching") || engine.InPackage(fn, "hashing") {
			fns = append(fns, fn)
		}
	}
	requireNoDroppedErrors(c, rule, fns, nil)
}
