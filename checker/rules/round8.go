package rules

import (
	"go/token"
	"go/types"
	"strings"

	"golang.org/x/tools/go/ssa"

	"grogverif/engine"
)

// Round 8: rules that the eighth round of independently seeded changes led to.

func inAnyPackage(fn *ssa.Function, pkgs ...string) bool {
	for _, p := range pkgs {
		if engine.InPackage(fn, p) {
			return true
		}
	}
	return false
}

// R04r / R15p: a lock taken per loop element is given back per loop element. `defer m.Unlock(k)` inside a
// loop keeps every element's lock until the function returns; two callers that range over the same elements
// in different orders then hold one lock each and wait for the other — the build never returns.
func ruleNoDeferredUnlockInLoop(c *Check, rule string, pkgs ...string) {
	c.Rule(rule, "in "+strings.Join(pkgs, ", ")+" no unlock of a mutex (sync.Mutex/RWMutex, the keyed MutexMap) is deferred inside a loop: a lock taken for one element of a loop is released before the next element is locked, so no function holds several element locks in data-dependent order", 0)
	isUnlock := func(name string) bool {
		return strings.HasSuffix(name, ".Unlock") || strings.HasSuffix(name, ".RUnlock")
	}
	n := 0
	for _, fn := range c.P.Funcs {
		if !inAnyPackage(fn, pkgs...) {
			continue
		}
		for _, b := range fn.Blocks {
			for _, in := range b.Instrs {
				d, ok := in.(*ssa.Defer)
				if !ok {
					continue
				}
				name := engine.CalleeName(d)
				unlocks := isUnlock(name)
				if !unlocks {
					// defer func() { m.Unlock(k) }()
					if mc, isMC := d.Call.Value.(*ssa.MakeClosure); isMC {
						if lit, isFn := mc.Fn.(*ssa.Function); isFn {
							for _, s := range engine.SitesIn(lit) {
								if isUnlock(engine.CalleeName(s)) {
									unlocks = true
								}
							}
						}
					}
				}
				if !unlocks {
					continue
				}
				n++
				key := "no-deferred-unlock-in-loop/" + c.P.FuncName(fn)
				c.Require(!engine.InLoop(d), rule, key, "the deferred unlock is registered once, outside any loop", "an unlock is deferred inside a loop: the lock taken for each element stays held until the function returns, so the function accumulates one lock per element in the order of its list — two callers whose lists name the same elements in different orders (two dependants declaring the same dependencies the other way round, a dependency reachable twice) each hold one lock and wait for the other, and the build hangs", c.P.InstrPos(d))
			}
		}
	}
	if n == 0 {
		c.OK(rule, "no-deferred-unlock-in-loop/none", "no deferred unlock in "+strings.Join(pkgs, ", "), "-")
	}
}

// R03o / R05q: a recovered panic is a failure. A deferred recover() that only logs lets the function return
// whatever its results hold at that moment — for an unnamed result the zero value, which for a task result is
// "cache hit, no error": the walker releases the dependants of a target that blew up.
func ruleRecoveredPanicIsAnError(c *Check, rule string, pkgs ...string) {
	c.Rule(rule, "wherever a function of "+strings.Join(pkgs, ", ")+" defers a recover(), the branch on which a panic was recovered re-panics or stores an error into a variable that outlives the deferring function (one of its named results, or a variable of an enclosing function): a recovered panic never turns into the zero value of the results", 2)
	n := 0
	for _, lit := range c.P.Funcs {
		if lit.Parent() == nil || !inAnyPackage(lit, pkgs...) {
			continue
		}
		var rec *ssa.Call
		for _, s := range engine.SitesIn(lit) {
			if b, ok := s.Common().Value.(*ssa.Builtin); ok && b.Name() == "recover" {
				if call, isCall := s.(*ssa.Call); isCall {
					rec = call
				}
			}
		}
		if rec == nil {
			continue
		}
		// the function that defers this literal
		host := lit.Parent()
		deferred := false
		var mcl *ssa.MakeClosure
		for _, b := range host.Blocks {
			for _, in := range b.Instrs {
				if d, ok := in.(*ssa.Defer); ok {
					if mc, isMC := d.Call.Value.(*ssa.MakeClosure); isMC && mc.Fn == ssa.Value(lit) {
						deferred, mcl = true, mc
					}
					if f, isFn := d.Call.Value.(*ssa.Function); isFn && f == lit {
						deferred = true
					}
				}
			}
		}
		if !deferred {
			continue
		}
		n++
		key := "recovered-panic-is-an-error/" + c.P.FuncName(host)
		// what outlives the host: its named results, and its own free variables
		outlives := map[ssa.Value]bool{}
		if mcl != nil {
			named := map[string]bool{}
			res := host.Signature.Results()
			for i := 0; i < res.Len(); i++ {
				if res.At(i).Name() != "" && res.At(i).Name() != "_" {
					named[res.At(i).Name()] = true
				}
			}
			for i, bnd := range mcl.Bindings {
				if i >= len(lit.FreeVars) {
					continue
				}
				switch x := bnd.(type) {
				case *ssa.FreeVar:
					outlives[lit.FreeVars[i]] = true
				case *ssa.Alloc:
					if named[x.Comment] {
						outlives[lit.FreeVars[i]] = true
					}
				}
			}
		}
		// on the recovered branch (recover() != nil): a panic call, or a store of a non-nil value into an
		// outliving error variable, on every path to the literal's return
		recovered := engine.CutEdgesWhere(func(a engine.Atom) bool {
			return a.Op == "nil" && engine.OriginsAllFromCall(a.V, map[ssa.CallInstruction]int{rec: 0}, false)
		})
		handled := func(in ssa.Instruction) bool {
			switch x := in.(type) {
			case *ssa.Panic:
				return true
			case *ssa.Store:
				if fv, ok := x.Addr.(*ssa.FreeVar); ok && outlives[fv] {
					if _, isErr := fv.Type().(*types.Pointer); isErr {
						return !isNilConstValue(x.Val)
					}
				}
				// a field of an outliving struct variable (result.Error = ...)
				if fa, ok := x.Addr.(*ssa.FieldAddr); ok {
					if fv, isFV := fa.X.(*ssa.FreeVar); isFV && outlives[fv] {
						return !isNilConstValue(x.Val)
					}
				}
			}
			return false
		}
		isRet := func(in ssa.Instruction) bool { _, ok := in.(*ssa.Return); return ok }
		reach, _ := engine.PathExists(lit, rec, isRet, engine.PathQuery{CutEdge: recovered, CutInstr: handled, Shallow: true})
		c.Require(!reach, rule, key, "a recovered panic re-panics or is stored as an error where the caller sees it", "the deferred recover() can swallow a panic without leaving an error where the caller will see it (the variable it writes, if any, is a local whose value was already returned): the function returns the zero value of its results — for a pool task that is 'cache hit, no error', so a target that blew up counts as finished and its dependants start", c.P.InstrPos(rec))
	}
	// the recovering function as a named helper that is deferred directly and receives the address of the error
	// cell (`defer recoverAsError(&err)`): on the recovered branch it re-panics or stores through that pointer,
	// and every defer site hands it the address of a named result (or of a variable that outlives the host)
	for _, h := range c.P.Funcs {
		if h.Parent() != nil || !inAnyPackage(h, pkgs...) {
			continue
		}
		var rec *ssa.Call
		for _, s := range engine.SitesIn(h) {
			if b, ok := s.Common().Value.(*ssa.Builtin); ok && b.Name() == "recover" {
				if call, isCall := s.(*ssa.Call); isCall {
					rec = call
				}
			}
		}
		if rec == nil {
			continue
		}
		var deferSites []*ssa.Defer
		for _, cs := range c.G.CallersOf(h) {
			if d, ok := cs.(*ssa.Defer); ok {
				deferSites = append(deferSites, d)
			}
		}
		if len(deferSites) == 0 {
			continue
		}
		n++
		key := "recovered-panic-is-an-error/" + c.P.FuncName(h)
		errParams := map[ssa.Value]int{}
		for i, p := range h.Params {
			if pt, ok := p.Type().Underlying().(*types.Pointer); ok && pt.Elem().String() == "error" {
				errParams[p] = i
			}
		}
		recovered := engine.CutEdgesWhere(func(a engine.Atom) bool {
			return a.Op == "nil" && engine.OriginsAllFromCall(a.V, map[ssa.CallInstruction]int{rec: 0}, false)
		})
		handled := func(in ssa.Instruction) bool {
			switch x := in.(type) {
			case *ssa.Panic:
				return true
			case *ssa.Store:
				if _, ok := errParams[x.Addr]; ok {
					return !isNilConstValue(x.Val)
				}
			}
			return false
		}
		isRet := func(in ssa.Instruction) bool { _, ok := in.(*ssa.Return); return ok }
		reach, _ := engine.PathExists(h, rec, isRet, engine.PathQuery{CutEdge: recovered, CutInstr: handled, Shallow: true})
		bad := ""
		if reach {
			bad = "the recovering helper can return after a recovered panic without re-panicking or storing an error through its error pointer"
		}
		for _, d := range deferSites {
			host := d.Parent()
			named := map[string]bool{}
			res := host.Signature.Results()
			for i := 0; i < res.Len(); i++ {
				if res.At(i).Name() != "" && res.At(i).Name() != "_" {
					named[res.At(i).Name()] = true
				}
			}
			for _, idx := range errParams {
				if idx >= len(d.Call.Args) {
					continue
				}
				okArg := false
				switch x := d.Call.Args[idx].(type) {
				case *ssa.Alloc:
					okArg = named[x.Comment]
				case *ssa.FreeVar:
					okArg = true
				}
				if !okArg {
					bad = "at " + c.P.InstrPos(d) + " the helper is handed the address of a local that is not a named result: the error it stores is lost when the function returns"
				}
			}
		}
		c.Require(bad == "", rule, key, "a recovered panic re-panics or is stored through the error pointer, which every defer site points at a named result", bad+": a recovered panic turns into the zero value of the results — for a pool task 'cache hit, no error'", c.P.InstrPos(rec))
	}
	if n == 0 {
		c.Unknown(rule, "recovered-panic-is-an-error", "no deferred recover() found: the rule lost its subject", "-")
	}
}

func isNilConstValue(v ssa.Value) bool {
	k, ok := v.(*ssa.Const)
	return ok && k.Value == nil
}

// R08r: a build deletes nothing from the cache but taint markers. A record that cannot be restored right now
// (a transient fault on one blob) is somebody else's valid result; deleting it through the write-through
// wrapper removes it from the shared remote store as well.
func ruleBuildNeverDeletesResults(c *Check, rule string) {
	c.Rule(rule, "from the build's entry point (Executor.Execute) the backends' Delete is reachable only through the taint cache (a consumed taint marker): no build path deletes a target result or a blob", 1)
	root := anchor(c, rule, "execution", "Executor", "Execute")
	if root == nil {
		return
	}
	taint := c.P.Type("caching", "TaintCache")
	isTaintMethod := func(f *ssa.Function) bool {
		t := engine.TopFunc(f)
		return taint != nil && t.Signature.Recv() != nil && engine.TypeKey(t.Signature.Recv().Type()) == "caching.TaintCache"
	}
	reach := c.G.ReachableFuncs([]*ssa.Function{root}, isTaintMethod)
	n := 0
	var bad []string
	for fn := range reach {
		if isTaintMethod(fn) || engine.InPackage(fn, "caching/backends") {
			continue // the wrapper forwarding a Delete is judged at whoever asks it to
		}
		for _, s := range engine.SitesIn(fn) {
			cc := s.Common()
			if cc.IsInvoke() && cc.Method.Name() == "Delete" && engine.TypeKey(cc.Value.Type()) == "caching/backends.CacheBackend" {
				n++
				bad = append(bad, c.P.FuncName(fn)+" at "+c.P.InstrPos(s))
			}
		}
	}
	c.Require(len(bad) == 0, rule, "build-never-deletes-results", "no backend Delete outside the taint cache is reachable from Executor.Execute", "a build can delete cache entries other than taint markers ("+strings.Join(bad, "; ")+"): with a remote backend the delete goes to the shared store too, so a record that one machine could not restore at this moment (a transient fault on a blob) disappears for every machine — a result that a successful build published is no longer retrievable", "-")
}

// R07t: an error of the content stream is end-of-stream only when it is io.EOF. Code that copies a blob in
// pieces and treats "the copy returned an error" as "that was the last piece" publishes whatever arrived
// before a fault under the digest of the whole content.
func ruleStreamErrorIsNotEOF(c *Check, rule string, pkgs ...string) {
	c.Rule(rule, "in "+strings.Join(pkgs, ", ")+" the error of a stream-reading call (io.Copy, io.CopyN, io.ReadFull, io.ReadAtLeast, io.ReadAll, Read) is handed on (returned, sent, stored, wrapped) or compared with io.EOF / io.ErrUnexpectedEOF — it is never merely tested for nil and turned into a boolean", 5)
	isEOFGlobal := func(v ssa.Value) bool {
		if ld, ok := v.(*ssa.UnOp); ok {
			if g, ok := ld.X.(*ssa.Global); ok && g.Pkg != nil && g.Pkg.Pkg.Path() == "io" && (g.Name() == "EOF" || g.Name() == "ErrUnexpectedEOF") {
				return true
			}
		}
		return false
	}
	n := 0
	for _, fn := range c.P.Funcs {
		if !inAnyPackage(fn, pkgs...) {
			continue
		}
		for _, s := range engine.SitesIn(fn) {
			call, ok := s.(*ssa.Call)
			if !ok {
				continue
			}
			name := engine.CalleeName(s)
			reads := false
			switch name {
			case "io.Copy", "io.CopyN", "io.CopyBuffer", "io.ReadFull", "io.ReadAtLeast", "io.ReadAll":
				reads = true
			}
			if cc := s.Common(); cc.IsInvoke() && cc.Method.Name() == "Read" {
				reads = true
			}
			idx := engine.ErrResultIndex(s.Common().Signature())
			if !reads || idx < 0 {
				continue
			}
			n++
			var errVals []ssa.Value
			if s.Common().Signature().Results().Len() == 1 {
				errVals = append(errVals, call)
			} else if call.Referrers() != nil {
				for _, r := range *call.Referrers() {
					if ex, isEx := r.(*ssa.Extract); isEx && ex.Index == idx {
						errVals = append(errVals, ex)
					}
				}
			}
			if len(errVals) == 0 {
				continue // discarded outright: errcheck territory, judged by the error-discipline rules where they apply
			}
			handed := len(errForwarders(s)) > 0
			comparedEOF := false
			onlyNilTests := true
			seen := map[ssa.Value]bool{}
			var walk func(v ssa.Value, d int)
			walk = func(v ssa.Value, d int) {
				if v == nil || seen[v] || d > 6 || v.Referrers() == nil {
					return
				}
				seen[v] = true
				for _, r := range *v.Referrers() {
					switch x := r.(type) {
					case *ssa.BinOp:
						if (x.Op == token.EQL || x.Op == token.NEQ) && (isEOFGlobal(x.X) || isEOFGlobal(x.Y)) {
							comparedEOF = true
						}
					case *ssa.Return, *ssa.Send, *ssa.MakeInterface, *ssa.Call:
						if _, isRet := r.(*ssa.Return); isRet && engine.ErrResultIndex(fn.Signature) >= 0 {
							handed = true
						}
						if cl, isCall := r.(*ssa.Call); isCall {
							cn := engine.CalleeName(cl)
							if cn == "errors.Is" || cn == "errors.As" {
								comparedEOF = true
							} else {
								handed = true // passed to a function: wrapped, logged as a failure, classified
							}
						}
						if _, isSend := r.(*ssa.Send); isSend {
							handed = true
						}
						if mi, isMI := r.(*ssa.MakeInterface); isMI {
							walk(mi, d+1)
						}
					case *ssa.Store:
						handed = true
					case *ssa.Phi:
						walk(x, d+1)
					case *ssa.ChangeInterface:
						walk(x, d+1)
					case *ssa.ChangeType:
						walk(x, d+1)
					case *ssa.DebugRef, *ssa.If:
					default:
						onlyNilTests = false
					}
				}
			}
			for _, e := range errVals {
				walk(e, 0)
			}
			_ = onlyNilTests
			c.Require(handed || comparedEOF, rule, "stream-error-is-not-eof/"+siteKey(c, s), "the read error is handed on or compared with io.EOF", "the error of a read from the content stream is only tested for nil and turned into a plain boolean (\"that was the last piece\"): a stream that breaks off — the producer failed, the other tier of a write-through closed the pipe with an error — is taken for a stream that ended, and the truncated content is completed and published under the digest of the whole blob", c.P.InstrPos(s))
		}
	}
	if n == 0 {
		c.Unknown(rule, "stream-error-is-not-eof", "no stream-reading call in "+strings.Join(pkgs, ", ")+": the rule lost its subject", "-")
	}
}

// R18s: a child process whose output goes through pipes has a wait delay. When Stdout/Stderr of an exec.Cmd is
// not an *os.File, os/exec copies through a pipe in a goroutine and Wait blocks until every holder of the
// pipe's write end has exited — a grandchild that survives the kill keeps grog from exiting after an interrupt.
func rulePipedCommandsHaveWaitDelay(c *Check, rule string) {
	c.Rule(rule, "every first-party function that creates an exec.Cmd on a context and gives it a Stdout/Stderr that is not an *os.File (or uses its pipes) also sets a positive WaitDelay: after an interrupt Wait returns although a surviving descendant still holds the pipe", 1)
	n := 0
	for _, s := range c.G.CallsTo("os/exec.CommandContext") {
		fn := engine.TopFunc(s.Parent())
		if !engine.IsFirstParty(pkgPathOf(fn)) {
			continue
		}
		region := regionOf(c, fn)
		region[s.Parent()] = true
		piped, delay := "", false
		for f := range region {
			for _, b := range f.Blocks {
				for _, in := range b.Instrs {
					switch x := in.(type) {
					case *ssa.Store:
						fa, ok := x.Addr.(*ssa.FieldAddr)
						if !ok {
							continue
						}
						k := engine.FieldKeyOf(fa.X.Type(), fa.Field)
						if !strings.HasSuffix(k.T, "exec.Cmd") {
							continue
						}
						switch k.F {
						case "Stdout", "Stderr":
							isFile := true
							for _, o := range engine.Origins(x.Val) {
								if o == nil {
									continue
								}
								v := o
								if mi, isMI := v.(*ssa.MakeInterface); isMI {
									v = mi.X
								}
								if !strings.HasSuffix(v.Type().String(), "*os.File") {
									isFile = false
								}
							}
							if !isFile {
								piped = k.F + " at " + c.P.InstrPos(x)
							}
						case "WaitDelay":
							if kc, isK := x.Val.(*ssa.Const); isK && kc.Value != nil && kc.Int64() > 0 {
								delay = true
							}
						}
					case *ssa.Call:
						switch engine.CalleeName(x) {
						case "(*os/exec.Cmd).StdoutPipe", "(*os/exec.Cmd).StderrPipe", "(*os/exec.Cmd).CombinedOutput", "(*os/exec.Cmd).Output":
							piped = engine.CalleeName(x) + " at " + c.P.InstrPos(x)
						}
					}
				}
			}
		}
		n++
		key := "piped-command-has-wait-delay/" + c.P.FuncName(fn)
		if piped == "" {
			c.OK(rule, key, "the child writes to files it inherits (no pipe, Wait cannot block on a copy)", c.P.InstrPos(s))
			continue
		}
		c.Require(delay, rule, key, "output goes through a pipe and WaitDelay is set", "the command's output goes through a pipe ("+piped+") and no WaitDelay is set: after SIGINT/SIGTERM the command is killed, but Wait blocks as long as any descendant of it still holds the pipe's write end — grog does not exit within a bounded time (only SIGKILL ends it)", c.P.InstrPos(s))
	}
	// the writers may be replaced by whoever received the command from its constructor
	hasDelay := func(f *ssa.Function) bool {
		for _, st := range storesToField(c, fk("os/exec.Cmd", "WaitDelay")) {
			if engine.TopFunc(st.Parent()) == f {
				if kc, isK := st.Val.(*ssa.Const); isK && kc.Value != nil && kc.Int64() > 0 {
					return true
				}
			}
		}
		return false
	}
	for _, field := range []string{"Stdout", "Stderr"} {
		for _, st := range storesToField(c, fk("os/exec.Cmd", field)) {
			host := engine.TopFunc(st.Parent())
			if !engine.IsFirstParty(pkgPathOf(host)) || len(callsNamed(st.Parent(), "os/exec.CommandContext")) > 0 || len(callsNamed(host, "os/exec.CommandContext")) > 0 {
				continue // judged above, with its constructor
			}
			isFile := true
			for _, o := range engine.Origins(st.Val) {
				if o == nil {
					continue
				}
				v := o
				if mi, isMI := v.(*ssa.MakeInterface); isMI {
					v = mi.X
				}
				if !strings.HasSuffix(v.Type().String(), "*os.File") {
					isFile = false
				}
			}
			if isFile {
				continue
			}
			// only commands created on a context (the ones an interrupt is meant to end); a short `git rev-parse`
			// run with exec.Command is not waited for under an interrupt deadline
			onCtx := false
			for _, f := range []*ssa.Function{host, st.Parent()} {
				for _, cs := range engine.SitesIn(f) {
					for _, cal := range c.G.CalleesOf(cs) {
						if len(callsNamed(cal, "os/exec.CommandContext")) > 0 {
							onCtx = true
						}
					}
				}
			}
			if !onCtx {
				continue
			}
			n++
			ok := hasDelay(host)
			for _, cs := range engine.SitesIn(host) {
				for _, cal := range c.G.CalleesOf(cs) {
					if len(callsNamed(cal, "os/exec.CommandContext")) > 0 && hasDelay(cal) {
						ok = true
					}
				}
			}
			for _, cs := range engine.SitesIn(st.Parent()) {
				for _, cal := range c.G.CalleesOf(cs) {
					if len(callsNamed(cal, "os/exec.CommandContext")) > 0 && hasDelay(cal) {
						ok = true
					}
				}
			}
			c.Require(ok, rule, "piped-command-has-wait-delay/"+c.P.FuncName(host)+"/"+field, "the replaced writer goes with a WaitDelay", "a command's "+field+" is replaced by a writer that is not an *os.File (os/exec then copies through a pipe) and neither this function nor the constructor of the command sets a WaitDelay: after SIGINT/SIGTERM the command is killed, but Wait blocks as long as any descendant of it still holds the pipe's write end — grog does not exit within a bounded time", c.P.InstrPos(st))
		}
	}
	if n == 0 {
		c.Unknown(rule, "piped-command-has-wait-delay", "no exec.CommandContext in first-party code: the rule lost its subject", "-")
	}
}

// R09o / R13m: the entries of a persisted record do not arrive through a channel that goroutines feed. A
// collector that appends `<-results` in the order the workers finish records the entries in completion order
// just as appending from the goroutines themselves would (R09j): the digest of an unchanged directory differs
// from run to run, and every dependant is invalidated although nothing changed.
func ruleRecordEntriesNotFromCompletionOrder(c *Check, rule string) {
	c.Rule(rule, "no element appended to a list of persisted-record values (proto/gen) in internal/output derives from a receive on a channel that spawned goroutines send on, unless the list is sorted afterwards in the same function: the order of a record's entries is the order of a sequential walk, not of goroutine completion", 0)
	// channels with a send inside a spawned function
	spawned := map[*ssa.Function]bool{}
	for _, fn := range c.P.Funcs {
		for _, s := range engine.SitesIn(fn) {
			for _, f := range spawnedAt(c, s) {
				spawned[f] = true
			}
		}
	}
	fedByGoroutines := map[string]bool{} // channel identity: expression key in the enclosing top function
	for fn := range spawned {
		if !engine.InPackage(fn, "output") {
			continue
		}
		for _, b := range fn.Blocks {
			for _, in := range b.Instrs {
				if sd, ok := in.(*ssa.Send); ok {
					for _, o := range engine.Origins(sd.Chan) {
						if o != nil {
							fedByGoroutines[c.P.FuncName(engine.TopFunc(fn))+"|"+chanName(o)] = true
						}
					}
				}
			}
		}
	}
	var srcs []Node
	for _, fn := range c.P.Funcs {
		if !engine.InPackage(fn, "output") {
			continue
		}
		for _, b := range fn.Blocks {
			for _, in := range b.Instrs {
				u, ok := in.(*ssa.UnOp)
				if !ok || u.Op != token.ARROW {
					continue
				}
				for _, o := range engine.Origins(u.X) {
					if o != nil && fedByGoroutines[c.P.FuncName(engine.TopFunc(fn))+"|"+chanName(o)] {
						srcs = append(srcs, Node(u))
					}
				}
			}
		}
	}
	n := 0
	if len(srcs) > 0 {
		fwd := c.G.Forward(srcs, func(e *engine.Edge) bool {
			if e.Via == nil || !engine.InPackage(e.Via.Parent(), "output") {
				return false
			}
			if call, ok := e.Via.(ssa.CallInstruction); ok && (e.Kind == engine.EExtArg || e.Kind == engine.EExtWrite) && isLogOrErrCall(engine.CalleeName(call)) {
				return false
			}
			return true
		})
		for _, fn := range c.P.Funcs {
			if !engine.InPackage(fn, "output") {
				continue
			}
			for _, s := range engine.SitesIn(fn) {
				b, ok := s.Common().Value.(*ssa.Builtin)
				if !ok || b.Name() != "append" || len(s.Common().Args) < 2 {
					continue
				}
				sl, ok := s.Common().Args[0].Type().Underlying().(*types.Slice)
				if !ok || !strings.HasPrefix(engine.TypeKey(sl.Elem()), "proto/gen.") {
					continue
				}
				tainted := false
				for _, a := range s.Common().Args[1:] {
					if fwd.Has(a) {
						tainted = true
					}
					// varargs: the one-element slice literal
					if vs, isSl := a.(*ssa.Slice); isSl {
						if al, isAl := vs.X.(*ssa.Alloc); isAl {
							for _, r := range *al.Referrers() {
								if ia, isIA := r.(*ssa.IndexAddr); isIA {
									for _, rr := range *ia.Referrers() {
										if st, isSt := rr.(*ssa.Store); isSt && (fwd.Has(st.Val) || builtFromTainted(st.Val, fwd)) {
											tainted = true
										}
									}
								}
							}
						}
					}
				}
				// the receive and the append belong to one top-level function (the value-flow graph is field-based:
				// a flow that only exists through a record's field is somebody else's list)
				sameTop := false
				for _, src := range srcs {
					if u, ok := src.(*ssa.UnOp); ok && engine.TopFunc(u.Parent()) == engine.TopFunc(fn) {
						sameTop = true
					}
				}
				if !tainted || !sameTop {
					continue
				}
				n++
				// a sort of the same list later in the enclosing top-level function repairs the order
				sorted := false
				top := engine.TopFunc(fn)
				for _, f := range c.P.Funcs {
					if engine.TopFunc(f) != top {
						continue
					}
					for _, ss := range engine.SitesIn(f) {
						switch engine.CalleeName(ss) {
						case "sort.Slice", "sort.SliceStable", "slices.SortFunc", "slices.SortStableFunc", "sort.Sort":
							if len(ss.Common().Args) > 0 && types.Identical(ss.Common().Args[0].Type(), s.Common().Args[0].Type()) {
								sorted = true
							}
						}
					}
				}
				c.Require(sorted, rule, "record-entries-not-in-completion-order/"+c.P.FuncName(fn), "the list is sorted after it was collected", "entries of a persisted record are appended as they arrive on a channel that goroutines send on: they are recorded in completion order, so the digest of the record — the tree digest of a directory output, and the output hash of its target — differs between two executions that produced the same bytes, and every dependant is invalidated although nothing changed", c.P.InstrPos(s))
			}
		}
	}
	if n == 0 {
		c.OK(rule, "record-entries-not-in-completion-order/none", "no record list is filled from a channel that goroutines feed", "-")
	}
}

func chanName(v ssa.Value) string {
	// a channel is identified, inside one top-level function and its literals, by its element type (the free
	// variable of a literal and the MakeChan it is bound to are the same channel)
	if ct, ok := v.Type().Underlying().(*types.Chan); ok {
		return "chan " + ct.Elem().String()
	}
	return engine.ExprKey(v)
}

// builtFromTainted: v is a composite literal one of whose fields is assigned a tainted value.
func builtFromTainted(v ssa.Value, fwd *engine.Reach) bool {
	al, ok := v.(*ssa.Alloc)
	if !ok || al.Referrers() == nil {
		return false
	}
	for _, r := range *al.Referrers() {
		if fa, isFA := r.(*ssa.FieldAddr); isFA && fa.Referrers() != nil {
			for _, u := range *fa.Referrers() {
				if st, isSt := u.(*ssa.Store); isSt && st.Addr == ssa.Value(fa) && fwd.Has(st.Val) {
					return true
				}
			}
		}
	}
	return false
}

// R09p / R20o: which declared inputs a target keeps depends on the declared patterns and the declared
// exclusions only. A filter on the way from the BUILD file's `inputs` to Target.Inputs whose condition depends
// on what is on disk at load time (a file a dependency will generate is not there yet) or on the target's own
// outputs gives one state two input sets — and `owners`, the key and the build disagree about them.
func ruleInputsFilteredByExclusionsOnly(c *Check, rule string) {
	c.Rule(rule, "in the functions of internal/loading through which the declared inputs reach Target.Inputs, an element is kept or dropped by a condition that does not depend on a file-system probe (os.Stat/Lstat/ReadDir/Readlink) or on the target's declared outputs: only the pattern itself and exclude_inputs decide", 1)
	// the functions on the way: those with an edge on a value-flow path from TargetDTO.Inputs to Target.Inputs
	src := fk("loading.TargetDTO", "Inputs")
	dst := fk("model.Target", "Inputs")
	inLoading := func(e *engine.Edge) bool {
		return e.Via != nil && engine.InPackage(e.Via.Parent(), "loading") && !isContentEdge(e)
	}
	fwd := c.G.Forward([]Node{src}, inLoading)
	bwd := c.G.Backward([]Node{dst}, inLoading)
	onWay := map[*ssa.Function]bool{}
	for n := range fwd.Parent {
		if !bwd.Has(n) {
			continue
		}
		if v, ok := n.(ssa.Value); ok {
			if in, isIn := v.(ssa.Instruction); isIn && in.Parent() != nil {
				onWay[engine.TopFunc(in.Parent())] = true
			}
			if p, isP := v.(*ssa.Parameter); isP {
				onWay[engine.TopFunc(p.Parent())] = true
			}
		}
	}
	if len(onWay) == 0 {
		c.Unknown(rule, "inputs-filtered-by-exclusions-only", "anchor-unresolved: no value-flow path from TargetDTO.Inputs to Target.Inputs inside internal/loading", "-")
		return
	}
	// forbidden sources
	var probes []Node
	for _, s := range c.G.CallsTo("os.Stat", "os.Lstat", "os.ReadDir", "os.Readlink", "io/fs.Stat") {
		if engine.InPackage(s.Parent(), "loading") {
			if v := s.Value(); v != nil {
				probes = append(probes, Node(v))
			}
		}
	}
	// ... and the answers of first-party helpers that consult the file system ("does this input exist?")
	probing := map[*ssa.Function]bool{}
	for _, s := range c.G.CallsTo("os.Stat", "os.Lstat", "os.ReadDir", "os.Readlink", "io/fs.Stat") {
		probing[engine.TopFunc(s.Parent())] = true
	}
	for _, s := range c.G.Sites {
		if !engine.InPackage(s.Parent(), "loading") {
			continue
		}
		for _, cal := range c.G.CalleesOf(s) {
			if probing[cal] && engine.InPackage(cal, "loading") {
				if v := s.Value(); v != nil {
					probes = append(probes, Node(v))
				}
			}
		}
	}
	outs := []Node{fk("loading.TargetDTO", "Outputs"), fk("loading.TargetDTO", "BinOutput"), fk("model.Target", "Outputs"), fk("model.Target", "BinOutput")}
	local := func(e *engine.Edge) bool {
		if e.Via == nil || !(engine.InPackage(e.Via.Parent(), "loading") || engine.InPackage(e.Via.Parent(), "model") || (engine.InPackage(e.Via.Parent(), "output") && !engine.InPackage(e.Via.Parent(), "output/handlers"))) {
			return false
		}
		if call, ok := e.Via.(ssa.CallInstruction); ok && (e.Kind == engine.EExtArg || e.Kind == engine.EExtWrite) && isLogOrErrCall(engine.CalleeName(call)) {
			return false
		}
		return true
	}
	fromProbe := c.G.Forward(probes, local)
	fromOuts := c.G.Forward(outs, local)
	var fns []*ssa.Function
	for f := range onWay {
		fns = append(fns, f)
	}
	sortFnsByName(c, fns)
	n := 0
	for _, top := range fns {
		// only the functions whose parameters or results carry the input list (not the loaders that decode it)
		carries := false
		for _, p := range top.Params {
			if fwd.Has(p) && bwd.Has(p) {
				carries = true
			}
		}
		if !carries {
			continue
		}
		n++
		bad := ""
		for _, f := range c.P.Funcs {
			if engine.TopFunc(f) != top {
				continue
			}
			for _, b := range f.Blocks {
				ifi, ok := lastIf(b)
				if !ok || !engine.InLoop(ifi) {
					continue
				}
				a := engine.CondAtom(ifi.Cond, true)
				if a.Op == "nil" || a.Op == "nonnil" {
					continue // error checks
				}
				vals := []ssa.Value{a.V, a.Other}
				// the answer of a first-party predicate: what its own branches compare
				if call, _ := engine.CallOf(a.V); call != nil {
					for _, cal := range c.G.CalleesOf(call) {
						if !engine.IsFirstParty(pkgPathOf(cal)) {
							continue
						}
						for _, cb := range cal.Blocks {
							if ci, isIf := lastIf(cb); isIf {
								ca := engine.CondAtom(ci.Cond, true)
								vals = append(vals, ca.V, ca.Other)
							}
						}
					}
				}
				for _, v := range vals {
					if v == nil {
						continue
					}
					if fromProbe.Has(v) {
						bad = "a file-system probe (condition at " + c.P.InstrPos(ifi) + ")"
					}
					if fromOuts.Has(v) {
						bad = "the target's declared outputs (condition at " + c.P.InstrPos(ifi) + ")"
					}
				}
			}
		}
		c.Require(bad == "", rule, "inputs-filtered-by-exclusions-only/"+c.P.FuncName(top), "no loop condition on the way of the input list depends on a file-system probe or on the outputs", "on the way from the declared inputs to Target.Inputs a loop keeps or drops elements depending on "+bad+": a literal input that a dependency generates is missing from the list on a fresh checkout and present once a stale copy lies on disk (one state, two keys), or a file that is both input and output of a target silently stops being an input — the key, `grog owners` and the rebuilt set no longer describe the same inputs", c.P.Pos(top.Pos()))
	}
	if n == 0 {
		c.Unknown(rule, "inputs-filtered-by-exclusions-only", "anchor-unresolved: no function of internal/loading takes the input list as a parameter on its way to Target.Inputs", "-")
	}
}

func sortFnsByName(c *Check, fns []*ssa.Function) {
	for i := 1; i < len(fns); i++ {
		for j := i; j > 0 && c.P.FuncName(fns[j]) < c.P.FuncName(fns[j-1]); j-- {
			fns[j], fns[j-1] = fns[j-1], fns[j]
		}
	}
}

// R16u / R09q: a declared scalar is taken as it is spelled. A loader that decodes a field into a generic value
// first (`any`, a parsed number, a bool) and renders it back with fmt.Sprint or strconv loses the spelling:
// `go: 1.20` becomes "1.2", `0x1F` becomes "31", `True` becomes "true" — the same package in another format
// keeps what was written.
func ruleScalarsNotReRendered(c *Check, rule string) {
	c.Rule(rule, "no function of internal/loading renders a dynamically typed or numeric value back into a string (fmt.Sprint*, fmt.Sprintf with a value verb, strconv.Format*/Itoa) that it returns or stores — outside error and log messages: string fields are decoded as strings, so every format yields the spelling of the BUILD file", 0)
	n := 0
	for _, fn := range c.P.Funcs {
		if !engine.InPackage(fn, "loading") {
			continue
		}
		for _, s := range engine.SitesIn(fn) {
			name := engine.CalleeName(s)
			render := false
			switch name {
			case "fmt.Sprint", "fmt.Sprintln", "strconv.FormatFloat", "strconv.FormatInt", "strconv.FormatUint", "strconv.FormatBool", "strconv.Itoa":
				render = true
			case "fmt.Sprintf":
				render = true
			}
			if !render || s.Value() == nil {
				continue
			}
			// what is rendered: a dynamically typed value or a number/bool (rendering a string or a label is
			// not a change of spelling)
			dynamic := false
			args := s.Common().Args
			if name == "fmt.Sprintf" && len(args) > 0 {
				args = args[1:]
			}
			var check func(v ssa.Value, d int)
			check = func(v ssa.Value, d int) {
				if v == nil || d > 4 {
					return
				}
				switch x := v.(type) {
				case *ssa.MakeInterface:
					t := x.X.Type().Underlying()
					if _, isIface := t.(*types.Interface); isIface {
						dynamic = true
					}
					if bt, isBasic := t.(*types.Basic); isBasic && bt.Info()&(types.IsNumeric|types.IsBoolean) != 0 {
						dynamic = true
					}
				case *ssa.Slice:
					if al, ok := x.X.(*ssa.Alloc); ok && al.Referrers() != nil {
						for _, r := range *al.Referrers() {
							if ia, isIA := r.(*ssa.IndexAddr); isIA && ia.Referrers() != nil {
								for _, u := range *ia.Referrers() {
									if st, isSt := u.(*ssa.Store); isSt {
										check(st.Val, d+1)
									}
								}
							}
						}
					}
				default:
					if _, isIface := v.Type().Underlying().(*types.Interface); isIface {
						dynamic = true
					}
					if bt, isBasic := v.Type().Underlying().(*types.Basic); isBasic && bt.Info()&(types.IsNumeric|types.IsBoolean) != 0 {
						dynamic = true
					}
				}
			}
			for _, a := range args {
				check(a, 0)
			}
			if !dynamic {
				continue
			}
			// where the rendering goes: returned, stored, used as a key — anything but an error or a log line
			kept := false
			if refs := s.Value().Referrers(); refs != nil {
				for _, r := range *refs {
					switch x := r.(type) {
					case *ssa.Return, *ssa.Store, *ssa.MapUpdate, *ssa.Phi:
						kept = true
					case *ssa.MakeInterface:
						// an argument of an error or log call is not kept
						onlyMsg := true
						if x.Referrers() != nil {
							for _, u := range *x.Referrers() {
								if st, isSt := u.(*ssa.Store); isSt {
									if ia, isIA := st.Addr.(*ssa.IndexAddr); isIA {
										if al, isAl := ia.X.(*ssa.Alloc); isAl && al.Comment == "varargs" {
											continue
										}
									}
								}
								onlyMsg = false
							}
						}
						if !onlyMsg {
							kept = true
						}
					case *ssa.Call:
						if !isLogOrErrCall(engine.CalleeName(x)) {
							kept = true
						}
					case *ssa.BinOp:
						kept = true
					}
				}
			}
			if !kept {
				continue
			}
			n++
			c.Bad(rule, "scalars-not-re-rendered/"+c.P.FuncName(fn), "a loader renders a parsed (dynamically typed or numeric) value back into a string with "+name+" and keeps the result: the spelling of the BUILD file is replaced by the canonical rendering of the parsed value (`1.20` → `1.2`, `0x1F` → `31`, `True` → `true`, a date → a timestamp), so the same package described in another format loads to different targets — and two spellings the user distinguishes (a fingerprint `3.1` vs `3.10`) collapse into one key", c.P.InstrPos(s))
		}
	}
	if n == 0 {
		c.OK(rule, "scalars-not-re-rendered/none", "no loader renders a parsed value back into a kept string", "-")
	}
}
