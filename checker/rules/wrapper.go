package rules

import (
	"go/ast"
	"go/types"
	"os"
	"path/filepath"
	"regexp"
	"strconv"
	"strings"

	"golang.org/x/tools/go/ssa"

	"grogverif/engine"
)

// The shell wrapper. Every target command and every output-check command runs inside a script
// rendered from a template that the execution package embeds (//go:embed); the Go side decides
// success from that script's exit status alone. The status of a script is the status of its last
// command, so the user command has to be the last command of the template (or its status has to
// be captured right after it and handed to a final `exit`). The template is part of the build
// (the embed directive names it), so the rule reads it like any other source file; it is a shape
// of that file, not of a run.

type embeddedTemplate struct {
	global *ssa.Global
	file   string // absolute path
	parse  ssa.CallInstruction
	fields []string // string-typed fields of the struct handed to Execute in the same function
}

func findEmbeddedTemplates(c *Check, pkgRel string) []embeddedTemplate {
	var out []embeddedTemplate
	// go:embed directives of the package
	embeds := map[string]string{} // var name -> file
	for _, pkg := range c.P.Pkgs {
		if !strings.HasSuffix(pkg.PkgPath, "/"+pkgRel) {
			continue
		}
		for _, f := range pkg.Syntax {
			dir := filepath.Dir(c.P.Fset.Position(f.Pos()).Filename)
			for _, d := range f.Decls {
				gd, ok := d.(*ast.GenDecl)
				if !ok || gd.Doc == nil {
					continue
				}
				for _, cm := range gd.Doc.List {
					if !strings.HasPrefix(cm.Text, "//go:embed ") {
						continue
					}
					pat := strings.TrimSpace(strings.TrimPrefix(cm.Text, "//go:embed "))
					for _, sp := range gd.Specs {
						if vs, ok := sp.(*ast.ValueSpec); ok && len(vs.Names) == 1 {
							embeds[vs.Names[0].Name] = filepath.Join(dir, pat)
						}
					}
				}
			}
		}
	}
	for _, fn := range c.P.Funcs {
		if !engine.InPackage(fn, pkgRel) {
			continue
		}
		for _, s := range engine.SitesIn(fn) {
			if engine.CalleeName(s) != "(*text/template.Template).Parse" || len(s.Common().Args) < 2 {
				continue
			}
			for _, o := range engine.Origins(s.Common().Args[1]) {
				g, ok := o.(*ssa.Global)
				if !ok {
					if u, isLoad := o.(*ssa.UnOp); isLoad {
						g, ok = u.X.(*ssa.Global)
					}
				}
				if !ok || embeds[g.Name()] == "" {
					continue
				}
				et := embeddedTemplate{global: g, file: embeds[g.Name()], parse: s}
				// the data struct of the Execute call of the same function
				var execSites []ssa.CallInstruction
				for _, ef := range c.P.Funcs {
					if engine.InPackage(ef, pkgRel) {
						execSites = append(execSites, engine.SitesIn(ef)...)
					}
				}
				seenField := map[string]bool{}
				for _, e := range execSites {
					if engine.CalleeName(e) != "(*text/template.Template).Execute" || len(e.Common().Args) < 3 {
						continue
					}
					v := e.Common().Args[2]
					if mi, ok := v.(*ssa.MakeInterface); ok {
						v = mi.X
					}
					t := v.Type()
					if p, ok := t.Underlying().(*types.Pointer); ok {
						t = p.Elem()
					}
					if st, ok := t.Underlying().(*types.Struct); ok {
						for i := 0; i < st.NumFields(); i++ {
							if isStringType(st.Field(i).Type()) && !seenField[st.Field(i).Name()] {
								seenField[st.Field(i).Name()] = true
								et.fields = append(et.fields, st.Field(i).Name())
							}
						}
					}
				}
				out = append(out, et)
			}
		}
	}
	return out
}

var (
	tmplComment = regexp.MustCompile(`(?s)\{\{-?\s*/\*.*?\*/\s*-?\}\}`)
	captureRe   = regexp.MustCompile(`^(?:local\s+|readonly\s+)?([A-Za-z_][A-Za-z0-9_]*)="?\$\?"?$`)
)

// statusPreserved decides whether the text that follows the user command leaves the script's exit status
// to the user command.
func statusPreserved(tail string) (bool, string) {
	tail = tmplComment.ReplaceAllString(tail, "")
	var lines []string
	for _, l := range strings.Split(tail, "\n") {
		l = strings.TrimSpace(l)
		if l == "" || strings.HasPrefix(l, "#") {
			continue
		}
		lines = append(lines, l)
	}
	if len(lines) == 0 {
		return true, "the user command is the last command of the wrapper"
	}
	if len(lines) == 1 && (lines[0] == "exit $?" || lines[0] == `exit "$?"`) {
		return true, "the wrapper exits with the status of the user command"
	}
	if m := captureRe.FindStringSubmatch(lines[0]); m != nil {
		last := lines[len(lines)-1]
		v := m[1]
		for _, form := range []string{"exit $" + v, "exit \"$" + v + "\"", "exit ${" + v + "}", "exit \"${" + v + "}\""} {
			if last == form {
				return true, "the status of the user command is captured right after it and handed to the final exit"
			}
		}
	}
	return false, "`" + lines[0] + "`"
}

func ruleWrapperStatus(c *Check, rule string) {
	c.Rule(rule, "the embedded shell wrapper ends with the user command (or captures $? right after it and exits with it): the script's exit status, which is all the Go side looks at, is the status of the target's command", 1)
	ts := findEmbeddedTemplates(c, "execution")
	if len(ts) == 0 {
		c.Unknown(rule, "wrapper-status/execution", "no embedded template handed to text/template Parse found in the execution package", "")
		return
	}
	for _, t := range ts {
		key := "wrapper-status/" + filepath.Base(t.file)
		var src []byte
		if b, ok := c.P.Overlay[t.file]; ok {
			src = b
		} else if b, err := os.ReadFile(t.file); err == nil {
			src = b
		} else {
			c.Unknown(rule, key, "embedded template cannot be read: "+err.Error(), c.P.InstrPos(t.parse))
			continue
		}
		text := string(src)
		// the action that renders the command: the only string-typed field of the data struct
		var act *regexp.Regexp
		if len(t.fields) == 1 {
			act = regexp.MustCompile(`\{\{-?\s*\.` + regexp.QuoteMeta(t.fields[0]) + `\s*-?\}\}`)
		}
		if act == nil {
			c.Unknown(rule, key, "cannot tell which template field carries the user command (string fields of the data struct: "+strings.Join(t.fields, ",")+")", c.P.InstrPos(t.parse))
			continue
		}
		locs := act.FindAllStringIndex(text, -1)
		if len(locs) == 0 {
			c.Bad(rule, key, "the wrapper template never renders ."+t.fields[0]+": the target's command is not run at all", c.P.InstrPos(t.parse))
			continue
		}
		last := locs[len(locs)-1]
		// the command stands alone on its line
		ls := strings.LastIndex(text[:last[0]], "\n") + 1
		le := strings.Index(text[last[1]:], "\n")
		if le < 0 {
			le = len(text)
		} else {
			le += last[1]
		}
		before, after := strings.TrimSpace(text[ls:last[0]]), strings.TrimSpace(text[last[1]:le])
		rel, _ := filepath.Rel(c.P.RepoDir, t.file)
		pos := rel + ":" + strconv.Itoa(strings.Count(text[:last[0]], "\n")+1)
		if before != "" || after != "" {
			c.Bad(rule, key, "the user command shares its line with other shell text (`"+before+" … "+after+"`), so its status is not the status of the line (a trailing `|| true`, `&`, `;cmd` or a pipeline replaces it): a failing command can be reported as a success, cached, and its dependants run", pos)
			continue
		}
		ok, what := statusPreserved(text[le:])
		if ok {
			c.OK(rule, key, what, pos)
		} else {
			c.Bad(rule, key, "the wrapper runs "+what+" after the user command without preserving $?: the script exits with the status of that later command, so a command that ends with a non-zero status where `set -e` does not abort (the left side of &&, `set +e`, disabled default flags) is reported as a success, its outputs are cached and its dependants run; a failing output check passes", pos)
		}
	}
}
